SPECIFICATION Spec
CONSTANTS
  P = 3
  NPUB = 2
  NPRIV = 0
  PreConsts <- PreNone
  MaxCalls = 3
  MaxConn = 1
  Kinds = {"sub", "add", "div", "mul", "connect"}
  FixD1 = TRUE
  FixD2 = TRUE
  FixFuse = TRUE
  FixAcc = TRUE
  NoFold = TRUE
INVARIANTS
  TypeOK
  EmitReplay
  RunnerSelfConsistent
  BuilderSound
  FuseOrderIndependent
CHECK_DEADLOCK FALSE
