----------------------------- MODULE PoseidonRows -----------------------------
(***************************************************************************)
(* Circuit-level row constraints of the Poseidon tables in Merkle mode      *)
(* (poseidon2-circuit-air/src/air.rs: eval_circuit for the arity-2 shape,   *)
(* eval_arity4 for the 4-to-1 shape), as a window of two consecutive rows   *)
(* over GF(P).  The permutation itself is the inner AIR's business: a row   *)
(* is abstracted to the digest it outputs (one field element stands for the *)
(* CAPACITY_EXT * D cells of a chunk), the chunks of its input, its         *)
(* direction bits, the product column and the index accumulator.            *)
(*                                                                          *)
(*   local constraints (every row):  bit boolean; arity 4: bit2 boolean,    *)
(*       prod = bit * bit2                                                  *)
(*   window constraints, gated on the NEXT row continuing a Merkle chain    *)
(*   (preprocessed: not new_start, merkle_path, limb not CTL-loaded):       *)
(*       arity 2:  (1 - bit') (c0' - d) = 0,  bit' (c1' - d) = 0            *)
(*       arity 4:  h_k (c_k' - d) = 0 for the four one-hot gates            *)
(*                 h0 = 1 - b - b2 + prod, h1 = b - prod, h2 = b2 - prod,   *)
(*                 h3 = prod                                                *)
(*       sum' = A * sum + bit' (+ 2 bit2')                                  *)
(*                                                                          *)
(* C11: the constraints accept a window iff it is a Merkle step: both bits  *)
(* are bits, the product column is their product, the chunk at position     *)
(* bit' + 2 bit2' of the next row's input is the running digest, and the    *)
(* accumulator advances by that position in base A.                         *)
(*                                                                          *)
(* Deviations: BoolOn = "bit2" (code) | "prod" (the boolean check sits on   *)
(* the product column); Chunks = the chunk indices whose placement          *)
(* constraint is emitted (code: 0..A-1).                                    *)
(* StartPinned: whether a chain-start row's accumulator is constrained (the *)
(* code does not: ChainStartSumFixed is violated for StartPinned = FALSE).  *)
(***************************************************************************)
EXTENDS Integers, FiniteSets, TLC, Json

CONSTANTS P, A, BoolOn, Chunks, StartPinned

GF == 0..(P - 1)
M(x) == x % P
ChunkIx == 0..(A - 1)
RowT == [d : GF, c : [ChunkIx -> GF], b : GF, b2 : GF, prod : GF, sum : GF]

VARIABLES cur, nxt, ns     \* ns: the next row starts a new chain (preprocessed)
vars == <<cur, nxt, ns>>
\* the current row is taken to be a valid row of its own (its bits are what the window before it checked); its inputs and the
\* next row's digest play no role in the window
Hi == IF A = 4 THEN {0, 1} ELSE {0}
GHi == IF A = 4 THEN GF ELSE {0}
Init == /\ \E d \in GF, b \in {0, 1}, b2 \in Hi, sm \in GF :
             cur = [d |-> d, c |-> [k \in ChunkIx |-> 0], b |-> b, b2 |-> b2, prod |-> b * b2, sum |-> sm]
        /\ \E c \in [ChunkIx -> GF], b \in GF, b2 \in GHi, pr \in GHi, sm \in GF :
             nxt = [d |-> 0, c |-> c, b |-> b, b2 |-> b2, prod |-> pr, sum |-> sm]
        /\ ns \in BOOLEAN
Next == UNCHANGED vars
Spec == Init /\ [][Next]_vars

IsBit(x) == M(x * (x + P - 1)) = 0
Local(r) == /\ IsBit(r.b)
            /\ A = 4 => /\ (IF BoolOn = "bit2" THEN IsBit(r.b2) ELSE IsBit(r.prod))
                        /\ r.prod = M(r.b * r.b2)
H(r, k) == IF A = 2 THEN (IF k = 0 THEN M(1 + P - r.b) ELSE r.b)
           ELSE CASE k = 0 -> M(1 + 2 * P - r.b - r.b2 + r.prod)
                  [] k = 1 -> M(r.b + P - r.prod)
                  [] k = 2 -> M(r.b2 + P - r.prod)
                  [] k = 3 -> r.prod
WindowW(c, n, s) == ~s => /\ \A k \in Chunks : M(H(n, k) * (n.c[k] + P - c.d)) = 0
                          /\ n.sum = M(A * c.sum + n.b + 2 * n.b2)
StartW(n, s) == (s /\ StartPinned) => n.sum = 0
AcceptsW(c, n, s) == Local(c) /\ Local(n) /\ WindowW(c, n, s) /\ StartW(n, s)
Accepts == AcceptsW(cur, nxt, ns)

\* what a Merkle step means
BitsOK(r) == r.b \in {0, 1} /\ r.b2 \in {0, 1} /\ r.prod = r.b * r.b2
Pos(r) == r.b + 2 * r.b2
RelationW(c, n, s) == /\ BitsOK(c) /\ BitsOK(n)
                      /\ ~s => /\ n.c[Pos(n)] = c.d
                                /\ n.sum = M(A * c.sum + Pos(n))
Relation == RelationW(cur, nxt, ns)
ConstraintIffRelation == Accepts <=> Relation
Sound == Accepts => Relation
\* a chain starts with a fresh accumulator
ChainStartSumFixed == (Accepts /\ ns) => nxt.sum = 0

\* ------------------------------------------------------------------ deviation classes replayed into the real AIR
\* An honest continuation row at position p behind a row with digest 1 and accumulator 1 (siblings 2), and the deviations
\* of it that keep every OTHER constraint of the window satisfied.  model_accepts is the verdict of the transcribed
\* constraints under the configuration's constants, in_relation whether the window is a Merkle step.
Honest(p) == [d |-> 0, c |-> [k \in ChunkIx |-> IF k = p THEN 1 ELSE 2], b |-> p % 2, b2 |-> p \div 2,
              prod |-> (p % 2) * (p \div 2), sum |-> M(A * 1 + p)]
Prev == [d |-> 1, c |-> [k \in ChunkIx |-> 0], b |-> 0, b2 |-> 0, prod |-> 0, sum |-> 1]
Dev(p, dev) ==
    LET h == Honest(p) IN
    CASE dev = "none"          -> h
      [] dev = "digest-chunk"  -> [h EXCEPT !.c[p] = 2]
      [] dev = "sum"           -> [h EXCEPT !.sum = M(h.sum + 1)]
      [] dev = "bit-2"         -> [h EXCEPT !.b = 2, !.prod = M(2 * h.b2), !.sum = M(A * 1 + 2 + 2 * h.b2),
                                            !.c = [k \in ChunkIx |-> 1]]
      [] dev = "bit2-2"        -> [h EXCEPT !.b2 = 2, !.prod = M(2 * h.b), !.sum = M(A * 1 + h.b + 4),
                                            !.c = [k \in ChunkIx |-> 1]]
      [] dev = "prod"          -> [h EXCEPT !.prod = M(h.prod + 1), !.c = [k \in ChunkIx |-> 1]]
Devs == IF A = 4 THEN {"none", "digest-chunk", "sum", "bit-2", "bit2-2", "prod"} ELSE {"none", "digest-chunk", "sum", "bit-2"}
CaseRec(p, dev) == [spec |-> "PoseidonRows", arity |-> A, pos |-> p, dev |-> dev,
                    model_accepts |-> AcceptsW(Prev, Dev(p, dev), FALSE), in_relation |-> RelationW(Prev, Dev(p, dev), FALSE)]
StartCase == [spec |-> "PoseidonRows", arity |-> A, pos |-> 0, dev |-> "start-sum",
              model_accepts |-> AcceptsW(Prev, [Honest(0) EXCEPT !.sum = 2], TRUE), in_relation |-> FALSE]
CaseInit == cur = Prev /\ nxt = Honest(0) /\ ns = FALSE
CaseSpec == CaseInit /\ [][Next]_vars
EmitCases == /\ \A p \in ChunkIx : \A dev \in Devs : PrintT(<<"REPLAY", ToJson(CaseRec(p, dev))>>)
             /\ PrintT(<<"REPLAY", ToJson(StartCase)>>)
=============================================================================
