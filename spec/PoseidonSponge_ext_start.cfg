SPECIFICATION Spec
CONSTANTS
  P = 3
  R = 2
  C = 2
  Layout = "ext"
  WrapCovered = TRUE
  CapChained = {2, 3}
INVARIANTS
  FreshStart
CHECK_DEADLOCK FALSE
