-------------------------------- MODULE Fold --------------------------------
(***************************************************************************)
(* Alpha-folding of an AIR's constraints.  The native folder (and the       *)
(* native prover's quotient) accumulate  acc := acc * alpha + c_i  in the   *)
(* order the AIR emits its constraints, base and extension constraints      *)
(* interleaved.  eval_folded_circuit receives the symbolic constraints as   *)
(* two lists (base, extension) and folds the base ones first.               *)
(* EmissionOrder = TRUE models a circuit that folds in emission order.      *)
(***************************************************************************)
EXTENDS Integers, Sequences, TLC
CONSTANTS MaxConstraints, EmissionOrder
VARIABLES kinds, done
vars == <<kinds, done>>
Init == kinds = <<>> /\ done = FALSE
Emit == ~done /\ Len(kinds) < MaxConstraints /\ \E k \in {"b", "e"} : kinds' = Append(kinds, k) /\ UNCHANGED done
Stop == ~done /\ Len(kinds) > 0 /\ done' = TRUE /\ UNCHANGED kinds
Next == Emit \/ Stop
Spec == Init /\ [][Next]_vars
\* folding a sequence of constraint symbols: the term acc*alpha + c, left to right
RECURSIVE FoldTerm(_, _)
FoldTerm(acc, s) == IF s = <<>> THEN acc ELSE FoldTerm(<<"fma", acc, Head(s)>>, Tail(s))
Syms == [i \in 1..Len(kinds) |-> <<kinds[i], i>>]
Native == FoldTerm(<<"zero">>, Syms)
Circuit == IF EmissionOrder THEN Native
           ELSE FoldTerm(<<"zero">>, SelectSeq(Syms, LAMBDA c : c[1] = "b") \o SelectSeq(Syms, LAMBDA c : c[1] = "e"))
FoldEqualsNative == done => Circuit = Native
\* the shape for which the two orders coincide
BaseBeforeExt == \A i, j \in 1..Len(kinds) : (kinds[i] = "e" /\ kinds[j] = "b") => i > j
FoldEqualsNativeWhenOrdered == (done /\ BaseBeforeExt) => Circuit = Native
=============================================================================
