SPECIFICATION Spec
CONSTANTS
  MaxOps = 4
  Configs <- CfgThorough
INVARIANTS
  Emit
CHECK_DEADLOCK FALSE
