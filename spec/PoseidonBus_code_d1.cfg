SPECIFICATION Spec
CONSTANTS
  Design = "code"
  Arity4 = FALSE
  FirstRowCovered = TRUE
  CompactD1 = TRUE
  MaxSponge = 3
  MaxDepth = 4
INVARIANTS
  PadsAreFixed
  EveryChainedLimbBound
CHECK_DEADLOCK FALSE
