SPECIFICATION Spec
CONSTANTS
  Bases <- BasesMix
  PSets <- PS1
  NSlots = {"s0"}
  ASlots = {"g0"}
  MaxBase = 2
  MaxProve = 2
  MaxParams = 0
  Ops = {"next", "agg"}
  MustFill = TRUE
  Policy = "code"
INVARIANTS
  TypeOK
  SlotsComeFromCalls
  CountersCoarser
  OutputsChain
  Emit
CHECK_DEADLOCK FALSE
