---------------------------- MODULE MC_Recursion2 ----------------------------
(* Batch-STARK children of different circuit shapes (kept apart from MC_Recursion so that its explorations stay cached).    *)
(* BS(k, ops, lanes): a circuit with `ops` ALU operations proven with `lanes` ALU lanes (n = 10 * ops + lanes).  The prover *)
(* reduces a "dummy-only" ALU table to one lane (zero or one op), the preparation step only an empty one: children whose   *)
(* proof carries other common data than the one prepared for them exist, and every layer must take the proof's.            *)
EXTENDS MC_Recursion
BS(k, ops, lanes) == [kind |-> "batch", air |-> "", k |-> k, n |-> 10 * ops + lanes]
BasesBatchShapes == <<BS(1, 0, 4), BS(1, 1, 1), BS(1, 1, 4), BS(1, 2, 4), BS(1, 5, 2)>>
=============================================================================
