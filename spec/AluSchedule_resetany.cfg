SPECIFICATION Spec
CONSTANTS
  MaxOps = 6
  LaneSet = {1, 2, 3}
  KSet = {2, 3, 4}
  ResetOn = "any"
  BMult = "times_k"
  PrivClasses = {}
INVARIANTS
  GeneratorAccIsAirAcc
CHECK_DEADLOCK FALSE
