SPECIFICATION Spec
CONSTANTS
  MaxOps = 5
  Configs <- CfgThorough
INVARIANTS
  Emit
CHECK_DEADLOCK FALSE
