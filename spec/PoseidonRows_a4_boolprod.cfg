SPECIFICATION Spec
CONSTANTS
  P = 3
  A = 4
  BoolOn = "prod"
  Chunks = {0, 1, 2, 3}
  StartPinned = FALSE
INVARIANTS
  Sound
CHECK_DEADLOCK FALSE
