-------------------------------- MODULE Mmcs --------------------------------
(***************************************************************************)
(* Verification of one opening of a mixed-matrix Merkle commitment, as the  *)
(* native scheme defines it (p3-merkle-tree 0.6.3 `verify_batch`, arity 2)  *)
(* and as the in-circuit verifier must reproduce it                         *)
(* (recursion/src/pcs/mmcs.rs `verify_batch_circuit`): leaf rows of the     *)
(* tallest matrices are hashed together, each level compresses with the     *)
(* sibling on the side the index bit selects, matrices of the next height   *)
(* are injected by one more compression, the result is compared with the    *)
(* cap entry the high index bits select.                                    *)
(*                                                                         *)
(* Hashes are free symbols: H(<<leaf symbols>>), C(l, r).  One action per   *)
(* step of the path.  A single fault may be applied to the data handed to   *)
(* the verifier (leaf value, sibling, index bit, cap entry).                *)
(***************************************************************************)
EXTENDS Integers, Sequences, FiniteSets, TLC

CONSTANTS MaxLog,    \* largest log2 height
          MaxMats,   \* number of matrices
          MaxCap     \* largest cap height

H(ls) == <<"H", ls>>
C(l, r) == <<"C", l, r>>

VARIABLES logh,      \* log2 height of every matrix
          index, cap, fault,
          level,     \* current level (log2 height of the layer `cur` lives in)
          cur,       \* digest term computed so far
          phase      \* "pick" | "leaf" | "walk" | "done"
vars == <<logh, index, cap, fault, level, cur, phase>>

Top == LET S == { logh[i] : i \in 1..Len(logh) } IN CHOOSE m \in S : \A x \in S : x <= m
MatsAt(l) == { i \in 1..Len(logh) : logh[i] = l }
NoFault == [kind |-> "none", mat |-> 0, lvl |-> 0, bit |-> 0, entry |-> 0]

\* what the verifier is handed (possibly faulted)
Leaf(i) == IF fault.kind = "leaf" /\ fault.mat = i THEN <<"leaf'", i>> ELSE <<"leaf", i>>
Sib(l) == IF fault.kind = "sibling" /\ fault.lvl = l THEN <<"sib'", l>> ELSE <<"sib", l>>
UsedIndex == IF fault.kind = "index_bit"
             THEN LET b == 2 ^ fault.bit IN IF (index \div b) % 2 = 1 THEN index - b ELSE index + b
             ELSE index
Bit(ix, l) == (ix \div (2 ^ l)) % 2
LeafHash(l) == H([i \in MatsAt(l) |-> Leaf(i)])

\* the honest tree (what the commitment contains), for the honest index
RECURSIVE HonestNode(_)
HonestNode(l) ==     \* node of the honest path in the layer of log-height l
    IF l = Top THEN H([i \in MatsAt(l) |-> <<"leaf", i>>])
    ELSE LET below == HonestNode(l + 1)
             up == IF Bit(index, Top - (l + 1)) = 1 THEN C(<<"sib", l + 1>>, below) ELSE C(below, <<"sib", l + 1>>)
         IN IF MatsAt(l) = {} THEN up ELSE C(up, H([i \in MatsAt(l) |-> <<"leaf", i>>]))

CapEntry(j) ==   \* entry j of the commitment handed to the verifier
    LET honest == IF j = index \div (2 ^ (Top - cap)) THEN HonestNode(cap) ELSE <<"cap", j>>
    IN IF fault.kind = "cap" /\ fault.entry = j THEN <<"cap'", j>> ELSE honest

Init ==
    /\ logh \in UNION { [1..n -> 0..MaxLog] : n \in 1..MaxMats }
    /\ index = 0 /\ cap = 0 /\ fault = NoFault /\ level = 0 /\ cur = <<>> /\ phase = "pick"

Pick ==
    /\ phase = "pick"
    /\ index' \in 0 .. (2 ^ Top - 1)
    /\ cap' \in 0 .. (IF Top < MaxCap THEN Top ELSE MaxCap)
    /\ \E f \in {NoFault}
            \cup { [NoFault EXCEPT !.kind = "leaf", !.mat = i] : i \in 1..Len(logh) }
            \cup { [NoFault EXCEPT !.kind = "sibling", !.lvl = l] : l \in 1..Top }
            \cup { [NoFault EXCEPT !.kind = "index_bit", !.bit = b] : b \in 0..(Top - 1) }
            \cup { [NoFault EXCEPT !.kind = "cap", !.entry = e] : e \in 0..1 } :
          fault' = f
    /\ phase' = "leaf"
    /\ UNCHANGED <<logh, level, cur>>

HashLeaves ==
    /\ phase = "leaf"
    /\ cur' = LeafHash(Top) /\ level' = Top /\ phase' = "walk"
    /\ UNCHANGED <<logh, index, cap, fault>>

\* one level up: compress with the sibling, then inject the matrices of the new height
Step ==
    /\ phase = "walk" /\ level > cap
    /\ LET l == level - 1
           up == IF Bit(UsedIndex, Top - level) = 1 THEN C(Sib(level), cur) ELSE C(cur, Sib(level))
       IN /\ cur' = IF MatsAt(l) = {} THEN up ELSE C(up, LeafHash(l))
          /\ level' = l
    /\ UNCHANGED <<logh, index, cap, fault, phase>>

Finish ==
    /\ phase = "walk" /\ level = cap
    /\ phase' = "done"
    /\ UNCHANGED <<logh, index, cap, fault, level, cur>>

Next == Pick \/ HashLeaves \/ Step \/ Finish
Spec == Init /\ [][Next]_vars

\* selected cap entry and verdict
Selected == UsedIndex \div (2 ^ (Top - cap))
\* note: matrices shorter than the cap layer are never reached: their rows are not bound by the opening
Accept == cur = CapEntry(Selected)

\* every opened value of a matrix taller than the cap layer enters the root
RECURSIVE Mentions(_, _)
Mentions(t, x) == IF t = x THEN TRUE
                  ELSE IF t[1] = "C" THEN Mentions(t[2], x) \/ Mentions(t[3], x)
                  ELSE IF t[1] = "H" THEN \E i \in DOMAIN t[2] : t[2][i] = x
                  ELSE FALSE
EveryOpenedValueHashed ==
    phase = "done" => \A i \in 1..Len(logh) : logh[i] >= cap => Mentions(cur, Leaf(i))

\* honest data is accepted; a fault on data the opening binds is rejected
Bound(f) == \/ f.kind = "none"
            \/ (f.kind = "leaf" /\ logh[f.mat] >= cap)
            \/ (f.kind = "sibling" /\ f.lvl > cap)
            \/ (f.kind = "index_bit")
            \/ (f.kind = "cap" /\ f.entry = index \div (2 ^ (Top - cap)))
VerdictAsExpected ==
    phase = "done" => (Accept <=> (fault.kind = "none" \/ ~Bound(fault)))
=============================================================================
