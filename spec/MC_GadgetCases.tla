---- MODULE MC_GadgetCases ----
EXTENDS GadgetCases
FQ == {"bb_d4", "gl_d2"}
FT == {"bb_d4", "kb_d4", "gl_d2", "kb_d4_hiding", "kb_d5"}
ExpQ == 1..20 \cup {31, 32, 33, 255, 256, 65537}
ExpT == 1..64 \cup {127, 128, 129, 255, 256, 257, 65535, 65536, 65537, 1048577}
====
