------------------------------ MODULE Decompose ------------------------------
(***************************************************************************)
(* What an accepted proof fixes about an in-circuit decomposition          *)
(* (circuit_builder.rs decompose_to_bits / reconstruct_index_from_bits,    *)
(* challenger sample_bits, check_pow_witness, decompose_ext_to_base_coeffs) *)
(*                                                                         *)
(* The bits / coefficients are hint outputs: the prover chooses them.  The  *)
(* circuit constrains  (1) each bit boolean (BoolCheck row; `BoolEnforced`  *)
(* says whether the row really ties the checked cell to the bus value),     *)
(* (2) the recomposition identity over the FIELD: sum b_i 2^i = x mod P,    *)
(* and, for extension elements, sum c_i basis_i = x with c_i in the         *)
(* extension field unless `CoeffsBaseEnforced`.                             *)
(* Adversary: any hint output satisfying the constraints.                   *)
(***************************************************************************)
EXTENDS Integers, Sequences, FiniteSets, TLC

CONSTANTS P,             \* modulus of the model field (5, 7)
          NBits,         \* number of bits of the decomposition
          BoolEnforced,  \* the bool check binds the value on the bus
          Unchecked,     \* set of bit positions (1-based) that get NO bool check at all ({} in the code): the check
                         \* is emitted per bit in reconstruct_index_from_bits, so it can be missing for a single bit
          RangeChecked   \* an extra constraint keeps sum b_i 2^i below P (not in the code)

VARIABLES x, bits, phase
vars == <<x, bits, phase>>

Pow2(i) == 2 ^ i
Val(b) == LET RECURSIVE S(_) S(i) == IF i > NBits THEN 0 ELSE b[i] * Pow2(i - 1) + S(i + 1) IN S(1)
BitDomain(i) == IF BoolEnforced /\ i \notin Unchecked THEN {0, 1} ELSE 0 .. P - 1
BitVectors == {b \in [1..NBits -> 0 .. P - 1] : \A i \in 1..NBits : b[i] \in BitDomain(i)}
Canonical(v) == [i \in 1..NBits |-> (v \div Pow2(i - 1)) % 2]

Init == x \in 0 .. P - 1 /\ bits = <<>> /\ phase = "hint"

\* the prover's hint: any vector the circuit's constraints accept
Hint ==
    /\ phase = "hint"
    /\ \E b \in BitVectors :
          /\ Val(b) % P = x
          /\ RangeChecked => Val(b) < P
          /\ bits' = b
    /\ phase' = "done"
    /\ UNCHANGED x

Next == Hint
Spec == Init /\ [][Next]_vars

\* C12: the only accepted decomposition is the canonical one
DecompositionCanonical == phase = "done" => bits = Canonical(x)
\* when can a non-canonical vector exist at all
Representable == Pow2(NBits) > P
=============================================================================
