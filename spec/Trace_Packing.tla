---------------------------- MODULE Trace_Packing ----------------------------
(***************************************************************************)
(* Trace validation for C14: the order in which the REAL packing code      *)
(* (StarkVerifierInputsBuilder / BatchStarkVerifierInputsBuilder ::        *)
(* pack_values) lays out the element kinds of a statement whose every      *)
(* element was replaced by a distinct marker, run-length encoded by        *)
(* `p3r stark` (marker mode), must be a word of the order Packing.tla      *)
(* defines: a program of items, some optional, with loops over instances,  *)
(* queries, input batches and fold phases.  Each event (one run of a kind) *)
(* is one step of the automaton; optional items are skipped silently.      *)
(* Events: {"ev":"begin","vec":"pub"|"priv","zk":..,"prep":..,"lookups":..,*)
(*          "pubvals":..,"roots":2^cap height,"digest":digest width}       *)
(*          {"ev":"run","kind":k,"n":count}  {"ev":"end"}                  *)
(* A commitment of a full-height tree is a Merkle cap of `roots` digests:  *)
(* its run is exactly roots * digest words (MerkleCapTargets::new /        *)
(* get_values); the FRI commit-phase caps shrink with the folded trees, so *)
(* their run is a positive multiple of the digest width.                   *)
(***************************************************************************)
EXTENDS Integers, Sequences, FiniteSets, TLC, Json, IOUtils, PackingOrder

Rec == ndJsonDeserialize(IOEnv.TRACE)
VARIABLES l, vec, feat, pos
tvars == <<l, vec, feat, pos>>
FullCaps == {"trace_commitment_word", "permutation_commitment_word", "quotient_commitment_word", "random_commitment_word",
             "common_preprocessed_commitment_word"}
RunLenOk(f, k, n) ==
    CASE k \in FullCaps -> n = f.roots * f.digest
      [] k = "fri_commit_phase_word" -> n > 0 /\ n % f.digest = 0
      [] OTHER -> n > 0

\* an item is needed "always", "never", or "maybe" (per-instance options), given the features of the configuration
It(k, need) == [k |-> k, need |-> need]
Need(f, k) ==
    CASE k \in {"random_opening", "random_commitment_word", "fri_random_opened_value", "fri_query_salt"} -> IF f.zk THEN "always" ELSE "never"
      [] k \in {"preprocessed_local_opening", "preprocessed_next_opening"} -> IF f.prep THEN "maybe" ELSE "never"
      [] k = "common_preprocessed_commitment_word" -> IF f.prep THEN "always" ELSE "never"
      [] k \in {"permutation_local_opening", "permutation_next_opening"} -> IF f.lookups THEN "maybe" ELSE "never"
      [] k \in {"permutation_commitment_word", "lookup_terminal"} -> IF f.lookups THEN "always" ELSE "never"
      [] k = "public_value" -> IF f.pubvals THEN "always" ELSE "never"
      [] k = "trace_next_opening" -> "maybe"
      [] OTHER -> "always"
Items(f, ks) == [i \in 1..Len(ks) |-> It(ks[i], Need(f, ks[i]))]

PubProg(f) == Items(f, <<"public_value">> \o CommitOrder \o FriPubOrder \o PubTailOrder)
PubLoops == {}
\* private: instance block (looping), the hiding random values, then per query: (opened values, salt)+ (sibling values, salt)+
PrivProg(f) == Items(f, InstOrder \o <<"fri_random_opened_value">> \o QueryOrder)
NI == Len(InstOrder)
PrivLoops == {<<NI, 1>>,                       \* next instance
              <<NI + 3, NI + 2>>,              \* next input batch
              <<NI + 5, NI + 4>>,              \* next fold phase
              <<NI + 5, NI + 2>>}              \* next query

Prog == IF vec = "pub" THEN PubProg(feat) ELSE PrivProg(feat)
Loops == IF vec = "pub" THEN PubLoops ELSE PrivLoops
End == Len(Prog) + 1
Succ(i) == {i + 1} \cup {a[2] : a \in {b \in Loops : b[1] = i}}
Skippable(j) == j < End /\ j >= 1 /\ Prog[j].need \in {"maybe", "never"}
\* positions the automaton can be at next after item i, skipping items that are not needed
StepSkip(S) == S \cup UNION {Succ(j) : j \in {x \in S : Skippable(x)}}
\* at most six consecutive items can be skipped (random, permutation x2, hiding values, ... ) before a needed one
Reach(i) ==
    LET s0 == Succ(i)
        s1 == StepSkip(s0)
        s2 == StepSkip(s1)
        s3 == StepSkip(s2)
        s4 == StepSkip(s3)
        s5 == StepSkip(s4)
        s6 == StepSkip(s5)
    IN s6

TraceInit == l = 1 /\ vec = "none" /\ feat = [zk |-> FALSE, prep |-> FALSE, lookups |-> FALSE, pubvals |-> FALSE, roots |-> 1, digest |-> 8] /\ pos = 0
IsEvent(e) == l <= Len(Rec) /\ Rec[l].ev = e /\ l' = l + 1

Begin == /\ IsEvent("begin") /\ vec = "none"
         /\ vec' = Rec[l].vec
         /\ feat' = [zk |-> Rec[l].zk, prep |-> Rec[l].prep, lookups |-> Rec[l].lookups, pubvals |-> Rec[l].pubvals,
                    roots |-> Rec[l].roots, digest |-> Rec[l].digest]
         /\ pos' = 0
Run == /\ IsEvent("run") /\ vec # "none"
       /\ \E j \in Reach(pos) : j < End /\ Prog[j].k = Rec[l].kind /\ Prog[j].need # "never" /\ pos' = j
       /\ RunLenOk(feat, Rec[l].kind, Rec[l].n)
       /\ UNCHANGED <<vec, feat>>
Finish == /\ IsEvent("end") /\ vec # "none"
          /\ End \in Reach(pos)
          /\ vec' = "none" /\ pos' = 0 /\ UNCHANGED feat
TraceNext == Begin \/ Run \/ Finish
TraceSpec == TraceInit /\ [][TraceNext]_tvars
\* several automaton positions may match one event: acceptance = some behaviour consumes the whole trace
TraceAccepted ==
    LET d == TLCGet("stats").diameter IN
    IF d - 1 = Len(Rec) THEN TRUE
    ELSE Print(<<"TRACE REJECTED after", d - 1, "of", Len(Rec), "events; first unmatched:", Rec[d]>>, FALSE)
=============================================================================
