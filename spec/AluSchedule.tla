----------------------------- MODULE AluSchedule -----------------------------
(***************************************************************************)
(* The lane schedule of the ALU table and the two walks over it            *)
(* (circuit-prover/src/air/alu_air.rs):                                    *)
(*                                                                         *)
(*   compute_schedule                    one action per block of the code: *)
(*       Start       leading separator + fill_row                          *)
(*       Boundary    between two chains: fill_row, separator, fill_row     *)
(*       Step        one chain entry (greedy packed arity), fill_row       *)
(*       TailFill    fill_row, remaining non-chain ops, fill_row           *)
(*   trace_to_matrix                     Walk: one action per entry; the   *)
(*       generator's running accumulator prev_lane0_out                    *)
(*   build_scheduled_preprocessed_trace  operators SchedB / SchedOuts: the *)
(*       WitnessChecks interactions of the scheduled rows                  *)
(*                                                                         *)
(* An op list is a sequence of records [h, b]: h = HornerAcc or not, b the *)
(* class of the witness index of the step's alpha.  privb is the set of    *)
(* classes that are private inputs whose FIRST use is as the alpha of a    *)
(* Horner step (circuit.rs: b_is_private_creator - that step creates the   *)
(* slot on the bus with multiplicity = number of later reads; every other  *)
(* step reads it with multiplicity -1).                                    *)
(*                                                                         *)
(* What the AIR reads as the accumulator of a Horner entry in row r is the *)
(* lane-0 `out` cell of row r-1 (AirAcc).  The properties say that the     *)
(* schedule puts every op exactly once, chains on lane 0 in consecutive    *)
(* rows behind a lane-0 separator, that the generator's accumulator is the *)
(* AIR's accumulator, and that the scheduled rows put the same             *)
(* multiplicities on the bus as the unscheduled ops.                       *)
(*                                                                         *)
(* ResetOn: "lane0" (code) | "any" (a filler separator on another lane     *)
(* also resets the generator's accumulator - deviation).                   *)
(* BMult: "times_k" (code: multiplicity of the first step times k) |       *)
(* "sum" (sum of the multiplicities of the packed steps).                  *)
(***************************************************************************)
EXTENDS Integers, Sequences, FiniteSets, TLC, Json

CONSTANTS MaxOps, LaneSet, KSet, ResetOn, BMult, PrivClasses

VARIABLES ops, lanes, packK, privb, pc, sched, nc, ci, ii, pos, prevOut, genAcc
vars == <<ops, lanes, packK, privb, pc, sched, nc, ci, ii, pos, prevOut, genAcc>>

OpRec == [h : BOOLEAN, b : 0..1]
Min(a, b) == IF a < b THEN a ELSE b

\* ------------------------------------------------------------------ derived from the op list
HornerIdx == { j \in 1..Len(ops) : ops[j].h }
\* non-chain ops in program order
NonChain == LET F[j \in 0..Len(ops)] == IF j = 0 THEN <<>> ELSE IF ops[j].h THEN F[j - 1] ELSE Append(F[j - 1], j) IN F[Len(ops)]
\* chains: maximal runs of consecutive Horner ops, as <<first, last>> pairs in program order
ChainStartAt(j) == ops[j].h /\ (j = 1 \/ ~ops[j - 1].h)
ChainEnd(j) == LET E[x \in j..Len(ops)] == IF x = Len(ops) \/ ~ops[x + 1].h THEN x ELSE E[x + 1] IN E[j]
Chains == LET F[j \in 0..Len(ops)] == IF j = 0 THEN <<>> ELSE IF ChainStartAt(j) THEN Append(F[j - 1], <<j, ChainEnd(j)>>) ELSE F[j - 1] IN F[Len(ops)]

Sep == [t |-> "sep", i |-> 0, k |-> 0]
OpE(j) == [t |-> "op", i |-> j, k |-> 1]
PkE(j, k) == [t |-> "pk", i |-> j, k |-> k]

\* fill_row: complete the current row with non-chain ops, then with separators
Need(s) == (lanes - (Len(s) % lanes)) % lanes
FillCnt(s, n) == Min(Need(s), Len(NonChain) - n)
Filled(s, n) == s \o [x \in 1..FillCnt(s, n) |-> OpE(NonChain[n + x])] \o [x \in 1..(Need(s) - FillCnt(s, n)) |-> Sep]

\* greedy arity of the entry starting at op j of a chain ending at e: the largest k <= packK such that the k steps
\* share the alpha index (the code also tests that the indices are contiguous, which a maximal run always is)
ShareB(j, k) == \A t \in 1..(k - 1) : ops[j + t].b = ops[j].b
BestK(j, e) == LET cand == { k \in 2..Min(e - j + 1, packK) : ShareB(j, k) } IN
               IF cand = {} THEN 1 ELSE CHOOSE k \in cand : \A k2 \in cand : k2 <= k

\* ------------------------------------------------------------------ the machine
Init == /\ ops \in UNION { [1..n -> OpRec] : n \in 1..MaxOps }
        /\ \A j \in 1..Len(ops) : ~ops[j].h => ops[j].b = 0
        /\ lanes \in LaneSet /\ packK \in KSet
        /\ privb \in SUBSET PrivClasses
        /\ \A x \in privb : \E j \in 1..Len(ops) : ops[j].h /\ ops[j].b = x
        /\ pc = "start" /\ sched = <<>> /\ nc = 0 /\ ci = 1 /\ ii = 0
        /\ pos = 1 /\ prevOut = "zero" /\ genAcc = <<>>

\* compute_schedule returns None when the table has no Horner step: op j sits at row (j-1) / lanes, lane (j-1) % lanes
Start == /\ pc = "start"
         /\ IF HornerIdx = {}
            THEN /\ pc' = "done" /\ UNCHANGED <<sched, nc, ii>>
            ELSE /\ sched' = Filled(<<Sep>>, 0)
                 /\ nc' = FillCnt(<<Sep>>, 0)
                 /\ ii' = Chains[1][1]
                 /\ pc' = "step"
         /\ UNCHANGED <<ops, lanes, packK, privb, ci, pos, prevOut, genAcc>>

Boundary == /\ pc = "boundary"
            /\ LET s1 == Filled(sched, nc)
                   n1 == nc + FillCnt(sched, nc)
                   s2 == Append(s1, Sep)
               IN /\ sched' = Filled(s2, n1)
                  /\ nc' = n1 + FillCnt(s2, n1)
            /\ ii' = Chains[ci][1]
            /\ pc' = "step"
            /\ UNCHANGED <<ops, lanes, packK, privb, ci, pos, prevOut, genAcc>>

Step == /\ pc = "step"
        /\ LET e == Chains[ci][2]
               k == BestK(ii, e)
               s1 == Append(sched, IF k >= 2 THEN PkE(ii, k) ELSE OpE(ii))
           IN /\ sched' = Filled(s1, nc)
              /\ nc' = nc + FillCnt(s1, nc)
              /\ ii' = ii + k
              /\ IF ii + k <= e THEN pc' = "step" /\ ci' = ci
                 ELSE IF ci < Len(Chains) THEN pc' = "boundary" /\ ci' = ci + 1
                 ELSE pc' = "tail" /\ ci' = ci
        /\ UNCHANGED <<ops, lanes, packK, privb, pos, prevOut, genAcc>>

TailFill == /\ pc = "tail"
        /\ LET s1 == Filled(sched, nc)
               n1 == nc + FillCnt(sched, nc)
               s2 == s1 \o [x \in 1..(Len(NonChain) - n1) |-> OpE(NonChain[n1 + x])]
           IN /\ sched' = Filled(s2, Len(NonChain))
              /\ nc' = Len(NonChain)
        /\ pc' = "walk"
        /\ UNCHANGED <<ops, lanes, packK, privb, ci, ii, pos, prevOut, genAcc>>

\* trace_to_matrix: the generator walks the schedule and keeps the lane-0 `out` it wrote last
Lane(p) == (p - 1) % lanes
Row(p) == (p - 1) \div lanes
OutTok(j) == "out" \o ToString(j)
Walk == /\ pc = "walk"
        /\ IF pos > Len(sched) THEN pc' = "done" /\ UNCHANGED <<pos, prevOut, genAcc>>
           ELSE LET e == sched[pos] IN
                /\ pos' = pos + 1 /\ pc' = pc
                /\ CASE e.t = "op" -> /\ prevOut' = IF Lane(pos) = 0 THEN OutTok(e.i) ELSE prevOut
                                      /\ genAcc' = genAcc
                     [] e.t = "pk" -> IF Lane(pos) = 0
                                      THEN /\ genAcc' = Append(genAcc, <<pos, prevOut>>)
                                           /\ prevOut' = OutTok(e.i + e.k - 1)
                                      ELSE UNCHANGED <<prevOut, genAcc>>
                     [] e.t = "sep" -> /\ prevOut' = IF Lane(pos) = 0 \/ ResetOn = "any" THEN "zero" ELSE prevOut
                                       /\ genAcc' = genAcc
        /\ UNCHANGED <<ops, lanes, packK, privb, sched, nc, ci, ii>>

Next == Start \/ Boundary \/ Step \/ TailFill \/ Walk
Spec == Init /\ [][Next]_vars

\* ------------------------------------------------------------------ properties of a finished schedule
Scheduled == pc = "done" /\ HornerIdx # {}
Covers(e) == IF e.t = "sep" THEN {} ELSE e.i..(e.i + e.k - 1)
Positions == 1..Len(sched)

EveryOpOnce == Scheduled =>
    /\ \A j \in 1..Len(ops) : Cardinality({ p \in Positions : j \in Covers(sched[p]) }) = 1
    /\ \A p \in Positions : Covers(sched[p]) \subseteq 1..Len(ops)
RowsComplete == Scheduled => Len(sched) % lanes = 0
HornerOnLane0 == Scheduled => \A p \in Positions : (sched[p].t # "sep" /\ ops[sched[p].i].h) => Lane(p) = 0
PackedWellFormed == Scheduled => \A p \in Positions : sched[p].t = "pk" =>
    /\ sched[p].k \in 2..packK
    /\ \A j \in Covers(sched[p]) : ops[j].h /\ ops[j].b = ops[sched[p].i].b
\* the accumulator the AIR reads for the entry at lane 0 of row r: the lane-0 `out` cell of row r-1 (row 0 wraps to the
\* last row of the padded trace; the leading separator makes that irrelevant)
OutCell(e) == IF e.t = "sep" THEN "zero" ELSE OutTok(e.i + e.k - 1)
AirAcc(p) == OutCell(sched[p - lanes])
FirstRowIsSeparator == Scheduled => sched[1].t = "sep"
\* the accumulator the op list means: 0 at the start of a chain (the schedule has no other information: a step whose
\* accumulator operand is anything else is the recorded finding horner-acc-not-prev-row), else the previous step's out
ChainAcc(j) == IF ChainStartAt(j) THEN "zero" ELSE OutTok(j - 1)
AirAccIsChainAcc == Scheduled => \A p \in Positions :
    (sched[p].t # "sep" /\ ops[sched[p].i].h) => p > lanes /\ AirAcc(p) = ChainAcc(sched[p].i)
\* a non-Horner op never sits at lane 0 in front of a Horner entry (the inter-row constraint would misread its out)
GeneratorAccIsAirAcc == Scheduled => \A x \in 1..Len(genAcc) : genAcc[x][2] = AirAcc(genAcc[x][1])

\* WitnessChecks multiplicities of the alpha slots.  Unscheduled: per class x the creator (if the class is a private
\* input created here) sends with multiplicity (#users - 1) and every other user receives (-1).
Users(x) == { j \in HornerIdx : ops[j].b = x }
FirstUser(x) == CHOOSE j \in Users(x) : \A j2 \in Users(x) : j <= j2
MultB(j) == LET x == ops[j].b IN IF x \in privb /\ j = FirstUser(x) THEN Cardinality(Users(x)) - 1 ELSE -1
SumMult(j, k) == LET F[t \in 0..k] == IF t = 0 THEN 0 ELSE F[t - 1] + MultB(j + t - 1) IN F[k]
EntryB(e) == IF e.t = "pk" THEN (IF BMult = "times_k" THEN MultB(e.i) * e.k ELSE SumMult(e.i, e.k)) ELSE MultB(e.i)
SchedBSum(x) == LET P == { p \in Positions : sched[p].t # "sep" /\ ops[sched[p].i].h /\ ops[sched[p].i].b = x }
                    F[S \in SUBSET P] == IF S = {} THEN 0 ELSE LET p == CHOOSE q \in S : TRUE IN EntryB(sched[p]) + F[S \ {p}]
                IN F[P]
OrigBSum(x) == IF Users(x) = {} THEN 0 ELSE IF x \in privb THEN 0 ELSE 0 - Cardinality(Users(x))
AlphaBusPreserved == Scheduled => \A x \in 0..1 : SchedBSum(x) = OrigBSum(x)

\* ------------------------------------------------------------------ replay records
Enc(e) == [t |-> e.t, i |-> e.i - 1, k |-> e.k]
Case == [spec |-> "AluSchedule", lanes |-> lanes, k |-> packK,
         ops |-> [j \in 1..Len(ops) |-> [h |-> ops[j].h, b |-> ops[j].b]],
         privb |-> <<0 \in privb, 1 \in privb>>,
         scheduled |-> HornerIdx # {},
         sched |-> [p \in 1..Len(sched) |-> Enc(sched[p])],
         alpha_balanced |-> \A x \in 0..1 : SchedBSum(x) = OrigBSum(x)]
Emit == pc = "done" => PrintT(<<"REPLAY", ToJson(Case)>>)
=============================================================================
