------------------------------- MODULE Runner -------------------------------
(***************************************************************************)
(* The witness discipline of CircuitRunner (circuit/src/tables/runner.rs)   *)
(* and of the execution context of non-primitive executors                  *)
(* (circuit/src/ops/context.rs): the witness table is a partial function    *)
(* from slots to values that only grows.                                    *)
(*                                                                          *)
(*   Get(s, hit, v)   get_witness / witness_value: hit iff the slot is set, *)
(*                    and then the value returned is the value stored       *)
(*   Set(s, v, res)   set_witness: "new" iff the slot was unset (it then    *)
(*                    holds v), "same" iff it held v, "conflict" iff it     *)
(*                    held another value, "oob" iff s is no slot; conflict  *)
(*                    and oob are errors: the run fails                     *)
(*   Op(i)            execute_all takes the ops in order, none skipped, and *)
(*                    stops at the first error                              *)
(*   Ext(s, v)        a hint / non-primitive executor wrote slot s directly *)
(*                    (observed after the op): only unset slots change      *)
(*   Inputs(S, ok)    the declared inputs of a hint / non-primitive op and  *)
(*                    its outcome: an op that reads an unset input fails    *)
(*   Run              run() starts; errors of the input-setting calls were  *)
(*                    returned to the caller there                          *)
(*   End(res)         run(): "ok" only if nothing failed, every op was      *)
(*                    executed and EVERY slot is set (C19: no success from  *)
(*                    unset or conflicting values)                          *)
(*                                                                          *)
(* Values are tokens; the specification needs equality only.                *)
(* This module is the design; Trace_Runner.tla drives it with the events    *)
(* recorded from the real runner, MC_Runner explores it over small tables.  *)
(***************************************************************************)
EXTENDS Integers, Sequences, FiniteSets, TLC

VARIABLES n,        \* number of witness slots
          nops,     \* number of ops of the circuit
          w,        \* [0..n-1 -> token or "U"]
          pc,       \* index of the op being executed (-1 before the first)
          failed,   \* an error has been raised
          ended     \* run() has returned
rvars == <<n, nops, w, pc, failed, ended>>

U == "U"
Slots == 0..(n - 1)

RNew(n0, nops0) ==
    /\ n' = n0 /\ nops' = nops0
    /\ w' = [s \in 0..(n0 - 1) |-> U]
    /\ pc' = -1 /\ failed' = FALSE /\ ended' = FALSE

RGet(s, hit, v) ==
    /\ ~ended
    /\ hit <=> (s \in Slots /\ w[s] # U)
    /\ hit => v = w[s]
    /\ UNCHANGED rvars

RSet(s, v, res) ==
    /\ ~ended /\ v # U
    /\ CASE res = "new"      -> s \in Slots /\ w[s] = U /\ w' = [w EXCEPT ![s] = v] /\ failed' = failed
         [] res = "same"     -> s \in Slots /\ w[s] = v /\ UNCHANGED <<w, failed>>
         [] res = "conflict" -> s \in Slots /\ w[s] \notin {U, v} /\ w' = w /\ failed' = TRUE
         [] res = "oob"      -> s \notin Slots /\ w' = w /\ failed' = TRUE
         [] OTHER            -> FALSE
    /\ UNCHANGED <<n, nops, pc, ended>>

ROp(i) ==
    /\ ~ended /\ ~failed
    /\ i = pc + 1 /\ i < nops
    /\ pc' = i
    /\ UNCHANGED <<n, nops, w, failed, ended>>

RExt(s, v) ==
    /\ ~ended /\ v # U
    /\ s \in Slots /\ w[s] = U
    /\ w' = [w EXCEPT ![s] = v]
    /\ UNCHANGED <<n, nops, pc, failed, ended>>

\* the declared inputs of a hint / non-primitive op (set of slots) and whether the op succeeded
RInputs(S, ok) ==
    /\ ~ended
    /\ ok => \A s \in S : s \in Slots /\ w[s] # U
    /\ failed' = (failed \/ ~ok)
    /\ UNCHANGED <<n, nops, w, pc, ended>>

\* run() starts: an error reported earlier by set_public_inputs / set_private_inputs was returned to the caller there
RRun ==
    /\ ~ended
    /\ failed' = FALSE
    /\ UNCHANGED <<n, nops, w, pc, ended>>

\* an error raised by something other than a witness access (unset public input at its op, division by zero,
\* missing private data, ...)
RFail ==
    /\ ~ended
    /\ failed' = TRUE
    /\ UNCHANGED <<n, nops, w, pc, ended>>

REnd(res) ==
    /\ ~ended
    /\ res = "ok" => /\ ~failed
                     /\ pc = nops - 1
                     /\ \A s \in Slots : w[s] # U
    /\ failed => res = "err"
    /\ ended' = TRUE
    /\ UNCHANGED <<n, nops, w, pc, failed>>

\* ---------------------------------------------------------------- properties of the design
TypeOK == /\ failed \in BOOLEAN /\ ended \in BOOLEAN
          /\ pc \in -1..(nops - 1)
Monotone == [][\A s \in Slots : w[s] # U => (n' = n => w'[s] = w[s])]_rvars
=============================================================================
