SPECIFICATION Spec
CONSTANTS
  MaxLogH = 4
  Blowups <- B12
  Arities <- A13
  FinalLens <- F02
  MaxBatches = 2
  MaxMats = 2
  BatchIndexShifted = TRUE
  UnconsumedPolicy = "zero"
  Cfgs <- CfgT
  Queries <- Q12
  PowBits <- Pow02
  PointModes <- PmT
  Faults <- FaultsAll
  Caps <- Cap0123
INVARIANTS
  RollInOnceAtRightHeight
  BitsAccounted
  AritiesBounded
  SameIndexBits
  CapsAccounted
  ScheduleIsFunctional
  WithheldHeightStillChecked
  Emit
CHECK_DEADLOCK FALSE
