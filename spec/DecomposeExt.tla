---------------------------- MODULE DecomposeExt ----------------------------
(***************************************************************************)
(* C12 in a circuit over an extension field: `decompose_to_bits::<BF>` on  *)
(* a target of the degree-D extension.  A bit is an extension element (D   *)
(* coefficients); the BoolCheck row of the ALU AIR must make it a BASE     *)
(* field bit: lowest coefficient boolean AND every higher coefficient zero *)
(* (circuit-prover/src/air/alu_air.rs, BOOL_CHECK block: one constraint    *)
(* per higher coefficient).  The recomposition identity sum b_i 2^i = x is *)
(* an equation between extension elements, i.e. one equation per           *)
(* coefficient.  Adversary: any hint output the constraints accept.        *)
(*                                                                         *)
(* Upper = "each"  the code: every higher coefficient pinned to zero       *)
(*         "sum"   one aggregated constraint: the higher coefficients of a *)
(*                 bit sum to zero                                         *)
(*         "none"  only the lowest coefficient is checked                  *)
(***************************************************************************)
EXTENDS Integers, Sequences, FiniteSets, TLC

CONSTANTS P, D, NBits, Upper

VARIABLES x, bits, phase
vars == <<x, bits, phase>>

Elem == [1..D -> 0..(P - 1)]
Base(v) == [i \in 1..D |-> IF i = 1 THEN v ELSE 0]
IsBase(e) == \A i \in 2..D : e[i] = 0
SumUpper(e) == LET RECURSIVE S(_) S(i) == IF i > D THEN 0 ELSE e[i] + S(i + 1) IN S(2) % P
BoolCheckAccepts(e) ==
    /\ e[1] \in {0, 1}
    /\ CASE Upper = "each" -> IsBase(e)
         [] Upper = "sum"  -> SumUpper(e) = 0
         [] OTHER -> TRUE
\* coefficient-wise value of sum b_i 2^(i-1)
Val(b) == [c \in 1..D |-> (LET RECURSIVE S(_) S(i) == IF i > NBits THEN 0 ELSE b[i][c] * (2 ^ (i - 1)) + S(i + 1) IN S(1)) % P]

Init == x \in {Base(v) : v \in 0..(P - 1)} /\ bits = <<>> /\ phase = "hint"
Hint == /\ phase = "hint"
        /\ \E b \in [1..NBits -> Elem] :
              /\ \A i \in 1..NBits : BoolCheckAccepts(b[i])
              /\ Val(b) = x
              /\ bits' = b
        /\ phase' = "done" /\ UNCHANGED x
Spec == Init /\ [][Hint]_vars

\* C12: every accepted bit is a base-field bit
BitsAreBaseBits == phase = "done" => \A i \in 1..NBits : IsBase(bits[i]) /\ bits[i][1] \in {0, 1}
=============================================================================
