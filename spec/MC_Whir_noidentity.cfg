SPECIFICATION Spec
CONSTANTS
  DropIdentity = TRUE
  Configs <- CfgReal
INVARIANTS
  FaultRefused
CHECK_DEADLOCK FALSE
