SPECIFICATION Spec
CONSTANTS
  P = 3
  NPUB = 1
  NPRIV = 0
  PreConsts <- Pre2
  MaxCalls = 5
  MaxConn = 0
  Kinds = {"horner"}
  FixD1 = TRUE
  FixD2 = TRUE
  FixFuse = TRUE
  FixAcc = TRUE
  NoFold = FALSE
INVARIANTS
  TypeOK
  EmitReplay
  RunnerSelfConsistent
  BuilderSound
  FuseOrderIndependent
CONSTRAINT
  LongHornerChain
CHECK_DEADLOCK FALSE
