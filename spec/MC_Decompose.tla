---------------------------- MODULE MC_Decompose ----------------------------
EXTENDS Decompose, Json
ReplayRecord == [spec |-> "Decompose", p |-> P, nbits |-> NBits, bool |-> BoolEnforced, unchecked |-> Cardinality(Unchecked), range |-> RangeChecked,
                 x |-> x, bits |-> bits, canonical |-> (bits = Canonical(x)), wraps |-> (Val(bits) >= P)]
EmitReplay == phase = "done" => PrintT(<<"REPLAY", ToJson(ReplayRecord)>>)
=============================================================================
