SPECIFICATION Spec
CONSTANTS
  MaxLog = 5
  MaxMats = 3
  MaxCap = 3
INVARIANTS
  WholePathAtCapZero
  NativeInjectsAll
  Emit
CHECK_DEADLOCK FALSE
