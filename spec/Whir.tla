------------------------------- MODULE Whir -------------------------------
(***************************************************************************)
(* The WHIR polynomial-commitment verifier as a staged machine over one    *)
(* opening proof (recursion/src/pcs/whir/verifier.rs verify_whir_circuit,  *)
(* sumcheck.rs verify_sumcheck_rounds; native: p3-whir WhirVerifier).      *)
(* Not one of the listed properties by name; it is the second PCS of the   *)
(* recursion crate and uses the challenger (C05), the MMCS verifier (C08)  *)
(* and the arithmetic gadgets (C20) of the listed ones.                    *)
(*                                                                         *)
(* Script (a function of the configuration c):                             *)
(*   initial sumcheck: per folding variable  observe c0, c_inf; PoW;       *)
(*                     sample r                                            *)
(*   round i = 1..R:   observe the round commitment; per out-of-domain     *)
(*                     sample: sample a point, observe the answer; PoW;    *)
(*                     sample (transcript checkpoint); per query: sample   *)
(*                     index bits, open the PREVIOUS commitment at the     *)
(*                     index (MMCS), fold the leaf with the last sumcheck  *)
(*                     randomness; sample gamma; claim += sum gamma^j *    *)
(*                     (answers, folds); round sumcheck                    *)
(*   final:            observe the final polynomial; PoW; per final query: *)
(*                     sample index bits, open the last commitment, fold   *)
(*                     the leaf and compare with the final polynomial at   *)
(*                     the domain point; final sumcheck; final identity    *)
(*                     claim = W(r) * f(r)                                 *)
(*                                                                         *)
(* One element KIND of the proof may carry a fault; `tainted` says whether *)
(* the transcript has absorbed it.  A check refuses a fault it reads       *)
(* directly; every later check reads the challenges and therefore the      *)
(* whole transcript - except that a proof-of-work check and an index-      *)
(* dependent opening may pass by luck.  The claim of the running sumcheck  *)
(* is a VALUE carried from stage to stage (`claimBad`): a fault in a round *)
(* polynomial, an answer or a fold does not fail where it is read - it     *)
(* makes the final identity false.                                         *)
(*                                                                         *)
(* fs = FALSE: the challenges are replayed constants (the mock challenger   *)
(* of the repository's WHIR tests and of the driver): a fault then reaches *)
(* a check only through the values it reads and the carried claim - this   *)
(* is the mode in which the identity check is indispensable.               *)
(* Mmcs = FALSE is the "arithmetic only" mode of the repository's tests    *)
(* (WhirVerifierParams::unsafe_arithmetic_only_for_tests): commitments and *)
(* Merkle paths are then read by nobody (Inert).                           *)
(***************************************************************************)
EXTENDS Naturals, Sequences, FiniteSets, TLC

CONSTANTS DropIdentity,
          Configs   \* records [rounds, ood (per round), queries (per round), fqueries, fold, ffold, pow, mmcs, fs]

\* initial_ood_answer: allocated with the proof, consumed by the caller that forms the initial constraint and claim, not by
\* verify_whir_circuit (Inert at this level)
Kinds == {"initial_ood_answer", "initial_sumcheck_poly", "round_commitment_word", "ood_answer", "round_pow_witness", "query_leaf_value",
          "query_merkle_sibling", "round_sumcheck_poly", "final_poly_coeff", "final_pow_witness", "final_query_leaf_value",
          "final_query_merkle_sibling", "final_sumcheck_poly", "sumcheck_pow_witness", "initial_commitment_word"}
Stages == <<"pow", "round_opening", "final_opening", "final_fold", "identity">>

Obs(ks) == [op |-> "observe", kinds |-> ks]
Smp(n) == [op |-> "sample", name |-> n]
\* check: stage, kinds read directly, lucky (may pass although it sees the fault only through the challenges)
Chk(st, ks, lucky) == [op |-> "check", stage |-> st, kinds |-> ks, lucky |-> lucky]
\* a value folded into the running claim: kinds whose fault makes the claim wrong
Acc(ks) == [op |-> "accumulate", kinds |-> ks]
Opt(b, s) == IF b THEN s ELSE <<>>
Rep(n, s) == LET F[i \in 0..n] == IF i = 0 THEN <<>> ELSE F[i - 1] \o s IN F[n]

\* one sumcheck phase over n variables: per variable observe the round polynomial, grind, draw r
Sumcheck(c, kind, n) ==
    Rep(n, <<Obs({kind})>> \o Opt(c.pow, <<Chk("pow", {"sumcheck_pow_witness"}, TRUE)>>) \o <<Smp("r"), Acc({kind})>>)

RoundSteps(c, i) ==
    <<Obs({"round_commitment_word"})>>
    \o Rep(c.ood[i], <<Smp("ood_point"), Obs({"ood_answer"})>>)
    \o Opt(c.pow, <<Chk("pow", {"round_pow_witness"}, TRUE)>>)
    \o <<Smp("checkpoint")>>
    \o Rep(c.queries[i],
           <<Smp("index")>>
           \* the opening is against the PREVIOUS commitment: the initial one in round 1, the round commitment after
           \o Opt(c.mmcs, <<Chk("round_opening", {"query_leaf_value", "query_merkle_sibling",
                                                   IF i = 1 THEN "initial_commitment_word" ELSE "round_commitment_word"}, TRUE)>>))
    \o <<Smp("gamma"), Acc({"ood_answer", "query_leaf_value"})>>
    \o Sumcheck(c, "round_sumcheck_poly", c.fold)

FinalSteps(c) ==
    <<Obs({"final_poly_coeff"})>>
    \o Opt(c.pow, <<Chk("pow", {"final_pow_witness"}, TRUE)>>)
    \o Rep(c.fqueries,
           <<Smp("index")>>
           \o <<Chk("final_fold", {"final_query_leaf_value", "final_poly_coeff"}, FALSE)>>
           \o Opt(c.mmcs, <<Chk("final_opening", {"final_query_leaf_value", "final_query_merkle_sibling",
                                                   IF c.rounds = 0 THEN "initial_commitment_word" ELSE "round_commitment_word"}, TRUE)>>))
    \o Sumcheck(c, "final_sumcheck_poly", c.ffold)
    \o <<Chk("identity", {"final_poly_coeff"}, FALSE)>>

AllRounds(c) == LET F[i \in 0..c.rounds] == IF i = 0 THEN <<>> ELSE F[i - 1] \o RoundSteps(c, i) IN F[c.rounds]
FullSteps(c) == Sumcheck(c, "initial_sumcheck_poly", c.fold) \o AllRounds(c) \o FinalSteps(c)
\* DropIdentity: a deviation - the carried claim is never compared with W(r) f(r)
Steps(c) == IF DropIdentity THEN SelectSeq(FullSteps(c), LAMBDA st : ~(st.op = "check" /\ st.stage = "identity")) ELSE FullSteps(c)

Present(c, k) ==
    CASE k \in {"round_commitment_word", "round_pow_witness", "query_leaf_value", "query_merkle_sibling", "round_sumcheck_poly"} -> c.rounds > 0
      [] k = "ood_answer" -> \E i \in 1..c.rounds : c.ood[i] > 0
      [] k = "final_sumcheck_poly" -> c.ffold > 0
      [] k \in {"final_query_leaf_value", "final_query_merkle_sibling"} -> c.fqueries > 0
      [] OTHER -> TRUE
\* carried by the proof, read by nobody in this configuration
Inert(c, k) ==
    \/ k = "initial_ood_answer"
    \/ (k \in {"round_pow_witness", "final_pow_witness", "sumcheck_pow_witness"} /\ ~c.pow)
    \* a replayed transcript does not grind: the mock challenger's check_pow_witness accepts anything
    \/ (k \in {"round_pow_witness", "final_pow_witness", "sumcheck_pow_witness"} /\ ~c.fs)
    \/ (k \in {"query_merkle_sibling", "final_query_merkle_sibling", "round_commitment_word", "initial_commitment_word"} /\ ~c.mmcs)
    \* with a single round every opening is against the initial commitment: the round commitment is observed only ...
    \* (it IS read by the final opening, so it is not inert when mmcs is on)

VARIABLES cfg, fault, pc, observed, tainted, claimBad, refusedAt, direct
vars == <<cfg, fault, pc, observed, tainted, claimBad, refusedAt, direct>>

Init == /\ cfg \in Configs
        /\ fault \in {k \in Kinds : Present(cfg, k)} \cup {"none"}
        /\ pc = 1 /\ observed = {} /\ tainted = FALSE /\ claimBad = FALSE /\ refusedAt = "none" /\ direct = {}

Running == pc \in 1..Len(Steps(cfg)) /\ refusedAt = "none"
Step ==
    /\ Running
    /\ LET s == Steps(cfg)[pc] IN
       CASE s.op = "observe" ->
              /\ observed' = observed \cup s.kinds
              /\ tainted' = (tainted \/ fault \in s.kinds)
              /\ UNCHANGED <<refusedAt, direct, claimBad>>
         [] s.op = "sample" -> UNCHANGED <<observed, tainted, refusedAt, direct, claimBad>>
         [] s.op = "accumulate" ->
              /\ claimBad' = (claimBad \/ fault \in s.kinds \/ (cfg.fs /\ tainted))
              /\ direct' = direct \cup s.kinds
              /\ UNCHANGED <<observed, tainted, refusedAt>>
         [] OTHER ->
              LET reads == fault # "none" /\ fault \in s.kinds
                  \* the final identity compares the carried claim with W(r) f(r): it fails when the claim is wrong, when the
                  \* final polynomial is wrong, and (all challenges being functions of the transcript) when the transcript is
                  sees == reads \/ (cfg.fs /\ tainted) \/ (s.stage = "identity" /\ claimBad)
                  mayPass == s.lucky /\ (~reads \/ s.stage = "pow")
              IN /\ direct' = direct \cup s.kinds
                 /\ \/ sees /\ refusedAt' = s.stage /\ tainted' = tainted
                    \/ /\ (sees /\ mayPass) \/ ~sees
                       /\ refusedAt' = "none"
                       /\ tainted' = (tainted \/ (s.stage = "pow" /\ reads))
                 /\ UNCHANGED <<observed, claimBad>>
    /\ pc' = pc + 1
    /\ UNCHANGED <<cfg, fault>>
Next == Step
Spec == Init /\ [][Next]_vars

Accepted == pc > Len(Steps(cfg)) /\ refusedAt = "none"
Done == refusedAt # "none" \/ pc > Len(Steps(cfg))

\* a single fault on anything somebody reads is refused; the honest proof is accepted
FaultRefused == Accepted => (fault = "none" \/ Inert(cfg, fault))
HonestAccepted == (Done /\ fault = "none") => Accepted
\* every kind of the proof is read by a check or folded into the claim
EveryKindRead == Accepted => \A k \in Kinds : Present(cfg, k) => (k \in direct \/ Inert(cfg, k))
\* Fiat-Shamir order: what a challenge must bind has been observed when it is drawn
NeededBefore(c, name) ==
    CASE name = "ood_point" -> {"round_commitment_word"}
      [] name = "index" -> IF c.rounds > 0 THEN {"round_commitment_word"} ELSE {}
      [] name = "gamma" -> {"round_commitment_word"} \cup (IF \A i \in 1..c.rounds : c.ood[i] > 0 THEN {"ood_answer"} ELSE {})
      [] OTHER -> {}
ObservedBeforeUse ==
    \A i \in 1..Len(Steps(cfg)) : (i < pc /\ Steps(cfg)[i].op = "sample") =>
        LET before == UNION {Steps(cfg)[j].kinds : j \in {j \in 1..(i - 1) : Steps(cfg)[j].op = "observe"}}
        IN NeededBefore(cfg, Steps(cfg)[i].name) \subseteq before
\* the final polynomial is in the transcript before the final query indices are drawn; every sumcheck polynomial before its r
PolyBeforeChallenge ==
    \A i \in 1..Len(Steps(cfg)) : (i < pc /\ Steps(cfg)[i].op = "sample" /\ Steps(cfg)[i].name = "r") =>
        \E j \in 1..(i - 1) : Steps(cfg)[j].op = "observe" /\ \A m \in (j + 1)..(i - 1) : Steps(cfg)[m].op = "check"
=============================================================================
