SPECIFICATION Spec
CONSTANTS
  MaxLogH = 3
  Blowups <- B12
  Arities <- A12
  FinalLens <- F01
  MaxBatches = 2
  MaxMats = 2
  BatchIndexShifted = TRUE
  Cfgs <- CfgQ
  Queries <- Q1
  PowBits <- Pow0
  PointModes <- PmQ
  Faults <- FaultsAll
  Caps <- Cap03
INVARIANTS
  RollInOnceAtRightHeight
  BitsAccounted
  AritiesBounded
  SameIndexBits
  CapsAccounted
  Emit
CHECK_DEADLOCK FALSE
