SPECIFICATION Spec
CONSTANTS
  P = 7
  NBits = 3
  BoolEnforced = TRUE
  RangeChecked = FALSE
INVARIANTS
  EmitReplay
CHECK_DEADLOCK FALSE
