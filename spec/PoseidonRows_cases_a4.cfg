SPECIFICATION CaseSpec
CONSTANTS
  P = 7
  A = 4
  BoolOn = "bit2"
  Chunks = {0, 1, 2, 3}
  StartPinned = FALSE
INVARIANTS
  EmitCases
CHECK_DEADLOCK FALSE
