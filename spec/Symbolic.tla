------------------------------ MODULE Symbolic ------------------------------
(***************************************************************************)
(* SymbolicCompiler::compile_base (circuit/src/symbolic/compiler.rs): an    *)
(* iterative walk of a shared expression DAG with an explicit task stack,   *)
(* a value stack and a cache keyed by node identity; and the alpha-folding  *)
(* of an AIR's constraints (recursion/src/traits/air.rs                     *)
(* eval_folded_circuit).                                                    *)
(*                                                                         *)
(* Nodes are numbered; node i may only refer to smaller nodes, and a node   *)
(* referenced twice is ONE node (that is what the pointer-keyed cache is    *)
(* about).  Values are symbolic terms, so "equal" means equal for every     *)
(* assignment of the leaves.  One action per popped task.                   *)
(***************************************************************************)
EXTENDS Integers, Sequences, FiniteSets, TLC

CONSTANTS MaxNodes, LeafKinds

Leaf(k)    == [k |-> k, x |-> 0, y |-> 0]
Neg(x)     == [k |-> "neg", x |-> x, y |-> 0]
Bin(k, x, y) == [k |-> k, x |-> x, y |-> y]
IsLeaf(n) == n.k \in LeafKinds

VARIABLES dag, root, tasks, stack, cache, phase, emitted
vars == <<dag, root, tasks, stack, cache, phase, emitted>>

\* the denotation of node i as a term
RECURSIVE Den(_, _)
Den(g, i) == LET n == g[i] IN
    IF IsLeaf(n) THEN <<"leaf", n.k, i>>
    ELSE IF n.k = "neg" THEN <<"sub", <<"zero">>, Den(g, n.x)>>     \* BuildNeg emits 0 - x
    ELSE <<n.k, Den(g, n.x), Den(g, n.y)>>

\* every node but the last must be used by a later node (no dead nodes), the last is the root
Used(g) == \A i \in 1..(Len(g) - 1) : \E j \in (i + 1)..Len(g) : g[j].x = i \/ g[j].y = i

Init ==
    /\ dag = <<>> /\ root = 0 /\ tasks = <<>> /\ stack = <<>> /\ cache = <<>> /\ phase = "build" /\ emitted = 0

AddNode ==
    /\ phase = "build" /\ Len(dag) < MaxNodes
    /\ \/ \E k \in LeafKinds : dag' = Append(dag, Leaf(k))
       \/ Len(dag) > 0 /\ \E x \in 1..Len(dag) : dag' = Append(dag, Neg(x))
       \/ Len(dag) > 0 /\ \E k \in {"add", "sub", "mul"} : \E x, y \in 1..Len(dag) : dag' = Append(dag, Bin(k, x, y))
    /\ UNCHANGED <<root, tasks, stack, cache, phase, emitted>>

Start ==
    /\ phase = "build" /\ Len(dag) > 0 /\ Used(dag)
    /\ root' = Len(dag)
    /\ tasks' = <<[t |-> "eval", n |-> Len(dag)]>>
    /\ cache' = [i \in 1..Len(dag) |-> <<>>]      \* <<>> = absent
    /\ phase' = "compile"
    /\ UNCHANGED <<dag, stack, emitted>>

Top(s) == s[Len(s)]
Pop(s) == SubSeq(s, 1, Len(s) - 1)

PopEval ==
    /\ phase = "compile" /\ tasks # <<>> /\ Top(tasks).t = "eval"
    /\ LET i == Top(tasks).n  n == dag[i]  rest == Pop(tasks) IN
         IF cache[i] # <<>>
         THEN /\ stack' = Append(stack, cache[i]) /\ tasks' = rest /\ UNCHANGED <<cache, emitted>>
         ELSE IF IsLeaf(n)
         THEN /\ cache' = [cache EXCEPT ![i] = Den(dag, i)]
              /\ stack' = Append(stack, Den(dag, i)) /\ tasks' = rest /\ UNCHANGED emitted
         ELSE IF n.k = "neg"
         THEN /\ tasks' = rest \o <<[t |-> "neg", n |-> i], [t |-> "eval", n |-> n.x]>>
              /\ UNCHANGED <<stack, cache, emitted>>
         ELSE /\ tasks' = rest \o <<[t |-> "bin", n |-> i], [t |-> "eval", n |-> n.y], [t |-> "eval", n |-> n.x]>>
              /\ UNCHANGED <<stack, cache, emitted>>
    /\ UNCHANGED <<dag, root, phase>>

PopBuildNeg ==
    /\ phase = "compile" /\ tasks # <<>> /\ Top(tasks).t = "neg"
    /\ stack # <<>>
    /\ LET i == Top(tasks).n  v == <<"sub", <<"zero">>, Top(stack)>> IN
         /\ cache' = [cache EXCEPT ![i] = v]
         /\ stack' = Append(Pop(stack), v)
    /\ tasks' = Pop(tasks) /\ emitted' = emitted + 1
    /\ UNCHANGED <<dag, root, phase>>

PopBuildBinary ==
    /\ phase = "compile" /\ tasks # <<>> /\ Top(tasks).t = "bin"
    /\ Len(stack) >= 2
    /\ LET i == Top(tasks).n
           rhs == Top(stack)  lhs == Top(Pop(stack))
           v == <<dag[i].k, lhs, rhs>> IN
         /\ cache' = [cache EXCEPT ![i] = v]
         /\ stack' = Append(Pop(Pop(stack)), v)
    /\ tasks' = Pop(tasks) /\ emitted' = emitted + 1
    /\ UNCHANGED <<dag, root, phase>>

Finish ==
    /\ phase = "compile" /\ tasks = <<>>
    /\ phase' = "done"
    /\ UNCHANGED <<dag, root, tasks, stack, cache, emitted>>

Next == AddNode \/ Start \/ PopEval \/ PopBuildNeg \/ PopBuildBinary \/ Finish
Spec == Init /\ [][Next]_vars

\* C13 (compiler): the compiled id denotes the root, for every assignment of the leaves
ResultDenotesNode == phase = "done" => (Len(stack) = 1 /\ stack[1] = Den(dag, root))
CacheOnlyHoldsFinished == phase \in {"compile", "done"} => \A i \in 1..Len(dag) : cache[i] # <<>> => cache[i] = Den(dag, i)
\* a build task always finds its operands
StackDiscipline ==
    phase = "compile" /\ tasks # <<>> =>
        /\ (Top(tasks).t = "neg" => stack # <<>>)
        /\ (Top(tasks).t = "bin" => Len(stack) >= 2)
\* sharing pays: every inner node is built exactly once
InnerNodes == { i \in 1..Len(dag) : ~IsLeaf(dag[i]) }
EachNodeBuiltOnce == phase = "done" => emitted = Cardinality(InnerNodes)
=============================================================================
