SPECIFICATION Spec
CONSTANTS
  MaxOps = 4
  MaxLanes = 4
  PrepTest = "empty"
  ProverTest = "le1"
INVARIANTS
  SameVerifyingData
  EmptyReduced
CHECK_DEADLOCK FALSE
