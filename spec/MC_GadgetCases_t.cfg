SPECIFICATION Spec
CONSTANTS
  Fields <- FT
  MaxLogN = 9
  MaxLen = 40
  Exponents <- ExpT
  MaxLogH = 9
INVARIANTS
  Emit
CHECK_DEADLOCK FALSE
