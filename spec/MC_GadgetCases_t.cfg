SPECIFICATION Spec
CONSTANTS
  Fields <- FT
  MaxLogN = 6
  MaxLen = 16
  Exponents <- ExpT
  MaxLogH = 6
INVARIANTS
  Emit
CHECK_DEADLOCK FALSE
