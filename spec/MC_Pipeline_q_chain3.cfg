SPECIFICATION Spec
CONSTANTS
  P = 5
  NPUB = 2
  NPRIV = 0
  PreConsts <- Pre2
  MaxCalls = 3
  MaxConn = 0
  Kinds = {"mul", "add", "sub"}
  FixD1 = TRUE
  FixD2 = TRUE
  FixFuse = TRUE
  FixAcc = TRUE
  NoFold = FALSE
INVARIANTS
  TypeOK
  EmitReplay
  RunnerSelfConsistent
  BuilderSound
  FuseOrderIndependent
CHECK_DEADLOCK FALSE
