SPECIFICATION Spec
CONSTANTS
  P = 3
  NPUB = 2
  NPRIV = 0
  PreConsts <- PreNone
  MaxCalls = 4
  MaxConn = 0
  Kinds = {"mul", "add"}
  FixD1 = TRUE
  FixD2 = TRUE
  FixFuse = TRUE
  FixAcc = TRUE
  NoFold = TRUE
INVARIANTS
  TypeOK
  EmitReplay
  RunnerSelfConsistent
  BuilderSound
  FuseOrderIndependent
CONSTRAINT
  FusionShaped
CHECK_DEADLOCK FALSE
