SPECIFICATION Spec
CONSTANTS
  Fields <- FQ
  MaxLogN = 4
  MaxLen = 8
  Exponents <- ExpQ
  MaxLogH = 4
INVARIANTS
  Emit
CHECK_DEADLOCK FALSE
