SPECIFICATION Spec
CONSTANTS
  MaxInst = 2
  MaxChunks = 2
  MaxQueries = 2
  MaxPhases = 2
  MaxBatches = 2
INVARIANTS
  AllocEqualsPack
  EveryElementOnce
CHECK_DEADLOCK FALSE
