---- MODULE MC_Pipeline2 ----
(* further program families of the compile pipeline (kept in a module of their own so that the explorations of MC_Pipeline
   stay cached by content) *)
EXTENDS MC_Pipeline

\* a product that exists twice (two public inputs tied by a connect), the first copy read once by an addition (a fusion candidate),
\* the second copy tied to a private input: dedup redirects the private input's slot to the first product, which the fusion pass
\* must then treat as externally defined - the hand-over of the rewritten external slots between the two passes
IsRet(cl, k, c2) == handles[cl.args[k] + 1] = c2.ret
PubIs(cl, k, n) == ArgIs(cl, k, "pub") /\ PubNo(cl, k) = n
PrivDupShaped ==
    /\ Len(calls) >= 1 => (calls[1].op = "mul" /\ PubIs(calls[1], 1, 1) /\ PubIs(calls[1], 2, 3))
    /\ Len(calls) >= 2 => (calls[2].op \in {"add", "sub"} /\ \E k \in 1..2 : IsRet(calls[2], k, calls[1]) /\ PubIs(calls[2], 3 - k, 4))
    /\ Len(calls) >= 3 => (calls[3].op = "mul" /\ \E k \in 1..2 : (PubIs(calls[3], k, 1) \/ PubIs(calls[3], k, 2)) /\ PubIs(calls[3], 3 - k, 3))
    /\ Len(calls) >= 4 => (calls[4].op = "connect" /\ \E k \in 1..2 : PubIs(calls[4], k, 1) /\ PubIs(calls[4], 3 - k, 2))
    /\ Len(calls) >= 5 => (calls[5].op = "connect" /\ \E k \in 1..2 : ArgIs(calls[5], k, "priv") /\ (IsRet(calls[5], 3 - k, calls[3]) \/ IsRet(calls[5], 3 - k, calls[1])))
    /\ Len(calls) <= 5

\* deviation: the fusion pass receives the private-input slots WITHOUT the rewrite (stale ids)
StaleExtSlots == { privrows[i] : i \in DOMAIN privrows }
====
