SPECIFICATION Spec
CONSTANTS
  MaxRows = 5
  MinHeights = {1, 8}
  Variant = "code"
  FirstRowStarts = TRUE
INVARIANTS
  ReadsCountedAsPerformed
  Emit
CHECK_DEADLOCK FALSE
