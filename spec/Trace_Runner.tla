---------------------------- MODULE Trace_Runner ----------------------------
(* Trace validation of the REAL runner (hooks in circuit/src/tables/runner.rs, cfg p3r_verif) against Runner.tla:   *)
(* every recorded witness access, op start, executor write and run result must be a step of the design.  One file    *)
(* holds many runner instances, one after the other, each starting with r_new.                                       *)
EXTENDS Runner, Json, IOUtils

Rec == ndJsonDeserialize(IOEnv.TRACE)
VARIABLE l
tvars == <<rvars, l>>

TraceInit == /\ l = 1 /\ n = 0 /\ nops = 0 /\ w = <<>> /\ pc = -1 /\ failed = FALSE /\ ended = TRUE
IsEvent(e) == l <= Len(Rec) /\ Rec[l].ev = e /\ l' = l + 1

TNew == IsEvent("r_new") /\ RNew(Rec[l].n, Rec[l].nops)
TGet == IsEvent("r_get") /\ RGet(Rec[l].slot, Rec[l].hit, Rec[l].tok)
TSet == IsEvent("r_set") /\ RSet(Rec[l].slot, Rec[l].tok, Rec[l].res)
TOp == IsEvent("r_op") /\ ROp(Rec[l].i)
TExt == IsEvent("r_ext") /\ RExt(Rec[l].slot, Rec[l].tok)
TInputs == IsEvent("r_inputs") /\ RInputs({ Rec[l].slots[j] : j \in 1..Len(Rec[l].slots) }, Rec[l].ok)
TFail == IsEvent("r_fail") /\ RFail
TRun == IsEvent("r_run") /\ RRun
TEnd == IsEvent("r_end") /\ REnd(Rec[l].res)

TraceNext == TNew \/ TRun \/ TGet \/ TSet \/ TOp \/ TExt \/ TInputs \/ TFail \/ TEnd
TraceSpec == TraceInit /\ [][TraceNext]_tvars
TraceAccepted ==
    LET d == TLCGet("stats").diameter IN
    IF d - 1 = Len(Rec) THEN TRUE
    ELSE Print(<<"TRACE REJECTED after", d - 1, "of", Len(Rec), "events; first unmatched:", Rec[d]>>, FALSE)
=============================================================================
