SPECIFICATION Spec
CONSTANTS
  NConstraints = 3
  Addrs = {1, 2}
  Temporaries = TRUE
INVARIANTS
  ResultDenotesConstraint
  KeysAreAlive
CHECK_DEADLOCK FALSE
