SPECIFICATION Spec
CONSTANTS
  P = 3
  NPUB = 1
  NPRIV = 0
  PreConsts <- Pre2
  MaxCalls = 3
  MaxConn = 0
  Kinds = {"mul", "add", "horner"}
  FixD1 = TRUE
  FixD2 = TRUE
  FixFuse = TRUE
  FixAcc = FALSE
  NoFold = FALSE
INVARIANTS
  TypeOK
  EmitReplay
  RunnerSelfConsistent
  BuilderSound
  FuseOrderIndependent
CONSTRAINT
  MulAddHornerShaped
CHECK_DEADLOCK FALSE
