SPECIFICATION Spec
CONSTANTS
  P = 3
  NPUB = 2
  NPRIV = 1
  PreConsts <- Pre2
  MaxCalls = 6
  MaxConn = 2
  Kinds = {"add", "sub", "mul", "div", "connect", "azero", "abool", "muladd", "select", "horner", "bits2"}
  FixD1 = TRUE
  FixD2 = TRUE
  FixFuse = TRUE
  FixAcc = TRUE
  NoFold = FALSE
INVARIANTS
  TypeOK
  EmitReplay
  RunnerSelfConsistent
  BuilderSound
  FuseOrderIndependent
CHECK_DEADLOCK FALSE
