SPECIFICATION Spec
CONSTANTS
  MaxNodes = 4
  LeafKinds <- LkQ
INVARIANTS
  ResultDenotesNode
  CacheOnlyHoldsFinished
  StackDiscipline
  EachNodeBuiltOnce
  Emit
  EmitAirs
CHECK_DEADLOCK FALSE
