SPECIFICATION Spec
CONSTANTS
  AllowConnect = TRUE
  MaxCalls = 4
  Fallback = "own"
INVARIANTS
  CoeffsCorrect
  ProvenanceSound
  Emit
CHECK_DEADLOCK FALSE
