SPECIFICATION Spec
CONSTANTS
  MaxRows = 8
  MinHeights = {1, 4, 8, 16}
  Variant = "code"
  FirstRowStarts = TRUE
INVARIANTS
  ReadsCountedAsPerformed
  Emit
CHECK_DEADLOCK FALSE
