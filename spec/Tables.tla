-------------------------------- MODULE Tables --------------------------------
(***************************************************************************)
(* Row relations of the ALU table (circuit-prover/src/air/alu_air.rs),      *)
(* base field, lane 0, single-step rows, as a window of two consecutive     *)
(* rows over GF(P): the constraints `eval` asserts on (local, next) are     *)
(* transcribed in Accepts; Relation is what the operations mean, including  *)
(* the accumulator rule of Horner steps (the schedule starts every chain    *)
(* after a separator row, accumulator 0; inside a chain the accumulator is  *)
(* the previous step's out).                                                *)
(*                                                                         *)
(* C11: Accepts <=> Relation, for every pair of row kinds and all values.   *)
(*                                                                         *)
(* SepOutPinned selects the constraint that makes it true: on a row         *)
(* followed by a Horner step, an inactive (separator / padding) row must    *)
(* have out = 0.  BoolTiesOut: the BoolCheck row asserts out = a.           *)
(***************************************************************************)
EXTENDS Integers, Sequences, FiniteSets, TLC

CONSTANTS P, SepOutPinned, BoolTiesOut

GF == 0 .. P - 1
Kinds == {"Sep", "Add", "Mul", "Bool", "MulAdd", "Horner"}
Row == [k : Kinds, a : GF, b : GF, c : GF, out : GF]

VARIABLES cur, nxt
vars == <<cur, nxt>>

Init == cur \in Row /\ nxt \in Row
Next == UNCHANGED vars
Spec == Init /\ [][Next]_vars

M(x) == x % P
\* constraints of one row that only mention the row itself (selectors are preprocessed)
Local(r) ==
    CASE r.k = "Add"    -> M(r.a + r.b) = r.out
      [] r.k = "Mul"    -> M(r.a * r.b) = r.out
      [] r.k = "Bool"   -> M(r.a * (r.a + P - 1)) = 0 /\ (BoolTiesOut => r.out = r.a)
      [] r.k = "MulAdd" -> M(r.a * r.b + r.c) = r.out
      [] r.k = "Horner" -> TRUE     \* constrained from the previous row
      [] r.k = "Sep"    -> TRUE     \* inactive row: all selectors 0
\* the inter-row Horner constraint: next_sel_horner * (out*next_b + next_c - next_a - next_out)
Inter(r, n) ==
    /\ n.k = "Horner" => M(r.out * n.b + n.c + P - n.a) = n.out
    /\ (SepOutPinned /\ n.k = "Horner" /\ r.k = "Sep") => r.out = 0
Accepts(r, n) == Local(r) /\ Inter(r, n)

\* meaning: the schedule puts a Horner step either after a Horner step (same chain) or after a
\* separator (chain start, accumulator 0); other predecessors do not occur in lane 0
Scheduled(r, n) == n.k = "Horner" => r.k \in {"Horner", "Sep"}
OpRelation(r) ==
    CASE r.k = "Add"    -> M(r.a + r.b) = r.out
      [] r.k = "Mul"    -> M(r.a * r.b) = r.out
      [] r.k = "Bool"   -> r.a \in {0, 1} /\ r.out = r.a
      [] r.k = "MulAdd" -> M(r.a * r.b + r.c) = r.out
      [] OTHER          -> TRUE
\* a separator in front of a chain is an all-zero row (its out is the chain's initial accumulator)
HornerRelation(r, n) ==
    n.k = "Horner" => /\ (r.k = "Sep" => r.out = 0)
                      /\ LET acc == IF r.k = "Horner" THEN r.out ELSE 0 IN M(acc * n.b + n.c + P - n.a) = n.out
Relation(r, n) == OpRelation(r) /\ HornerRelation(r, n)

ConstraintIffRelation == Scheduled(cur, nxt) => (Accepts(cur, nxt) <=> Relation(cur, nxt))
\* one direction each, to see which one fails
Complete == Scheduled(cur, nxt) => (Relation(cur, nxt) => Accepts(cur, nxt))
Sound    == Scheduled(cur, nxt) => (Accepts(cur, nxt) => Relation(cur, nxt))
=============================================================================
