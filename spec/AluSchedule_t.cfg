SPECIFICATION Spec
CONSTANTS
  MaxOps = 8
  LaneSet = {1, 2, 3, 4}
  KSet = {2, 3, 4, 5}
  ResetOn = "lane0"
  BMult = "sum"
  PrivClasses = {}
INVARIANTS
  EveryOpOnce
  RowsComplete
  HornerOnLane0
  PackedWellFormed
  FirstRowIsSeparator
  AirAccIsChainAcc
  GeneratorAccIsAirAcc
  AlphaBusPreserved
  Emit
CHECK_DEADLOCK FALSE
