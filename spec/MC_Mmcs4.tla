------------------------------ MODULE MC_Mmcs4 ------------------------------
EXTENDS Mmcs4, Json
Emit == (phase = "done" /\ Applicable) =>
    PrintT(<<"REPLAY", ToJson([spec |-> "Mmcs4", heights |-> [i \in DOMAIN logh |-> 2 ^ logh[i]], cap_height |-> cap,
                               agree |-> Agree, roots |-> NativeCap(Heights, cap).roots,
                               native_path |-> NativeCap(Heights, cap).path,
                               circuit_path |-> CircuitPath(Heights, NativeCap(Heights, cap).roots)])>>)
=============================================================================
