SPECIFICATION Spec
CONSTANTS
  MaxOps = 5
  LaneSet = {1, 2}
  KSet = {2, 3}
  ResetOn = "lane0"
  BMult = "times_k"
  PrivClasses = {0, 1}
INVARIANTS
  AlphaBusPreserved
CHECK_DEADLOCK FALSE
