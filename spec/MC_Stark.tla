------------------------------ MODULE MC_Stark ------------------------------
EXTENDS Stark, Json
CfgP(n, p, zk, prep, lk, pv, cp, qp) == [name |-> n, proto |-> p, zk |-> zk, prep |-> prep, lookups |-> lk, pubvals |-> pv, cpow |-> cp, qpow |-> qp]
Cfg(n, p, zk, prep, lk, pv) == CfgP(n, p, zk, prep, lk, pv, TRUE, TRUE)
\* the configurations `p3r stark` can build (recursion/tests + circuit-prover set-ups)
DriverConfigs == {
    Cfg("uni_fib_bb", "uni", FALSE, FALSE, FALSE, TRUE),
    \* the same with Merkle caps of height 1 (two roots per commitment)
    Cfg("uni_fib_bb_cap1", "uni", FALSE, FALSE, FALSE, TRUE),
    Cfg("uni_mul_kb_prep", "uni", FALSE, TRUE, FALSE, FALSE),
    Cfg("uni_gl_d2", "uni", FALSE, FALSE, FALSE, TRUE),
    Cfg("batch_two_airs_bb", "batch", FALSE, TRUE, FALSE, TRUE),
    \* the same with Merkle caps of height 2 (four roots per commitment)
    Cfg("batch_two_airs_bb_cap2", "batch", FALSE, TRUE, FALSE, TRUE),
    \* the same AIRs, the instance without preprocessed columns first (matrix_to_instance = [1]) and of another height
    Cfg("batch_two_airs_rev_bb", "batch", FALSE, TRUE, FALSE, TRUE),
    Cfg("batch_lookups_bb", "tables", FALSE, TRUE, TRUE, FALSE),
    Cfg("batch_circuit_tables_kb", "tables", FALSE, TRUE, TRUE, FALSE),
    Cfg("batch_fib_kb_zk", "batch", TRUE, FALSE, FALSE, TRUE),
    \* the same with unequal proof-of-work bits (commit 0, query 3)
    CfgP("batch_fib_kb_zk_pow", "batch", TRUE, FALSE, FALSE, TRUE, FALSE, TRUE)}
\* Merkle cap height of the configuration's MMCS (every full-height commitment carries 2^cap digests) and digest width in field elements
CapLog(n) == CASE n = "uni_fib_bb_cap1" -> 1 [] n = "batch_two_airs_bb_cap2" -> 2 [] OTHER -> 0
DigestElems(n) == IF n = "uni_gl_d2" THEN 4 ELSE 8
\* counts and parameters that are also driven out of range (0, 63, usize::MAX / 2): a verifier parameter or a prover-supplied
\* count must never size an allocation or a shift unchecked
OutOfRangeCounts(c) == {"fri.query_proofs[0].commit_phase_openings[0].log_arity"} \cup (IF c.proto = "uni" THEN {"degree_bits"} ELSE {"degree_bits[0]"})
\* every feature combination (design check only; lookups need the batch verifier)
AllConfigs == {CfgP("any", p, zk, prep, lk, pv, cp, qp) : p \in {"uni", "batch", "tables"}, zk \in BOOLEAN, prep \in BOOLEAN, lk \in BOOLEAN, pv \in BOOLEAN,
                                                        cp \in BOOLEAN, qp \in BOOLEAN}
DesignConfigs == {c \in AllConfigs : c.lookups => c.proto # "uni"}

\* lists the code indexes or zips without validating them first (KNOWN_FINDINGS.json, C15); "fixed" ones are removed here
\*   fri.query_proofs: FriVerifierParams carries no query count, the circuit takes it from the proof
\*   public_values / instances: sized by assert_eq! in BatchStarkVerifierInputsBuilder::allocate (batch) or indexed by the
\*     AIR's symbolic constraints (uni) - RecursiveAir exposes no public-value count to validate against
\*   opened_values.preprocessed_local (uni): the preprocessed width is read off the proof itself
\* repaired since the first run (KNOWN_FINDINGS.json "fixed"): fri.commit_phase_commits / fri.commit_pow_witnesses (7b24f78),
\*   degree_bits (538a232), lookup_terminals (7d7d19a)
Unvalidated == {<<p, "fri.query_proofs", o>> : p \in {"uni", "batch", "tables"}, o \in {"shorten", "lengthen"}}   \* zero queries are refused
    \cup {<<p, "public_values", o>> : p \in {"uni", "batch"}, o \in MalOps}
    \cup {<<"uni", "opened_values.preprocessed_local", o>> : o \in {"shorten", "empty"}}   \* longer than preprocessed_next: refused
    \cup {<<p, "instances", o>> : p \in {"batch", "tables"}, o \in MalOps}
NoneUnvalidated == {}

FaultCase == [spec |-> "Stark", config |-> cfg.name, mode |-> "fault", fault |-> [element |-> fault, pos |-> "all"],
              model |-> [refused_at |-> refusedAt]]
MalCase == [spec |-> "Stark", config |-> cfg.name, mode |-> "malformed", alter |-> [target |-> mal[1], op |-> mal[2]],
            model |-> [refused_at |-> refusedAt, validated |-> Validated(cfg, mal[1], mal[2])]]
Emit == Done => PrintT(<<"REPLAY", ToJson(IF mal = NoMal THEN FaultCase ELSE MalCase)>>)
\* once per configuration: the marker case (C14) and the kinds the model says the statement does not contain
EmitPerConfig == (pc = 0 /\ fault = "none" /\ mal = NoMal) =>
    /\ PrintT(<<"REPLAY", ToJson([spec |-> "Stark", config |-> cfg.name, mode |-> "marker",
                                  model |-> [zk |-> cfg.zk, prep |-> cfg.prep, lookups |-> cfg.lookups, pubvals |-> cfg.pubvals, proto |-> cfg.proto,
                                             roots |-> 2 ^ CapLog(cfg.name), digest |-> DigestElems(cfg.name)]])>>)
    /\ \A q \in ParamsOf(cfg) \cup OutOfRangeCounts(cfg) : \A o \in (IF q \in ParamsOf(cfg) THEN {"inc", "dec"} ELSE {}) \cup {"zero", "huge", "huger"} :
          PrintT(<<"REPLAY", ToJson([spec |-> "Stark", config |-> cfg.name, mode |-> "malformed", alter |-> [target |-> q, op |-> o],
                                    model |-> [refused_at |-> "param", validated |-> TRUE]])>>)
    /\ \A k \in Kinds : Present(cfg, k) \/
          PrintT(<<"REPLAY", ToJson([spec |-> "Stark", config |-> cfg.name, mode |-> "fault", fault |-> [element |-> k, pos |-> "first"],
                                    model |-> [refused_at |-> "absent"]])>>)
=============================================================================
