SPECIFICATION Spec
CONSTANTS
  Bases <- BasesOne
  PSets <- PS1
  NSlots = {"s0"}
  ASlots = {"g0"}
  MaxBase = 1
  MaxProve = 4
  MaxParams = 0
  Ops = {"next"}
  MustFill = FALSE
  Policy = "code"
INVARIANTS
  TypeOK
  SlotsComeFromCalls
  CountersCoarser
  OutputsChain
  Emit
CHECK_DEADLOCK FALSE
