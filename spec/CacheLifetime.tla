---------------------------- MODULE CacheLifetime ----------------------------
(***************************************************************************)
(* The caches of SymbolicCompiler (circuit/src/symbolic/compiler.rs) are   *)
(* keyed by node IDENTITY (the address of the expression node) and shared  *)
(* by all constraints of one AIR evaluation (eval_folded_circuit).  A key  *)
(* is only meaningful while the node it names is alive: an address that is *)
(* freed can be handed out again, to a node that denotes something else.   *)
(*                                                                         *)
(* Constraints are compiled one after the other.  A constraint is either   *)
(* compiled in place (its nodes are owned by the AIR's constraint list and *)
(* outlive the evaluation) or through a TEMPORARY copy that is freed when  *)
(* the call returns (Temporaries = TRUE: e.g. lowering a base-valued       *)
(* extension constraint to a fresh base expression and sending it through  *)
(* the base path with the shared cache).                                   *)
(*                                                                         *)
(* ResultDenotesConstraint: what a call returns denotes the constraint it  *)
(* was asked to compile.  Holds when only long-lived nodes are cache keys  *)
(* (the code); violated with temporaries, because the allocator may reuse  *)
(* the freed address for the next temporary.                               *)
(***************************************************************************)
EXTENDS Naturals, Sequences, FiniteSets, TLC

CONSTANTS NConstraints,   \* constraints of the AIR, compiled in order; constraint i denotes the term i
          Addrs,          \* addresses the allocator hands out for temporaries
          Temporaries     \* BOOLEAN: constraints are compiled through a freed-on-return temporary

VARIABLES next,      \* index of the next constraint to compile
          cache,     \* identity -> denotation (the circuit target built for that node)
          live,      \* addresses of temporaries currently alive
          results    \* what each call returned
vars == <<next, cache, live, results>>

\* long-lived nodes have identities <<"node", i>>; temporaries <<"tmp", a>>
Init == next = 1 /\ cache = [k \in {} |-> 0] /\ live = {} /\ results = <<>>

Lookup(key, den) == IF key \in DOMAIN cache THEN cache[key] ELSE den
Store(key, den) == IF key \in DOMAIN cache THEN cache ELSE [k \in DOMAIN cache \cup {key} |-> IF k = key THEN den ELSE cache[k]]

CompileInPlace ==
    /\ next <= NConstraints /\ ~Temporaries
    /\ LET key == <<"node", next>> IN
         /\ results' = Append(results, Lookup(key, next))
         /\ cache' = Store(key, next)
    /\ next' = next + 1 /\ UNCHANGED live

\* allocate a temporary (any address not alive - including one that was freed before), compile it, free it
CompileThroughTemporary ==
    /\ next <= NConstraints /\ Temporaries
    /\ \E a \in Addrs \ live :
         LET key == <<"tmp", a>> IN
           /\ results' = Append(results, Lookup(key, next))
           /\ cache' = Store(key, next)
    /\ next' = next + 1 /\ UNCHANGED live       \* the temporary is dead again when the call returns

Next == CompileInPlace \/ CompileThroughTemporary
Spec == Init /\ [][Next]_vars

ResultDenotesConstraint == \A i \in 1..Len(results) : results[i] = i
\* every key of the cache names a node that is still alive (long-lived nodes always are)
KeysAreAlive == \A k \in DOMAIN cache : k[1] = "node" \/ k[2] \in live
=============================================================================
