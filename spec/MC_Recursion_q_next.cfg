SPECIFICATION Spec
CONSTANTS
  Bases <- BasesQN
  PSets <- PS1
  NSlots = {"s0"}
  ASlots = {"g0"}
  MaxBase = 2
  MaxProve = 2
  MaxParams = 0
  Ops = {"next"}
  MustFill = FALSE
  Policy = "code"
INVARIANTS
  TypeOK
  SlotsComeFromCalls
  CountersCoarser
  OutputsChain
  Emit
CHECK_DEADLOCK FALSE
