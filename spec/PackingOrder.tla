---------------------------- MODULE PackingOrder ----------------------------
(* The element orders of recursion/src/types/proof.rs, pcs/fri/targets.rs and public_inputs.rs, shared by the design   *)
(* model (Packing.tla) and the trace specification (Trace_Packing.tla).                                                 *)
\* ---- order definitions shared with Trace_Packing ------------------------------------------------------------------
\* opened values of one instance (OpenedValuesTargets::new / get_private_values, then the lookup wrapper)
InstOrder == <<"trace_local_opening", "trace_next_opening", "preprocessed_local_opening", "preprocessed_next_opening",
               "quotient_chunk_opening", "random_opening", "permutation_local_opening", "permutation_next_opening">>
\* commitments (CommitmentTargets::new / get_values)
CommitOrder == <<"trace_commitment_word", "permutation_commitment_word", "quotient_commitment_word", "random_commitment_word">>
\* public part of a FRI proof (FriProofTargets::new / get_values)
FriPubOrder == <<"fri_commit_phase_word", "fri_commit_pow_witness", "fri_final_poly_coeff", "fri_pow_witness">>

\* private part of one query (QueryProofTargets): input batches, then fold phases; each opening proof contributes its salts (hiding)
QueryOrder == <<"fri_query_opened_value", "fri_query_salt", "fri_query_sibling_value", "fri_query_salt">>
\* what follows the proof values in the public vector (BatchProofTargets::get_values, then the builders)
PubTailOrder == <<"lookup_terminal", "common_preprocessed_commitment_word">>

=============================================================================
