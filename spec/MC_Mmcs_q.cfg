SPECIFICATION Spec
CONSTANTS
  MaxLog = 3
  MaxMats = 2
  MaxCap = 2
  Variants <- VarQuick
INVARIANTS
  EveryOpenedValueHashed
  VerdictAsExpected
  Emit
CHECK_DEADLOCK FALSE
