SPECIFICATION Spec
CONSTANTS
  MaxLogH = 3
  Blowups <- B12
  Arities <- A12
  FinalLens <- F01
  MaxBatches = 2
  MaxMats = 2
  BatchIndexShifted = TRUE
  UnconsumedPolicy = "ignore"
  Cfgs <- CfgQ
  Queries <- Q1
  PowBits <- Pow0
  PointModes <- PmQ
  Faults <- FaultsAll
  Caps <- Cap03
INVARIANTS
  RollInOnceAtRightHeight
  BitsAccounted
  AritiesBounded
  SameIndexBits
  CapsAccounted
  ScheduleIsFunctional
  WithheldHeightStillChecked
CHECK_DEADLOCK FALSE
