------------------------------ MODULE LaneRule ------------------------------
(***************************************************************************)
(* Which lane count a primitive table gets, decided twice: by the           *)
(* preparation step (circuit-prover/src/common.rs                           *)
(* get_airs_and_degrees_with_prep, which produces the verifying data) and   *)
(* by the prover (batch_stark_prover.rs prove), each from what it sees:     *)
(*   preparation: the preprocessed rows of the table (one per real op)      *)
(*   prover:      the trace of the table; the trace of an EMPTY ALU / Public *)
(*                table holds one dummy operation                           *)
(* Both reduce a table that holds "only dummy operations" to one lane.      *)
(* The proof carries the prover's choice and is verified against data built *)
(* for it; C18 (a prover and a verifier who compile independently agree on  *)
(* the verifying data) needs the two decisions to coincide for every table  *)
(* size and configured lane count.                                          *)
(*                                                                          *)
(* PrepTest / ProverTest: "empty" (no real op) | "le1" (at most one real    *)
(* op).  Code: Public le1 / le1; ALU le1 / le1 since fix 4475837 (before:   *)
(* empty / le1).                                                            *)
(***************************************************************************)
EXTENDS Integers, TLC

CONSTANTS MaxOps, MaxLanes, PrepTest, ProverTest

VARIABLES ops, lanes
vars == <<ops, lanes>>
Init == ops \in 0..MaxOps /\ lanes \in 1..MaxLanes
Next == UNCHANGED vars
Spec == Init /\ [][Next]_vars

\* what each side sees
PrepRows == ops
TraceLen == IF ops = 0 THEN 1 ELSE ops      \* the dummy operation of an empty table
OnlyDummyPrep == IF PrepTest = "empty" THEN PrepRows = 0 ELSE PrepRows <= 1
\* the prover cannot tell zero from one operation by the trace length: its only usable test is `<= 1`
OnlyDummyProver == IF ProverTest = "empty" THEN FALSE ELSE TraceLen <= 1
Reduce(only, l) == IF only /\ l > 1 THEN 1 ELSE l
PrepLanes == Reduce(OnlyDummyPrep, lanes)
ProverLanes == Reduce(OnlyDummyProver, lanes)

SameVerifyingData == PrepLanes = ProverLanes
\* an empty table must be reduced by the prover (a multi-lane all-padding table breaks the lookups)
EmptyReduced == ops = 0 => ProverLanes = 1
=============================================================================
