SPECIFICATION Spec
CONSTANTS
  WIDTH = 16
  RATE = 8
  D = 1
  BasePath = TRUE
  MaxOps = 4
  ObsCounts <- ObsW16
  SampCounts <- SampW16
  AllowForeign = FALSE
INVARIANTS
  TypeOK
  EmitReplay
  Agree
  Tags
CHECK_DEADLOCK FALSE
