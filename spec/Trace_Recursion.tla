--------------------------- MODULE Trace_Recursion ---------------------------
(***************************************************************************)
(* Trace validation of the two preparation caches: the events are what the *)
(* REAL calls did with a slot (observed by `p3r layers`: a next-layer slot *)
(* is filled by build_next_layer_prep or handed to prove_next_layer; for   *)
(* an aggregation slot hit / recomputed is observed by pointer identity of *)
(* the prover data returned, and the slot's fingerprint is read back from  *)
(* the real AggregationPrepCache after the call).  Each event must be the  *)
(* step RecursionCache (the rules Recursion.tla is built from) takes.      *)
(*   key = preprocessed commitment an uncached run of the same call gives  *)
(*         (circuit content + packing + blowup), cnt = the four counters   *)
(*         READ OFF THE CIRCUIT by the cfg(p3r_verif) hook in              *)
(*         prove_aggregation_layer (not through the fingerprint function), *)
(*         fp = the fingerprint the code computed, slot_before / slot_cnt  *)
(*         = the slot's fingerprint before / after the call.               *)
(* `stale` collects the events where a slot prepared for another key was   *)
(* used; under Policy = "code" that is allowed by the trace spec (it is    *)
(* what the code does - the finding is raised by the driver's verdict      *)
(* comparison), under "keyed" such a trace is rejected.                    *)
(***************************************************************************)
EXTENDS Integers, Sequences, FiniteSets, TLC, Json, IOUtils, RecursionCache

Rec == ndJsonDeserialize(IOEnv.TRACE)
Slots == {"s0", "s1", "s2", "g0", "g1"}
VARIABLES l, nslot, aslot, stale
tvars == <<l, nslot, aslot, stale>>

TraceInit == l = 1 /\ nslot = [s \in Slots |-> EmptySlot] /\ aslot = [s \in Slots |-> EmptySlot] /\ stale = 0
IsEvent(e) == l <= Len(Rec) /\ Rec[l].ev = e /\ l' = l + 1

Reset == IsEvent("reset") /\ nslot' = [s \in Slots |-> EmptySlot] /\ aslot' = [s \in Slots |-> EmptySlot] /\ UNCHANGED stale

NextEv ==
    /\ IsEvent("next")
    /\ LET e == Rec[l] sl == nslot[e.slot] IN
       /\ e.obs = (IF NextUses(sl, e.key) THEN "hit" ELSE "filled")
       /\ nslot' = [nslot EXCEPT ![e.slot] = NextSlotAfter(sl, e.key, e.cnt)]
       /\ stale' = stale + (IF NextUses(sl, e.key) /\ StaleUse(sl, e.key) THEN 1 ELSE 0)
    /\ UNCHANGED aslot

AggEv ==
    /\ IsEvent("agg")
    /\ LET e == Rec[l] sl == aslot[e.slot] IN
       /\ e.obs = (IF AggHits(sl, e.key, e.cnt) THEN "hit" ELSE IF sl.filled THEN "recomputed" ELSE "filled")
       \* the fingerprint the code computed for this circuit (hook event at the cache decision) is the four size counters
       \* read off the circuit itself: witness_count, public_flat_len, private_flat_len, ops.len()
       /\ e.fp = e.cnt
       \* the fingerprint the offered slot held at the decision is the one the model's slot holds
       /\ e.slot_before = (IF sl.filled THEN sl.cnt ELSE "none")
       \* the fingerprint read back from the real slot after the call is the one the model's slot now holds
       /\ AggSlotAfter(sl, e.key, e.cnt).cnt = e.slot_cnt
       /\ aslot' = [aslot EXCEPT ![e.slot] = AggSlotAfter(sl, e.key, e.cnt)]
       /\ stale' = stale + (IF AggHits(sl, e.key, e.cnt) /\ StaleUse(sl, e.key) THEN 1 ELSE 0)
    /\ UNCHANGED nslot

TraceNext == Reset \/ NextEv \/ AggEv
TraceSpec == TraceInit /\ [][TraceNext]_tvars
TraceAccepted ==
    LET d == TLCGet("stats").diameter IN
    IF d - 1 = Len(Rec) THEN TRUE
    ELSE Print(<<"TRACE REJECTED after", d - 1, "of", Len(Rec), "events; first unmatched:", Rec[d]>>, FALSE)
=============================================================================
