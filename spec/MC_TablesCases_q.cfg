SPECIFICATION Spec
CONSTANTS
  MaxOps = 3
  Configs <- CfgQuick
INVARIANTS
  Emit
CHECK_DEADLOCK FALSE
