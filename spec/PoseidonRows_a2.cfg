SPECIFICATION Spec
CONSTANTS
  P = 3
  A = 2
  BoolOn = "bit2"
  Chunks = {0, 1}
  StartPinned = FALSE
INVARIANTS
  ConstraintIffRelation
CHECK_DEADLOCK FALSE
