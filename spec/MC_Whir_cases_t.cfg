SPECIFICATION Spec
CONSTANTS
  DropIdentity = FALSE
  Configs <- CfgRealT
INVARIANTS
  FaultRefused
  HonestAccepted
  EveryKindRead
  ObservedBeforeUse
  PolyBeforeChallenge
  Emit
CHECK_DEADLOCK FALSE
