------------------------------- MODULE MC_Fri -------------------------------
EXTENDS Fri, Json
CONSTANTS Cfgs, Queries, PowBits, PointModes, Faults, Caps
B12 == {1, 2}
A13 == {1, 2, 3}
A12 == {1, 2}
F01 == {0, 1}
F02 == {0, 1, 2}
Q1 == {1}
Q12 == {1, 2}
Cap0 == {0}
Cap03 == {0, 3}
Cap0123 == {0, 1, 2, 3}
Pow0 == {0}
Pow02 == {0, 2}
PmQ == {"shared", "distinct"}
PmT == {"shared", "distinct", "two", "aliased"}
CfgQ == {"bb_d4_p2"}
CfgT == {"bb_d4_p2", "kb_d4_p2"}
FaultsAll == {"none", "skip_height", "opened_value", "commit_phase_commit", "final_poly", "query_opened_row", "query_sibling", "query_merkle", "pow_witness", "input_commitment", "log_arity"}
Widths == <<2, 1, 3>>
FaultJson(k) ==
    CASE k = "none" -> [kind |-> "none"]
      [] k = "skip_height" -> [kind |-> k]
      [] k = "opened_value" -> [kind |-> k, batch |-> Len(batches) - 1, mat |-> 0, point |-> 0, col |-> 0]
      [] k = "commit_phase_commit" -> [kind |-> k, round |-> 0, word |-> 1]
      [] k = "final_poly" -> [kind |-> k, coeff |-> 0]
      [] k = "query_opened_row" -> [kind |-> k, query |-> 0, batch |-> 0, mat |-> 0, col |-> 0]
      [] k = "query_sibling" -> [kind |-> k, query |-> 0, step |-> 0, idx |-> 0]
      [] k = "query_merkle" -> [kind |-> k, query |-> 0, which |-> "input", level |-> 0, word |-> 0]
      [] k = "pow_witness" -> [kind |-> k, which |-> "query"]
      [] k = "input_commitment" -> [kind |-> k, batch |-> 0, word |-> 2]
      [] k = "log_arity" -> [kind |-> k, step |-> 0]
Case(cfg, q, pw, pm, k, cap) ==
    [spec |-> "Fri", cfg |-> cfg, log_blowup |-> lb, num_queries |-> q, log_final_poly_len |-> lf, max_log_arity |-> la,
     pow_bits |-> pw, query_pow_bits |-> pw, cap_height |-> cap,
     batches |-> [j \in 1..Len(batches) |-> [mats |-> [i \in 1..Len(batches[j]) |-> [log_h |-> batches[j][i], w |-> Widths[i]]], points |-> pm]],
     fault |-> FaultJson(k),
     model |-> [arities |-> arities, refused |-> Refused, same_index_bits |-> (shiftC = shiftN), fold_phases |-> Len(arities),
               roots_input |-> RootsInput(cap), roots_commit |-> RootsCommit(cap),
               withheld |-> Withheld, dishonest_arities |-> DishonestSchedule, stepped_over |-> SteppedOver]]
\* faults that touch a commitment or a Merkle opening are replayed for every cap height; the others with the root as cap
CapFaults == {"none", "skip_height", "commit_phase_commit", "query_merkle", "input_commitment", "query_opened_row", "query_sibling"}
Emit == phase = "done" =>
    \A cfg \in Cfgs : \A q \in Queries : \A pw \in PowBits : \A pm \in PointModes : \A k \in Faults : \A cap \in Caps :
        (cap = 0 \/ (k \in CapFaults /\ pm = "shared" /\ pw = 0)) => PrintT(<<"REPLAY", ToJson(Case(cfg, q, pw, pm, k, cap))>>)
CapsAccounted == \A cap \in Caps : CapBitsAccounted(cap)
=============================================================================
