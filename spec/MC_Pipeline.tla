---------------------------- MODULE MC_Pipeline ----------------------------
(* TLC harness for Pipeline: constants, replay emission, model verdicts.   *)
EXTENDS Pipeline, Json

Pre12 == <<1, 2>>
Pre1 == <<1>>
Pre2 == <<2>>
PreNone == <<>>

\* One JSON line per complete program: the API calls (operands named by handle
\* position), what the model predicts for the compiled circuit, and the model's own
\* verdicts for C02 / C03 under the guards selected by FixD1 / FixD2 / FixFuse.
Env0 == [pub |-> [i \in 1..NPUB |-> (i + 1) % P], priv |-> [i \in 1..NPRIV |-> (i + 2) % P]]

ModelC03 == \A pv \in PubVals : OpsImplySourceAt(pv)
ModelC02 == \A env \in Envs : ValuesPreservedAt(env) /\ ViolationDetectedAt(env)

OpJson(op) == [k |-> op.k, a |-> op.a, b |-> op.b, c |-> op.c, out |-> op.out, io |-> op.io, v |-> op.v]

SetToSeq(S) == LET RECURSIVE F(_) F(T) == IF T = {} THEN <<>> ELSE LET x == CHOOSE y \in T : TRUE IN <<x>> \o F(T \ {x}) IN F(S)

ReplayRecord ==
    [ spec |-> "Pipeline",
      p |-> P, npub |-> NPUB, npriv |-> NPRIV,
      prelude |-> [i \in 1..Len(PreludeGraph) |-> [k |-> PreludeGraph[i].k, v |-> PreludeGraph[i].v]],
      calls |-> calls,
      ids |-> [i \in 1..Len(handles) |-> handles[i] - 1],
      nnodes |-> Len(graph),
      gk |-> [i \in 1..Len(graph) |-> graph[i].k],
      ops |-> [i \in 1..Len(ops) |-> OpJson(ops[i])],
      w |-> w2, pubrows |-> pubrows, privrows |-> privrows, nslots |-> nslots,
      rewrite |-> SetToSeq(rewrite),
      den0 |-> DenSeq(graph, Env0),
      m02 |-> ModelC02, m03 |-> ModelC03, m09 |-> BusWellFormed,
      m19 |-> (\A env \in Envs :
                 /\ (NPUB > 0 => ~RunPartial(ops, pubrows, privrows, nslots, rewrite, env, FALSE, TRUE).ok)
                 /\ (NPRIV > 0 => ~RunPartial(ops, pubrows, privrows, nslots, rewrite, env, TRUE, FALSE).ok)) ]

EmitReplay == stage = "done" => PrintT(<<"REPLAY", ToJson(ReplayRecord)>>)

\* State constraints selecting families of programs for deeper exhaustive runs.
UsesOf(e) == Cardinality({ i \in 1..Len(graph) : graph[i].a = e \/ graph[i].b = e \/ graph[i].c = e \/ graph[i].d = e })
           + Cardinality({ i \in 1..Len(graph) : graph[i].k \in {"add", "mul"} /\ graph[i].a = e /\ graph[i].b = e })
\* fusion family: at most two multiplications, each product consumed at most once, no constants
FusionShaped ==
    /\ Cardinality({ i \in 1..Len(graph) : graph[i].k = "mul" }) <= 2
    /\ \A i \in 1..Len(graph) : graph[i].k = "mul" => UsesOf(i) <= 1
    /\ \A i \in 1..Len(graph) : graph[i].k \in {"add", "mul"} => graph[graph[i].a].k # "const" /\ graph[graph[i].b].k # "const"

\* Horner chains: every step continues the previous one (accumulator = previous result, same alpha) - the shape the
\* prover packs into one row of up to `horner_packed_steps` steps
HornerChain ==
    \A i \in 2..Len(calls) : (calls[i].op = "horner" /\ calls[i - 1].op = "horner") =>
        (handles[calls[i].args[1] + 1] = calls[i - 1].ret /\ calls[i].args[2] = calls[i - 1].args[2])

\* long chains (up to MaxCalls steps): every step continues the previous one and reads leaves only (p_at_x the public input) -
\* chains that span several packed rows for every packing factor, next to lanes the scheduler has to pad
ArgIs(cl, k, kind) == graph[handles[cl.args[k] + 1]].k = kind
IsLeafArg(cl, k) == graph[handles[cl.args[k] + 1]].k \in {"pub", "const"}
LongHornerChain ==
    /\ HornerChain
    /\ \A i \in 1..Len(calls) : calls[i].op = "horner" => (IsLeafArg(calls[i], 3) /\ ArgIs(calls[i], 4, "pub"))
    /\ Len(calls) >= 1 => (IsLeafArg(calls[1], 1) /\ IsLeafArg(calls[1], 2))

\* products first, then additions: the shape in which the validity of one fusion depends on another one's
MulsFirst == \A i \in 1..(Len(calls) - 1) : calls[i].op = "add" => calls[i + 1].op # "mul"

FusionShapedMulsFirst == FusionShaped /\ MulsFirst

\* a product that is read by an addition AND by a Horner step (as accumulator or as p_at_z): the fusion pass must count
\* every read of the product, whatever operand position it is in
ReadsRet(cl, k, r) == handles[cl.args[k] + 1] = r
MulAddHornerShaped ==
    /\ Len(calls) >= 1 => calls[1].op = "mul"
    /\ Len(calls) >= 2 => (calls[2].op = "add" /\ (ReadsRet(calls[2], 1, calls[1].ret) \/ ReadsRet(calls[2], 2, calls[1].ret)))
    /\ Len(calls) >= 3 => (calls[3].op = "horner" /\ (ReadsRet(calls[3], 1, calls[1].ret) \/ ReadsRet(calls[3], 3, calls[1].ret)))

\* a private input that the kept operations read ONLY through a third operand (the addend of mul_add, p_at_z or the
\* accumulator of a Horner step), next to two additions over public inputs that connects can make duplicates of each other
\* and tie to that private input: the shape in which dedup may redirect a slot an earlier kept op still reads
PubNo(cl, k) == graph[handles[cl.args[k] + 1]].v      \* position of the public input an argument denotes
RedirectShaped ==
    /\ Len(calls) >= 1 => (calls[1].op = "add" /\ ArgIs(calls[1], 1, "pub") /\ ArgIs(calls[1], 2, "pub") /\ PubNo(calls[1], 1) = 1 /\ PubNo(calls[1], 2) = 2)
    /\ Len(calls) >= 2 => \/ (calls[2].op = "muladd" /\ ArgIs(calls[2], 1, "pub") /\ ArgIs(calls[2], 2, "pub") /\ ArgIs(calls[2], 3, "priv"))
                          \/ (calls[2].op = "horner" /\ (ArgIs(calls[2], 1, "priv") \/ ArgIs(calls[2], 3, "priv"))
                                /\ \A k \in 1..4 : ArgIs(calls[2], k, "pub") \/ ArgIs(calls[2], k, "priv") \/ handles[calls[2].args[k] + 1] = calls[1].ret)
    /\ Len(calls) >= 3 => (calls[3].op = "add" /\ ArgIs(calls[3], 1, "pub") /\ ArgIs(calls[3], 2, "pub") /\ (PubNo(calls[3], 1) = 3 \/ PubNo(calls[3], 2) = 3))
    \* then: one connect between two public inputs, one between the private input and the second addition
    /\ Len(calls) >= 4 => (calls[4].op = "connect" /\ ArgIs(calls[4], 1, "pub") /\ ArgIs(calls[4], 2, "pub"))
    /\ Len(calls) >= 5 => (calls[5].op = "connect" /\ \E k \in 1..2 : ArgIs(calls[5], k, "priv") /\ handles[calls[5].args[3 - k] + 1] = calls[3].ret)
    /\ Len(calls) <= 5

\* Invariants for the guarded (sound) design
SoundC03 == OpsImplySource
SoundC02 == stage = "done" => \A env \in Envs : ValuesPreservedAt(env) /\ ViolationDetectedAt(env)
RunnerSelfConsistent == stage = "done" => \A env \in Envs : RunImpliesOpsAt(env)
BuilderSound == stage = "done" => FoldingSound
=============================================================================
