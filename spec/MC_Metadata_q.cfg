SPECIFICATION Spec
CONSTANTS
  Configs <- AllConfigs
  AltsOf <- Alts
  TracesOf <- Traces
  MaxAlter = 2
  PairFields <- KeyFields
INVARIANTS
  TypeOK
  NoRescue
  ParamsEnforced
  TableSetEnforced
  Emit
CHECK_DEADLOCK FALSE
