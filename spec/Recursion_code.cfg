SPECIFICATION Spec
CONSTANTS
  Bases <- BasesMix
  PSets <- PS2
  NSlots = {"s0"}
  ASlots = {"g0"}
  MaxBase = 2
  MaxProve = 3
  MaxParams = 1
  Ops = {"next", "agg"}
  MustFill = FALSE
  Policy = "code"
INVARIANTS
  TypeOK
  NoStaleUse
  SlotsComeFromCalls
  CountersCoarser
  OutputsChain
CHECK_DEADLOCK FALSE
