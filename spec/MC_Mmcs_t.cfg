SPECIFICATION Spec
CONSTANTS
  MaxLog = 4
  MaxMats = 3
  MaxCap = 2
  Variants <- VarThorough
INVARIANTS
  EveryOpenedValueHashed
  VerdictAsExpected
  Emit
CHECK_DEADLOCK FALSE
