SPECIFICATION Spec
CONSTANTS
  MaxConstraints = 5
  EmissionOrder = TRUE
INVARIANTS
  FoldEqualsNative
CHECK_DEADLOCK FALSE
