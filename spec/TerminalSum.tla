----------------------------- MODULE TerminalSum -----------------------------
(***************************************************************************)
(* The cross-table lookup check of the batch-STARK verifier                 *)
(* (native: p3-batch-stark verify_batch -> verify_terminal_sum; circuit:    *)
(* recursion/src/traits/recursive.rs verify_terminal_sum_circuit): every    *)
(* instance that takes part in the lookup argument contributes its terminal *)
(* (the final value of its running sum); the bus balances iff the terminals *)
(* add up to zero.                                                          *)
(*                                                                          *)
(* A statement produced by the REAL prover from a trace whose bus does not  *)
(* balance is consistent in everything else: every per-AIR constraint       *)
(* holds and the transcript is the honest one.  The terminal sum is the     *)
(* only check that can refuse it - for EVERY number of participating        *)
(* instances, one included (the loop must not be "optimised" for the case   *)
(* of a single terminal).                                                   *)
(*                                                                          *)
(* AssertFrom: the smallest number of terminals for which the circuit emits *)
(* the assertion (code: 0 - always; a deviation: 2).                        *)
(***************************************************************************)
EXTENDS Integers, Sequences, FiniteSets, TLC

CONSTANTS P, MaxInst, AssertFrom

VARIABLES terms
vars == <<terms>>
Init == terms \in UNION { [1..n -> 0..(P - 1)] : n \in 0..MaxInst }
Next == UNCHANGED vars
Spec == Init /\ [][Next]_vars

Sum(s) == LET F[i \in 0..Len(s)] == IF i = 0 THEN 0 ELSE (F[i - 1] + s[i]) % P IN F[Len(s)]
NativeAccepts == Sum(terms) = 0
CircuitSatisfied == Len(terms) >= AssertFrom => Sum(terms) = 0
Agree == NativeAccepts <=> CircuitSatisfied
=============================================================================
