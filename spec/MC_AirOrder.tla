---- MODULE MC_AirOrder ----
EXTENDS AirOrder
Types == {[cfg |-> "w16", deg |-> 4], [cfg |-> "w32", deg |-> 4], [cfg |-> "w16d1", deg |-> 1], [cfg |-> "w8", deg |-> 2]}
====
