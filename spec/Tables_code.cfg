SPECIFICATION Spec
CONSTANTS
  P = 3
  SepOutPinned = FALSE
  BoolTiesOut = TRUE
INVARIANTS
  Complete
  Sound
CHECK_DEADLOCK FALSE
