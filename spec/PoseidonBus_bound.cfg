SPECIFICATION Spec
CONSTANTS
  Design = "bound"
  Arity4 = FALSE
  FirstRowCovered = TRUE
  CompactD1 = FALSE
  MaxSponge = 3
  MaxDepth = 4
INVARIANTS
  EveryWitnessLimbBound
  EveryChainedLimbBound
  PadsAreFixed
  EveryBitBound
CHECK_DEADLOCK FALSE
