SPECIFICATION Spec
CONSTANTS
  OpTypes <- Types
  Accept = "degree"
INVARIANTS
  OrderIndependent
  EveryPresentTypeOnce
CHECK_DEADLOCK FALSE
