SPECIFICATION Spec
CONSTANTS
  P = 3
  NPUB = 4
  NPRIV = 1
  PreConsts <- PreNone
  MaxCalls = 3
  MaxConn = 2
  Kinds = {"add", "sub", "mul", "connect"}
  FixD1 = TRUE
  FixD2 = TRUE
  FixFuse = TRUE
  FixAcc = TRUE
  NoFold = FALSE
  ExtSlots <- StaleExtSlots
INVARIANTS
  TypeOK
  EmitReplay
  RunnerSelfConsistent
  BuilderSound
  FuseOrderIndependent
CONSTRAINT
  PrivDupShaped
CHECK_DEADLOCK FALSE
