SPECIFICATION Spec
CONSTANTS
  Bases <- BasesBatchShapes
  PSets <- PS1
  NSlots = {"s0"}
  ASlots = {"g0"}
  MaxBase = 2
  MaxProve = 1
  MaxParams = 0
  Ops = {"next", "agg"}
  MustFill = FALSE
  Policy = "code"
INVARIANTS
  TypeOK
  SlotsComeFromCalls
  CountersCoarser
  OutputsChain
  Emit
CHECK_DEADLOCK FALSE
