------------------------------ MODULE Packing ------------------------------
(***************************************************************************)
(* C14 - the two traversals of a proof that must agree.                    *)
(*                                                                         *)
(* recursion/src/types/proof.rs, pcs/fri/targets.rs and public_inputs.rs   *)
(* walk a statement twice: `Recursive::new` ALLOCATES one circuit input    *)
(* per element (public inputs with alloc_public_input, private inputs with *)
(* alloc_private_inputs - two independent, append-only vectors), and       *)
(* `get_values` / `get_private_values` FLATTEN the element values.  The    *)
(* i-th allocated public (private) input receives the i-th packed public   *)
(* (private) value, so both walks must visit the elements in the same      *)
(* order for EVERY shape: optional parts (preprocessed, random, permuta-   *)
(* tion), any number of instances, quotient chunks, queries, input batches *)
(* and fold phases.                                                        *)
(*                                                                         *)
(* Both walks are transcribed below as functions from a shape to a token   *)
(* sequence <<vector, kind, count>>; TLC checks their equality for every   *)
(* shape within the bounds (AllocEqualsPack), that no element is visited   *)
(* twice or skipped (EveryElementOnce) and that the lengths are the        *)
(* numbers of elements of the shape.  Trace_Packing.tla validates the      *)
(* order in which the REAL packing code lays out element kinds against     *)
(* the same order definitions.                                             *)
(***************************************************************************)
EXTENDS Naturals, Sequences, FiniteSets, TLC, PackingOrder

CONSTANTS MaxInst, MaxChunks, MaxQueries, MaxPhases, MaxBatches

Tok(v, k, n) == <<v, k, n>>
Rep(n, s) == LET R[i \in 0..n] == IF i = 0 THEN <<>> ELSE R[i - 1] \o s IN R[n]
Concat(ss) == LET R[i \in 0..Len(ss)] == IF i = 0 THEN <<>> ELSE R[i - 1] \o ss[i] IN R[Len(ss)]

\* ---- shapes ----------------------------------------------------------------------------------------------------------
Inst == [next : BOOLEAN, prep : BOOLEAN, chunks : 1..MaxChunks, perm : BOOLEAN, pv : BOOLEAN]
Shapes == [batch : BOOLEAN, zk : BOOLEAN, prepc : BOOLEAN, insts : UNION {[1..n -> Inst] : n \in 1..MaxInst},
           queries : 1..MaxQueries, phases : 1..MaxPhases, batches : 1..MaxBatches]
WellFormed(S) ==
    /\ (~S.batch) => Len(S.insts) = 1 /\ ~S.insts[1].perm             \* uni-STARK: one instance, no lookups
    /\ S.prepc = (\E i \in 1..Len(S.insts) : S.insts[i].prep)
HasPerm(S) == \E i \in 1..Len(S.insts) : S.insts[i].perm

\* ---- ALLOCATION walk (Recursive::new; builders' allocate) ------------------------------------------------------------
NewOpened(S, I) ==
    <<Tok("priv", "trace_local_opening", 1)>>
    \o (IF I.next THEN <<Tok("priv", "trace_next_opening", 1)>> ELSE <<>>)
    \o (IF I.prep THEN <<Tok("priv", "preprocessed_local_opening", 1), Tok("priv", "preprocessed_next_opening", 1)>> ELSE <<>>)
    \o Rep(I.chunks, <<Tok("priv", "quotient_chunk_opening", 1)>>)
    \o (IF S.zk THEN <<Tok("priv", "random_opening", 1)>> ELSE <<>>)
    \o (IF I.perm THEN <<Tok("priv", "permutation_local_opening", 1), Tok("priv", "permutation_next_opening", 1)>> ELSE <<>>)

NewCommitments(S) ==
    <<Tok("pub", "trace_commitment_word", 1)>>
    \o (IF HasPerm(S) THEN <<Tok("pub", "permutation_commitment_word", 1)>> ELSE <<>>)
    \o <<Tok("pub", "quotient_commitment_word", 1)>>
    \o (IF S.zk THEN <<Tok("pub", "random_commitment_word", 1)>> ELSE <<>>)

NewMmcsProof(S) == IF S.zk THEN <<Tok("priv", "fri_query_salt", 1)>> ELSE <<>>   \* sibling digests are NPO private data
NewQuery(S) ==
    Rep(S.batches, <<Tok("priv", "fri_query_opened_value", 1)>> \o NewMmcsProof(S))
    \o Rep(S.phases, <<Tok("priv", "fri_query_sibling_value", 1)>> \o NewMmcsProof(S))
NewFri(S) ==
    (IF S.zk THEN <<Tok("priv", "fri_random_opened_value", 1)>> ELSE <<>>)       \* HidingFriProofTargets: random values first
    \o Rep(S.phases, <<Tok("pub", "fri_commit_phase_word", 1)>>)
    \o Rep(S.phases, <<Tok("pub", "fri_commit_pow_witness", 1)>>)
    \o Rep(S.queries, NewQuery(S))
    \o <<Tok("pub", "fri_final_poly_coeff", 1), Tok("pub", "fri_pow_witness", 1)>>

NewWalk(S) ==
    Concat([i \in 1..Len(S.insts) |-> IF S.insts[i].pv THEN <<Tok("pub", "public_value", 1)>> ELSE <<>>])   \* builders: AIR public values first
    \o NewCommitments(S)
    \o Concat([i \in 1..Len(S.insts) |-> NewOpened(S, S.insts[i])])
    \o NewFri(S)
    \o (IF S.batch THEN Concat([i \in 1..Len(S.insts) |-> IF S.insts[i].perm THEN <<Tok("pub", "lookup_terminal", 1)>> ELSE <<>>]) ELSE <<>>)
    \o (IF S.prepc THEN <<Tok("pub", "common_preprocessed_commitment_word", 1)>> ELSE <<>>)

\* ---- PACKING walks (get_values: public; get_private_values: private) --------------------------------------------------
GetPub(S) ==
    Concat([i \in 1..Len(S.insts) |-> IF S.insts[i].pv THEN <<Tok("pub", "public_value", 1)>> ELSE <<>>])
    \o <<Tok("pub", "trace_commitment_word", 1)>>
    \o (IF HasPerm(S) THEN <<Tok("pub", "permutation_commitment_word", 1)>> ELSE <<>>)
    \o <<Tok("pub", "quotient_commitment_word", 1)>>
    \o (IF S.zk THEN <<Tok("pub", "random_commitment_word", 1)>> ELSE <<>>)
    \* opened values contribute no public value; the opening proof: commits, PoW witnesses, (queries: nothing public), final poly, PoW witness
    \o Rep(S.phases, <<Tok("pub", "fri_commit_phase_word", 1)>>)
    \o Rep(S.phases, <<Tok("pub", "fri_commit_pow_witness", 1)>>)
    \o <<Tok("pub", "fri_final_poly_coeff", 1), Tok("pub", "fri_pow_witness", 1)>>
    \o (IF S.batch THEN Concat([i \in 1..Len(S.insts) |-> IF S.insts[i].perm THEN <<Tok("pub", "lookup_terminal", 1)>> ELSE <<>>]) ELSE <<>>)
    \o (IF S.prepc THEN <<Tok("pub", "common_preprocessed_commitment_word", 1)>> ELSE <<>>)

GetOpened(S, I) ==
    <<Tok("priv", "trace_local_opening", 1)>>
    \o (IF I.next THEN <<Tok("priv", "trace_next_opening", 1)>> ELSE <<>>)
    \o (IF I.prep THEN <<Tok("priv", "preprocessed_local_opening", 1), Tok("priv", "preprocessed_next_opening", 1)>> ELSE <<>>)
    \o Rep(I.chunks, <<Tok("priv", "quotient_chunk_opening", 1)>>)
    \o (IF S.zk THEN <<Tok("priv", "random_opening", 1)>> ELSE <<>>)
    \o (IF I.perm THEN <<Tok("priv", "permutation_local_opening", 1), Tok("priv", "permutation_next_opening", 1)>> ELSE <<>>)
GetQueryPriv(S) ==
    Rep(S.batches, <<Tok("priv", "fri_query_opened_value", 1)>> \o (IF S.zk THEN <<Tok("priv", "fri_query_salt", 1)>> ELSE <<>>))
    \o Rep(S.phases, <<Tok("priv", "fri_query_sibling_value", 1)>> \o (IF S.zk THEN <<Tok("priv", "fri_query_salt", 1)>> ELSE <<>>))
GetPriv(S) ==
    Concat([i \in 1..Len(S.insts) |-> GetOpened(S, S.insts[i])])
    \o (IF S.zk THEN <<Tok("priv", "fri_random_opened_value", 1)>> ELSE <<>>)
    \o Rep(S.queries, GetQueryPriv(S))

\* ---- the machine: pick a shape, run both walks -------------------------------------------------------------------------
VARIABLES shape, phase
vars == <<shape, phase>>
Init == shape \in {S \in Shapes : WellFormed(S)} /\ phase = "chosen"
Next == phase = "chosen" /\ phase' = "walked" /\ UNCHANGED shape
Spec == Init /\ [][Next]_vars

Select(s, v) == SelectSeq(s, LAMBDA t : t[1] = v)
AllocEqualsPack ==
    /\ Select(NewWalk(shape), "pub") = GetPub(shape)
    /\ Select(NewWalk(shape), "priv") = GetPriv(shape)

\* the number of elements of a shape, counted independently of any order
Elements(S) ==
    LET I(i) == S.insts[i]
        B(b) == IF b THEN 1 ELSE 0
        perInst(i) == B(I(i).pv) + 1 + B(I(i).next) + 2 * B(I(i).prep) + I(i).chunks + B(S.zk) + 2 * B(I(i).perm) + (IF S.batch THEN B(I(i).perm) ELSE 0)
        Sum[i \in 0..Len(S.insts)] == IF i = 0 THEN 0 ELSE Sum[i - 1] + perInst(i)
    IN Sum[Len(S.insts)] + 2 + B(HasPerm(S)) + B(S.zk) + B(S.zk) + 2 * S.phases + 2
       + S.queries * ((S.batches + S.phases) * (1 + B(S.zk))) + B(S.prepc)
EveryElementOnce == Len(NewWalk(shape)) = Elements(shape) /\ Len(GetPub(shape)) + Len(GetPriv(shape)) = Elements(shape)
=============================================================================
