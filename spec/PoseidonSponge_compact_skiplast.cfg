SPECIFICATION Spec
CONSTANTS
  P = 3
  R = 2
  C = 2
  Layout = "compact"
  WrapCovered = TRUE
  CapChained = {2}
INVARIANTS
  Sound
CHECK_DEADLOCK FALSE
