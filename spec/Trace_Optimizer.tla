--------------------------- MODULE Trace_Optimizer ---------------------------
(* Trace validation of the optimizer's decisions on REAL circuits (the          *)
(* recursion verifier circuits the repository's own tests build): every          *)
(* duplicate removal and every mul-add fusion the code performs must be a step   *)
(* the sound guards of Pipeline.tla allow:                                       *)
(*   DedupStep: the removed duplicate's output slot is referenced by no op kept  *)
(*              so far, it has not been redirected before, and its canonical     *)
(*              target is not itself a redirected slot;                          *)
(*   FuseStep:  the multiplication is the only writer of its result, the result  *)
(*              has exactly one use, is no external (private) input, and the     *)
(*              multiplication precedes the addition.                            *)
EXTENDS Integers, Sequences, FiniteSets, TLC, Json, IOUtils

Rec == ndJsonDeserialize(IOEnv.TRACE)
VARIABLES l, removed, kept
tvars == <<l, removed, kept>>

TraceInit == l = 1 /\ removed = {} /\ kept = {}
IsEvent(e) == l <= Len(Rec) /\ Rec[l].ev = e /\ l' = l + 1

Begin == IsEvent("optimize_begin") /\ removed' = {} /\ kept' = {}
DedupRemove ==
    /\ IsEvent("dedup_remove")
    /\ Rec[l].referenced = FALSE
    /\ Rec[l].dup \notin removed /\ Rec[l].dup \notin kept
    /\ Rec[l].root \notin removed
    /\ Rec[l].dup # Rec[l].root
    /\ removed' = removed \cup {Rec[l].dup} /\ UNCHANGED kept
DedupKeep ==
    /\ IsEvent("dedup_keep")
    /\ Rec[l].referenced = TRUE
    /\ kept' = kept \cup {Rec[l].dup} /\ UNCHANGED removed
Fuse ==
    /\ IsEvent("fuse_candidate")
    /\ Rec[l].writers = 1 /\ Rec[l].uses = 1 /\ Rec[l].external = FALSE
    /\ Rec[l].mul_idx < Rec[l].add_idx
    /\ UNCHANGED <<removed, kept>>
TraceNext == Begin \/ DedupRemove \/ DedupKeep \/ Fuse
TraceSpec == TraceInit /\ [][TraceNext]_tvars
TraceAccepted ==
    LET d == TLCGet("stats").diameter IN
    IF d - 1 = Len(Rec) THEN TRUE
    ELSE Print(<<"TRACE REJECTED after", d - 1, "of", Len(Rec), "events; first unmatched:", Rec[d]>>, FALSE)
=============================================================================
