SPECIFICATION TraceSpec
CONSTANTS
  Policy = "code"
POSTCONDITION TraceAccepted
CHECK_DEADLOCK FALSE
