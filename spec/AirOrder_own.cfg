SPECIFICATION Spec
CONSTANTS
  OpTypes <- Types
  Accept = "own"
INVARIANTS
  OrderIndependent
  EveryPresentTypeOnce
CHECK_DEADLOCK FALSE
