------------------------------- MODULE Stark -------------------------------
(***************************************************************************)
(* C01 / C14 / C15 - the STARK verifier as a staged machine over one       *)
(* STATEMENT (proof, public values, verifying data, FRI parameters).       *)
(*                                                                         *)
(* Both verifiers (native p3-uni-stark / p3-batch-stark and the circuit    *)
(* built by recursion/src/verifier/{stark,batch_stark}.rs +                *)
(* pcs/fri/{targets,verifier}.rs) run the same script:                     *)
(*    Validate   every list of the statement has the length the AIRs, the  *)
(*               parameters and the other lists dictate                    *)
(*    Transcript observe / sample in the fixed Fiat-Shamir order           *)
(*               (types/challenges.rs StarkChallenges::allocate,           *)
(*                batch_stark.rs:522-627, fri/targets.rs:770-810)          *)
(*    Checks     commit-phase and query proof-of-work, per query the input *)
(*               Merkle openings, the fold / commit-phase openings, the    *)
(*               final polynomial, then the out-of-domain constraint       *)
(*               identity and the global lookup sum.                       *)
(* The script is a function of the configuration (`Steps`).  One element   *)
(* KIND of the statement may carry a fault (+1 on one field element /      *)
(* digest word); the machine tracks whether the transcript has absorbed it *)
(* (`tainted`) and at which check the statement is refused.  A check fails *)
(* on a fault it reads directly; a check that only sees it through the     *)
(* challenges may pass by luck (few proof-of-work bits, coinciding query   *)
(* indices) - except the algebraic checks over extension-field challenges. *)
(*                                                                         *)
(* Properties (TLC, every configuration x kind):                           *)
(*   FaultRefused      any single fault is refused                (C01)    *)
(*   EveryKindRead     every kind is read by a check directly, not only    *)
(*                     through the transcript                     (C14)    *)
(*   ObservedBeforeUse a challenge is never used before everything it must *)
(*                     depend on was observed                              *)
(*   ListsValidated    every list is validated before it is indexed or     *)
(*                     zipped                                     (C15)    *)
(* `Validation = "code"` carries the lists recursion/src does not validate *)
(* (recorded findings); `"full"` is the behaviour the property asks for.   *)
(* MC_Stark turns every behaviour into a case for `p3r stark`.             *)
(***************************************************************************)
EXTENDS Naturals, Sequences, FiniteSets, TLC

CONSTANTS Configs,        \* set of configuration records (see MC_Stark)
          Validation,     \* "code" | "full"
          UnvalidatedInCode \* set of <<proto, list, op>> the code indexes / zips without validating

Kinds == {"trace_local_opening", "trace_next_opening", "preprocessed_opening", "quotient_chunk_opening", "random_opening",
          "permutation_opening", "trace_commitment_word", "quotient_commitment_word", "permutation_commitment_word",
          "random_commitment_word", "public_value", "degree_bits", "fri_final_poly_coeff", "fri_commit_phase_word",
          "fri_query_opened_value", "fri_query_sibling_value", "fri_merkle_sibling_word", "fri_pow_witness",
          "fri_commit_pow_witness", "fri_query_salt", "fri_random_opened_value", "lookup_cumulative_sum",
          "common_preprocessed_commitment_word"}

Stages == <<"shape", "pow", "input", "commit", "final", "ood", "lookup">>
StageIx(s) == CHOOSE i \in 1..Len(Stages) : Stages[i] = s

(***************************************************************************)
(* Which kinds a configuration's statement contains.                       *)
(***************************************************************************)
Present(c, k) ==
    CASE k \in {"preprocessed_opening", "common_preprocessed_commitment_word"} -> c.prep
      [] k \in {"random_opening", "random_commitment_word", "fri_query_salt", "fri_random_opened_value"} -> c.zk
      [] k \in {"permutation_opening", "permutation_commitment_word", "lookup_cumulative_sum"} -> c.lookups
      [] k = "public_value" -> c.pubvals
      [] OTHER -> TRUE

(***************************************************************************)
(* Lists of the statement and the expectation that fixes their length.     *)
(***************************************************************************)
ListsOf(c) ==
    {"opened_values.trace_local", "opened_values.trace_next", "opened_values.quotient_chunks", "opened_values.quotient_chunks[0]",
     "fri.commit_phase_commits", "fri.commit_pow_witnesses", "fri.query_proofs", "fri.query_proofs[0].commit_phase_openings",
     "fri.query_proofs[0].input_proof", "fri.query_proofs[0].input_proof[0].opened_values",
     "fri.query_proofs[0].input_proof[0].opened_values[0]", "fri.query_proofs[0].input_proof[0].opening_proof",
     "fri.query_proofs[0].commit_phase_openings[0].sibling_values", "fri.query_proofs[0].commit_phase_openings[0].opening_proof",
     "fri.final_poly", "degree_bits"}
    \cup (IF c.prep THEN {"opened_values.preprocessed_local", "opened_values.preprocessed_next"} ELSE {})
    \cup (IF c.zk THEN {"opened_values.random", "random_opened.rounds", "random_opened[0]", "random_opened[0][0]", "random_opened[last][0]",
                         "random_opened[0][0][0]"} ELSE {})    \* HidingFriPcs: opened values of the random codewords, rounds -> matrices -> points -> values
    \cup (IF c.pubvals /\ c.proto # "tables" THEN {"public_values"} ELSE {})
    \cup (IF c.proto # "uni" THEN {"instances", "lookup_terminals", "common.lookups"} ELSE {})
    \cup (IF c.proto # "uni" /\ c.prep THEN {"common.preprocessed.instances"} ELSE {})
    \cup (IF c.lookups THEN {"opened_values.permutation_local", "commitments.permutation"} ELSE {})

\* counts and degrees of the statement (altered by +1 / -1) and the verifier's own parameters
CountsOf(c) == {"fri.query_proofs[0].commit_phase_openings[0].log_arity"}
\* optional parts of the statement: removed when present, added when absent ("toggle")
OptionalsOf(c) == {"opened_values.trace_next", "opened_values.preprocessed_local", "opened_values.preprocessed_next", "opened_values.random"}
    \cup (IF c.proto # "uni" THEN {"lookup_terminals[0]", "lookup_terminals[last]", "commitments.permutation", "commitments.random"} ELSE {})
ParamsOf(c) == {"params.log_blowup", "params.log_final_poly_len", "params.commit_pow_bits", "params.query_pow_bits"}

Validated(c, l, o) == Validation = "full" \/ <<c.proto, l, o>> \notin UnvalidatedInCode

(***************************************************************************)
(* The script.  op: "observe" (kinds absorbed), "sample", "check" (stage,  *)
(* kinds read directly, chal: reads challenges, lucky: may pass by luck    *)
(* when only the challenges are off).                                      *)
(***************************************************************************)
Obs(ks) == [op |-> "observe", kinds |-> ks]
Smp(n) == [op |-> "sample", name |-> n]
Chk(st, ks, chal, lucky) == [op |-> "check", stage |-> st, kinds |-> ks, chal |-> chal, lucky |-> lucky]
Opt(b, s) == IF b THEN s ELSE <<>>

HeaderSteps(c) ==
    IF c.proto = "uni" THEN
        <<Obs({"degree_bits"}), Obs({"trace_commitment_word"})>>
        \o Opt(c.prep, <<Obs({"common_preprocessed_commitment_word"})>>)
        \o Opt(c.pubvals, <<Obs({"public_value"})>>)
        \o <<Smp("alpha"), Obs({"quotient_commitment_word"})>>
        \o Opt(c.zk, <<Obs({"random_commitment_word"})>>)
        \o <<Smp("zeta")>>
    ELSE
        <<Obs({"degree_bits"}), Obs({"trace_commitment_word"})>>
        \o Opt(c.pubvals, <<Obs({"public_value"})>>)
        \o Opt(c.prep, <<Obs({"common_preprocessed_commitment_word"})>>)
        \o Opt(c.lookups, <<Smp("perm"), Obs({"permutation_commitment_word"}), Obs({"lookup_cumulative_sum"})>>)
        \o <<Smp("alpha"), Obs({"quotient_commitment_word"})>>
        \o Opt(c.zk, <<Obs({"random_commitment_word"})>>)
        \o <<Smp("zeta")>>

OpenedKinds(c) == {"trace_local_opening", "trace_next_opening", "quotient_chunk_opening"}
    \cup (IF c.prep THEN {"preprocessed_opening"} ELSE {})
    \cup (IF c.zk THEN {"random_opening", "fri_random_opened_value"} ELSE {})
    \cup (IF c.lookups THEN {"permutation_opening"} ELSE {})

CommitKinds(c) == {"trace_commitment_word", "quotient_commitment_word"}
    \cup (IF c.prep THEN {"common_preprocessed_commitment_word"} ELSE {})
    \cup (IF c.zk THEN {"random_commitment_word"} ELSE {})
    \cup (IF c.lookups THEN {"permutation_commitment_word"} ELSE {})

PcsSteps(c) ==
    <<Obs(OpenedKinds(c)), Smp("fri_alpha"),
      Obs({"fri_commit_phase_word"})>>
    \* check_pow_witness with zero bits neither absorbs nor checks the witness (native: check_witness returns early)
    \o Opt(c.cpow, <<Chk("pow", {"fri_commit_pow_witness"}, TRUE, TRUE)>>)
    \o <<Smp("beta"), Obs({"fri_final_poly_coeff"})>>
    \o Opt(c.qpow, <<Chk("pow", {"fri_pow_witness"}, TRUE, TRUE)>>)
    \o <<Smp("index"),
      \* input openings against the round commitments, at the sampled index
      Chk("input", {"fri_query_opened_value", "fri_merkle_sibling_word"} \cup CommitKinds(c) \cup (IF c.zk THEN {"fri_query_salt"} ELSE {}), TRUE, TRUE),
      \* reduced opening (opened values at zeta, fri alpha) folded with the siblings and betas; commit-phase openings
      Chk("commit", {"fri_query_sibling_value", "fri_merkle_sibling_word", "fri_commit_phase_word"} \cup OpenedKinds(c)
                     \cup (IF c.zk THEN {"fri_query_salt"} ELSE {}), TRUE, TRUE),
      Chk("final", {"fri_final_poly_coeff"} \cup OpenedKinds(c), TRUE, TRUE)>>

ConstraintSteps(c) ==
    <<Chk("ood", (OpenedKinds(c) \ {"fri_random_opened_value"}) \cup (IF c.pubvals THEN {"public_value"} ELSE {})
                 \cup (IF c.lookups THEN {"lookup_cumulative_sum"} ELSE {}), TRUE, FALSE)>>
    \o Opt(c.lookups, <<Chk("lookup", {"lookup_cumulative_sum"}, FALSE, FALSE)>>)

Steps(c) == HeaderSteps(c) \o PcsSteps(c) \o ConstraintSteps(c)

\* challenges and what must have been observed before they are drawn
NeededBefore(c, name) ==
    CASE name = "alpha" -> {"degree_bits", "trace_commitment_word"} \cup (IF c.pubvals THEN {"public_value"} ELSE {})
                             \cup (IF c.prep THEN {"common_preprocessed_commitment_word"} ELSE {})
                             \cup (IF c.lookups THEN {"permutation_commitment_word", "lookup_cumulative_sum"} ELSE {})
      [] name = "zeta" -> {"quotient_commitment_word"} \cup (IF c.zk THEN {"random_commitment_word"} ELSE {})
      [] name = "fri_alpha" -> OpenedKinds(c)
      [] name = "beta" -> {"fri_commit_phase_word"}
      [] name = "index" -> {"fri_final_poly_coeff", "fri_commit_phase_word"}
      [] OTHER -> {}

VARIABLES cfg, fault, home, mal, pc, observed, tainted, refusedAt, direct, validated

vars == <<cfg, fault, home, mal, pc, observed, tainted, refusedAt, direct, validated>>

(* Kinds that name elements of SEVERAL per-query proofs: a Merkle sibling word or a salt belongs either to an input    *)
(* opening or to a commit-phase opening, and only that check reads it (`home`).                                         *)
SplitKinds == {"fri_merkle_sibling_word", "fri_query_salt"}
(* The opened values at zeta enter the reduced opening of their matrix' height; it is rolled into the fold chain at     *)
(* that height, so a wrong value surfaces at a commit-phase opening or, for the shortest matrices, only at the final    *)
(* polynomial.                                                                                                          *)
Reads(s, k) == k \in s.kinds /\ (k \in SplitKinds => home = s.stage)

NoMal == <<"none", "none">>
MalOps == {"shorten", "lengthen", "empty"}

Init ==
    /\ cfg \in Configs
    /\ \/ /\ fault \in {k \in Kinds : Present(cfg, k)} \cup {"none"}
          /\ mal = NoMal
       \/ /\ fault = "none"
          /\ mal \in (ListsOf(cfg) \X MalOps) \cup (CountsOf(cfg) \X {"inc", "dec"}) \cup (OptionalsOf(cfg) \X {"toggle"})
    /\ home \in (IF fault \in SplitKinds THEN {"input", "commit"} ELSE {"any"})
    /\ pc = 0
    /\ observed = {}
    /\ tainted = FALSE
    /\ refusedAt = "none"
    /\ direct = {}
    /\ validated = {}

(* Validation: one action for the whole up-front shape pass.  degree_bits is not a list element like the others: a  *)
(* changed degree contradicts the heights the PCS derives (native: GlobalMaxHeightMismatch / *DegreeMismatch).       *)
Validate ==
    /\ pc = 0
    /\ validated' = {l \in ListsOf(cfg) : \A o \in MalOps : Validated(cfg, l, o)}
    /\ refusedAt' = IF fault = "degree_bits" \/ (mal # NoMal /\ Validated(cfg, mal[1], mal[2])) THEN "shape" ELSE "none"
    /\ pc' = 1
    /\ UNCHANGED <<cfg, fault, home, mal, observed, tainted, direct>>

Running == pc \in 1..Len(Steps(cfg)) /\ refusedAt = "none"

Step ==
    /\ Running
    /\ LET s == Steps(cfg)[pc] IN
       CASE s.op = "observe" ->
              /\ observed' = observed \cup s.kinds
              /\ tainted' = (tainted \/ fault \in s.kinds)
              /\ UNCHANGED <<refusedAt, direct>>
         [] s.op = "sample" -> UNCHANGED <<observed, tainted, refusedAt, direct>>
         [] OTHER ->
              LET reads == fault # "none" /\ Reads(s, fault)
                  sees == reads \/ (s.chal /\ tainted)
                  \* luck: the check is off only through the challenges - or it is a proof-of-work check (few bits) - or
                  \* the wrong opened value is rolled in below this fold step
                  mayBeLucky == sees /\ s.lucky /\ (~reads \/ s.stage = "pow" \/ (s.stage = "commit" /\ fault \in OpenedKinds(cfg)))
              IN /\ direct' = direct \cup s.kinds
                 /\ \/ sees /\ refusedAt' = s.stage /\ tainted' = tainted
                    \/ /\ mayBeLucky \/ ~sees
                       /\ refusedAt' = "none"
                       \* a proof-of-work witness is absorbed by its check: later challenges depend on it
                       /\ tainted' = (tainted \/ (s.stage = "pow" /\ reads))
                 /\ UNCHANGED observed
    /\ pc' = pc + 1
    /\ UNCHANGED <<cfg, fault, home, mal, validated>>

Next == Validate \/ Step
Spec == Init /\ [][Next]_vars

Done == pc > 0 /\ (refusedAt # "none" \/ pc > Len(Steps(cfg)))
Accepted == pc > Len(Steps(cfg)) /\ refusedAt = "none"

(***************************************************************************)
(* Properties                                                              *)
(***************************************************************************)
TypeOK == pc \in 0..(Len(Steps(cfg)) + 1) /\ refusedAt \in {"none"} \cup {Stages[i] : i \in 1..Len(Stages)}

\* a proof-of-work witness for zero bits is carried by the proof but read by neither verifier
Inert(c, k) == (k = "fri_commit_pow_witness" /\ ~c.cpow) \/ (k = "fri_pow_witness" /\ ~c.qpow)
\* C01: a statement with a fault is never accepted; the honest one is
FaultRefused == Accepted => ((fault = "none" \/ Inert(cfg, fault)) /\ (mal = NoMal \/ ~Validated(cfg, mal[1], mal[2])))
HonestAccepted == (Done /\ fault = "none" /\ mal = NoMal) => Accepted

\* C14: at acceptance every kind of the statement has been read by a check directly
EveryKindRead == Accepted => \A k \in Kinds : Present(cfg, k) => (k \in direct \/ k = "degree_bits" \/ Inert(cfg, k))

\* every kind enters the transcript before the query phase, except what the queries themselves carry
QueryOnly == {"fri_query_opened_value", "fri_query_sibling_value", "fri_merkle_sibling_word", "fri_pow_witness",
              "fri_commit_pow_witness", "fri_query_salt"}
EveryKindObserved == Accepted => \A k \in Kinds \ QueryOnly : Present(cfg, k) => k \in observed

\* a challenge is drawn only after everything it must bind was observed
ObservedBeforeUse ==
    \A i \in 1..Len(Steps(cfg)) : (i < pc /\ Steps(cfg)[i].op = "sample") =>
        LET before == UNION {Steps(cfg)[j].kinds : j \in {j \in 1..(i - 1) : Steps(cfg)[j].op = "observe"}}
        IN NeededBefore(cfg, Steps(cfg)[i].name) \subseteq before

\* C15: a malformed list is refused at validation, never reaches the script
ListsValidated == (pc > 0 /\ mal # NoMal) => refusedAt = "shape"
=============================================================================
