SPECIFICATION Spec
CONSTANTS
  Configs <- DesignConfigs
  Validation = "full"
  UnvalidatedInCode <- NoneUnvalidated
INVARIANTS
  TypeOK
  FaultRefused
  HonestAccepted
  EveryKindRead
  EveryKindObserved
  ObservedBeforeUse
  ListsValidated
CHECK_DEADLOCK FALSE
