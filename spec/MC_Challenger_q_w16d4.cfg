SPECIFICATION Spec
CONSTANTS
  WIDTH = 16
  RATE = 8
  D = 4
  BasePath = FALSE
  MaxOps = 4
  ObsCounts <- ObsW16
  SampCounts <- SampW16
  AllowForeign = FALSE
INVARIANTS
  TypeOK
  EmitReplay
  Agree
  Tags
CHECK_DEADLOCK FALSE
