SPECIFICATION Spec
CONSTANTS
  MaxOps = 5
  LaneSet = {1, 2}
  KSet = {2, 3}
  ResetOn = "lane0"
  BMult = "sum"
  PrivClasses = {0, 1}
INVARIANTS
  EveryOpOnce
  RowsComplete
  HornerOnLane0
  PackedWellFormed
  FirstRowIsSeparator
  AirAccIsChainAcc
  GeneratorAccIsAirAcc
  AlphaBusPreserved
  Emit
CHECK_DEADLOCK FALSE
