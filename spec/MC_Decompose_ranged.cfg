SPECIFICATION Spec
CONSTANTS
  P = 5
  NBits = 3
  BoolEnforced = TRUE
  Unchecked = {}
  RangeChecked = TRUE
INVARIANTS
  EmitReplay
CHECK_DEADLOCK FALSE
