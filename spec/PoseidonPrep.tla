----------------------------- MODULE PoseidonPrep -----------------------------
(***************************************************************************)
(* Reads of the Merkle index accumulator (`mmcs_index_sum`) by the          *)
(* Poseidon tables: what the AIR performs against what the preprocessing    *)
(* counts.                                                                  *)
(*                                                                          *)
(*   AIR (poseidon2-circuit-air/src/air.rs, eval_*_interactions): row r     *)
(*   receives the accumulator from the WitnessChecks bus with multiplicity  *)
(*   mmcs_merkle_flag(r) * new_start(next row), the next row taken          *)
(*   cyclically in the PADDED trace; `preprocessed_trace` pads to           *)
(*   max(next_power_of_two(n), min_height) rows and marks the first padding *)
(*   row as a chain start.                                                  *)
(*                                                                          *)
(*   Preprocessing (circuit-prover/src/batch_stark_prover.rs,               *)
(*   poseidon_preprocess_for_prover, phase 1): counts one read per row with *)
(*   mmcs_merkle_flag * next_new_start, where for the last row              *)
(*   next_new_start is 1 if next_power_of_two(n) > n and otherwise the      *)
(*   new_start of row 0 (wrap-around).  The count becomes the multiplicity  *)
(*   of the creator of the accumulator's slot.                              *)
(*                                                                          *)
(* C09: the creator's multiplicity equals the number of reads - here: the   *)
(* set of rows the scan counts is the set of rows at which the AIR reads.   *)
(*                                                                          *)
(* Variant: "code" | "no_wrap" (the scan forgets the wrap-around: the last  *)
(* row of an unpadded table is assumed to perform no read).                 *)
(* FirstRowStarts: the first row of a table starts a chain (what the        *)
(* builder guarantees: a chained row needs a predecessor).                  *)
(***************************************************************************)
EXTENDS Integers, Sequences, FiniteSets, TLC, Json

CONSTANTS MaxRows, MinHeights, Variant, FirstRowStarts

VARIABLES rows, minH
vars == <<rows, minH>>
Row == [mf : BOOLEAN, ns : BOOLEAN]

Init == /\ rows \in UNION { [1..n -> Row] : n \in 1..MaxRows }
        /\ minH \in MinHeights
        /\ FirstRowStarts => rows[1].ns
Next == UNCHANGED vars
Spec == Init /\ [][Next]_vars

Pows == {1, 2, 4, 8, 16, 32, 64}
NextPow2(n) == CHOOSE p \in Pows : p >= n /\ \A q \in Pows : q >= n => p <= q
Max(a, b) == IF a > b THEN a ELSE b
N == Len(rows)
Padded == Max(NextPow2(N), minH)

\* the padded preprocessed trace of the AIR
AirNs(r) == IF r <= N THEN rows[r].ns ELSE r = N + 1
AirMf(r) == r <= N /\ rows[r].mf
AirNext(r) == IF r = Padded THEN 1 ELSE r + 1
AirReads == { r \in 1..Padded : AirMf(r) /\ AirNs(AirNext(r)) }

\* phase 1 of poseidon_preprocess_for_prover
ScanHasPadding == NextPow2(N) > N
ScanNextNs(r) == IF r < N THEN rows[r + 1].ns
                 ELSE IF ScanHasPadding THEN TRUE
                 ELSE IF Variant = "no_wrap" THEN FALSE ELSE rows[1].ns
ScanReads == { r \in 1..N : rows[r].mf /\ ScanNextNs(r) }

ReadsCountedAsPerformed == ScanReads = AirReads

Case == [spec |-> "PoseidonPrep", min_height |-> minH,
         rows |-> [r \in 1..N |-> [mf |-> rows[r].mf, ns |-> rows[r].ns]],
         reads |-> Cardinality(AirReads), counted |-> Cardinality(ScanReads)]
Emit == PrintT(<<"REPLAY", ToJson(Case)>>)
=============================================================================
