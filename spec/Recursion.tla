----------------------------- MODULE Recursion -----------------------------
(***************************************************************************)
(* C17 - recursion / aggregation layers and the two preparation caches of  *)
(* recursion/src/recursion.rs.                                              *)
(*                                                                         *)
(* State: a world of proofs (`items`), cache slots the CALLER owns and     *)
(* passes to prove_next_layer (`&NextLayerPrepCache`) or to                *)
(* prove_aggregation_layer (`&mut Option<AggregationPrepCache>`), and the  *)
(* parameter set the caller currently proves with.  One action per public  *)
(* call:                                                                   *)
(*   Base      a child proof produced outside the recursion (uni or batch) *)
(*   NextPrep  build_next_layer_prep : fills a next-layer slot             *)
(*   Next      build_next_layer_circuit + prove_next_layer(prep)           *)
(*   Agg       build_and_prove_aggregation_layer(prep_cache)               *)
(*   Params    the caller switches FRI / packing parameters                *)
(*                                                                         *)
(* A verification circuit is identified by a TERM: the step kind and, per  *)
(* child, what the circuit bakes in (for a uni child its AIR incl. its     *)
(* constants and its height; for a batch child the shape of the proof =    *)
(* the circuit it proves and the parameters it was proved with).  The      *)
(* preparation stored in a slot additionally depends on the parameter set  *)
(* used to commit it.  `Key` = <<term, parameter set>>.                    *)
(*                                                                         *)
(* Policy = "code"  : what recursion.rs does.  prove_next_layer uses a     *)
(*   given prep unconditionally; the aggregation cache is used when the    *)
(*   four SIZE counters agree (modelled by `Counters`, a projection of the *)
(*   term that forgets the AIR's constants), else recomputed and replaced. *)
(* Policy = "keyed" : the behaviour the property asks for - a slot is used *)
(*   only for the key it was prepared for, else refused / recomputed.      *)
(*                                                                         *)
(* NoStaleUse (every cache use is for the key the slot was prepared for)   *)
(* is an invariant under "keyed" and is violated under "code"; both are    *)
(* run (Recursion_keyed.cfg, Recursion_code.cfg).  The enumerated call     *)
(* sequences are replayed into the real API by `p3r layers`.               *)
(***************************************************************************)
EXTENDS Naturals, Sequences, FiniteSets, TLC, RecursionCache

CONSTANTS Bases,      \* sequence of base descriptors [kind, air, k, n]
          PSets,      \* sequence of parameter-set names; PSets[1] is the initial one
          NSlots,     \* names of next-layer cache slots
          ASlots,     \* names of aggregation cache slots
          MaxBase,    \* number of Base calls
          MaxProve,   \* number of proving calls (Next / Agg)
          MaxParams,  \* number of parameter switches
          Ops,        \* subset of {"next", "agg"}
          MustFill    \* TRUE: the first proving call uses a slot (families about caching)
\* Policy ("code" | "keyed") is the constant of RecursionCache

VARIABLES items, nslot, aslot, cur, hist, stale, nprove, nparams

vars == <<items, nslot, aslot, cur, hist, stale, nprove, nparams>>

Empty == EmptySlot
NoneSlot == "none"

(***************************************************************************)
(* What a child contributes to the circuit that verifies it.               *)
(***************************************************************************)
ChildKey(it) ==
    IF it.kind = "uni" THEN <<"uni", it.air, it.k, it.n, it.pset>>
    ELSE <<"batch", it.circ, it.pset>>

(* The same with the AIR constant forgotten: two circuits that differ only *)
(* in a constant have the same witness / op / input counts.                *)
ChildCounters(it) ==
    IF it.kind = "uni" THEN <<"uni", it.air, it.n, it.pset>>
    ELSE <<"batch", it.cnt, it.pset>>

Term(op, kids) == <<op, [i \in 1..Len(kids) |-> ChildKey(items[kids[i]])]>>
(* Equal constants of two children share one entry of the builder's constant pool, so which children carry the    *)
(* same constant is visible in the counts (measured on the real code: agg(lin k, lin k) has one op less than       *)
(* agg(lin k, lin k')).                                                                                            *)
ConstPattern(kids) == {p \in (1..Len(kids)) \X (1..Len(kids)) :
                         /\ items[kids[p[1]]].kind = "uni" /\ items[kids[p[2]]].kind = "uni"
                         /\ items[kids[p[1]]].air = items[kids[p[2]]].air /\ items[kids[p[1]]].k = items[kids[p[2]]].k}
Counters(op, kids) == <<op, [i \in 1..Len(kids) |-> ChildCounters(items[kids[i]])], ConstPattern(kids)>>

Depth(kids) == 1 + (CHOOSE d \in {items[kids[i]].depth : i \in 1..Len(kids)} :
                        \A e \in {items[kids[i]].depth : i \in 1..Len(kids)} : e <= d)

Init ==
    /\ items = <<>>
    /\ nslot = [s \in NSlots |-> Empty]
    /\ aslot = [s \in ASlots |-> Empty]
    /\ cur = PSets[1]
    /\ hist = <<>>
    /\ stale = {}
    /\ nprove = 0
    /\ nparams = 0

(* Base proofs come first and in non-decreasing descriptor order (they are independent of each other). *)
Base(b) ==
    /\ Len(items) < MaxBase
    /\ nprove = 0 /\ nparams = 0
    /\ \A i \in 1..Len(items) : items[i].base <= b
    /\ LET d == Bases[b] IN
       items' = Append(items, [kind |-> d.kind, air |-> d.air, k |-> d.k, n |-> d.n, pset |-> cur, depth |-> 0,
                               circ |-> <<"base", d.air, d.k>>, cnt |-> <<"base", d.air>>, base |-> b])
    /\ hist' = Append(hist, [op |-> "base", name |-> Len(items) + 1, kind |-> Bases[b].kind, air |-> Bases[b].air, k |-> Bases[b].k, n |-> Bases[b].n])
    /\ UNCHANGED <<nslot, aslot, cur, stale, nprove, nparams>>

Output(op, kids) ==
    [kind |-> "batch", air |-> "", k |-> 0, n |-> 0, pset |-> cur, depth |-> Depth(kids),
     circ |-> Term(op, kids), cnt |-> Counters(op, kids), base |-> 0]

CanProve == Len(items) >= MaxBase /\ nprove < MaxProve

(***************************************************************************)
(* Next with slot s: the driver (like recursive_fibonacci.rs) fills an     *)
(* empty slot with build_next_layer_prep for THIS circuit and then proves  *)
(* with it; a filled slot is handed to prove_next_layer as it is.          *)
(***************************************************************************)
NextStep(i, s) ==
    /\ CanProve /\ "next" \in Ops
    /\ (MustFill /\ nprove = 0) => s # NoneSlot
    /\ i \in 1..Len(items)
    /\ LET key == <<Term("next", <<i>>), cur>>
           cnt == Counters("next", <<i>>)
           use == s # NoneSlot /\ NextUses(nslot[s], key)
           isStale == use /\ StaleUse(nslot[s], key)
       IN /\ nslot' = IF s = NoneSlot THEN nslot ELSE [nslot EXCEPT ![s] = NextSlotAfter(nslot[s], key, cnt)]
          /\ stale' = IF isStale THEN stale \cup {Len(hist) + 1} ELSE stale
          /\ hist' = Append(hist, [op |-> "next", from |-> i, name |-> Len(items) + 1, cache |-> s,
                                   m |-> [use |-> use, same |-> (~use) \/ nslot[s].key = key, stale |-> isStale]])
    /\ items' = Append(items, Output("next", <<i>>))
    /\ nprove' = nprove + 1
    /\ UNCHANGED <<aslot, cur, nparams>>

(***************************************************************************)
(* Agg with slot s: prove_aggregation_layer compares the fingerprint of    *)
(* the circuit it just built with the one in the slot; on a match the      *)
(* stored prover and prover data are used, otherwise preparation is        *)
(* recomputed and the slot replaced.                                       *)
(***************************************************************************)
AggStep(i, j, s) ==
    /\ CanProve /\ "agg" \in Ops
    /\ (MustFill /\ nprove = 0) => s # NoneSlot
    /\ i \in 1..Len(items) /\ j \in 1..Len(items)
    /\ items[i].pset = items[j].pset              \* one FriVerifierParams for both children
    /\ LET key == <<Term("agg", <<i, j>>), cur>>
           cnt == Counters("agg", <<i, j>>)
           hit == s # NoneSlot /\ AggHits(aslot[s], key, cnt)
           isStale == hit /\ StaleUse(aslot[s], key)
       IN /\ aslot' = IF s = NoneSlot THEN aslot ELSE [aslot EXCEPT ![s] = AggSlotAfter(aslot[s], key, cnt)]
          /\ stale' = IF isStale THEN stale \cup {Len(hist) + 1} ELSE stale
          /\ hist' = Append(hist, [op |-> "agg", left |-> i, right |-> j, name |-> Len(items) + 1, cache |-> s,
                                   m |-> [use |-> hit, same |-> (~hit) \/ aslot[s].key = key, stale |-> isStale]])
    /\ items' = Append(items, Output("agg", <<i, j>>))
    /\ nprove' = nprove + 1
    /\ UNCHANGED <<nslot, cur, nparams>>

Params(p) ==
    /\ Len(items) >= MaxBase /\ nparams < MaxParams /\ nprove < MaxProve
    /\ p # cur
    /\ nprove > 0                                  \* a switch before the first proving call changes nothing a cache could see
    /\ cur' = p
    /\ nparams' = nparams + 1
    /\ hist' = Append(hist, [op |-> "params", set |-> p])
    /\ UNCHANGED <<items, nslot, aslot, stale, nprove>>

Next ==
    \/ \E b \in 1..Len(Bases) : Base(b)
    \/ \E i \in 1..Len(items), s \in NSlots \cup {NoneSlot} : NextStep(i, s)
    \/ \E i, j \in 1..Len(items), s \in ASlots \cup {NoneSlot} : AggStep(i, j, s)
    \/ \E q \in 1..Len(PSets) : Params(PSets[q])

Spec == Init /\ [][Next]_vars

Done == nprove = MaxProve

(***************************************************************************)
(* Properties                                                              *)
(***************************************************************************)
TypeOK ==
    /\ nprove \in 0..MaxProve /\ nparams \in 0..MaxParams
    /\ \A s \in NSlots : nslot[s].filled \in BOOLEAN
    /\ \A s \in ASlots : aslot[s].filled \in BOOLEAN

\* the property: preparation is only ever used for the (circuit, parameters) it was made for
NoStaleUse == stale = {}

\* a slot always describes some call that was made: (term, pset) of an earlier proving step
SlotsComeFromCalls ==
    /\ \A s \in NSlots : nslot[s].filled => \E i \in 1..Len(items) : items[i].depth > 0 /\ items[i].circ = nslot[s].key[1]
    /\ \A s \in ASlots : aslot[s].filled => \E i \in 1..Len(items) : items[i].depth > 0 /\ items[i].circ = aslot[s].key[1]

\* key equality implies counter equality (the model's fingerprint is a function of the term)
CountersCoarser ==
    \A s \in ASlots : aslot[s].filled => \A i \in 1..Len(items) :
        (items[i].depth > 0 /\ items[i].circ = aslot[s].key[1]) => items[i].cnt = aslot[s].cnt

\* chaining: every output is a batch proof that later steps may consume, depth grows by one
OutputsChain == \A i \in 1..Len(items) : items[i].depth > 0 => items[i].kind = "batch"
=============================================================================
