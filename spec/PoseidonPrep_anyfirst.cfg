SPECIFICATION Spec
CONSTANTS
  MaxRows = 5
  MinHeights = {1, 8}
  Variant = "code"
  FirstRowStarts = FALSE
INVARIANTS
  ReadsCountedAsPerformed
CHECK_DEADLOCK FALSE
