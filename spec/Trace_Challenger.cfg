SPECIFICATION TraceSpec
CONSTANTS
  WIDTH = 16
  RATE = 8
  D = 1
  BasePath = FALSE
  MaxOps = 0
  ObsCounts = {1}
  SampCounts = {1}
  AllowForeign = FALSE
INVARIANTS
  TranscriptAgrees
  TagPlacement
POSTCONDITION TraceAccepted
CHECK_DEADLOCK FALSE
