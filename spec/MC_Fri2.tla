------------------------------- MODULE MC_Fri2 -------------------------------
(* a targeted family (kept apart from MC_Fri so that its explorations stay cached): fold phases of arity 8 with a shorter,     *)
(* non-trivial matrix rolled in behind them - the factor beta^(2^log_arity) of the roll-in differs from beta^(2 log_arity)   *)
(* only from log_arity = 3 on                                                                                                 *)
EXTENDS MC_Fri
A3 == {3}
B1 == {1}
F0 == {0}
PmS == {"shared"}
FaultsFew == {"none", "opened_value"}
=============================================================================
