SPECIFICATION Spec
CONSTANTS
  MaxExp = 40
  MaxLen = 4
  PeriodicShared = TRUE
INVARIANTS
  GadgetEqualsNative
  PeriodicMeansPeriodic
CHECK_DEADLOCK FALSE
