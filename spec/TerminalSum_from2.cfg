SPECIFICATION Spec
CONSTANTS
  P = 3
  MaxInst = 3
  AssertFrom = 2
INVARIANTS
  Agree
CHECK_DEADLOCK FALSE
