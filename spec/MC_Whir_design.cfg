SPECIFICATION Spec
CONSTANTS
  DropIdentity = FALSE
  Configs <- CfgAll
INVARIANTS
  FaultRefused
  HonestAccepted
  EveryKindRead
  ObservedBeforeUse
  PolyBeforeChallenge

CHECK_DEADLOCK FALSE
