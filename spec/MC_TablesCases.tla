---- MODULE MC_TablesCases ----
EXTENDS TablesCases
CfgQuick == { <<"bb", 1, 1, 2>>, <<"bb", 4, 2, 2>>, <<"kb", 5, 1, 3>>, <<"gl", 2, 3, 2>>, <<"kb", 1, 2, 4>> }
CfgThorough == { <<f, d, l, k>> : f \in {"bb", "kb"}, d \in {1, 4}, l \in 1..3, k \in 2..4 }
                \cup { <<"kb", 5, l, k>> : l \in 1..2, k \in 2..3 } \cup { <<"gl", 2, l, 2>> : l \in 1..3 } \cup { <<"bb", 8, 1, 2>> }
====
