SPECIFICATION Spec
CONSTANTS
  NConstraints = 3
  Addrs = {1, 2}
  Temporaries = FALSE
INVARIANTS
  ResultDenotesConstraint
  KeysAreAlive
CHECK_DEADLOCK FALSE
