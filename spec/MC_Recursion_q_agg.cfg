SPECIFICATION Spec
CONSTANTS
  Bases <- BasesQA
  PSets <- PS1
  NSlots = {"s0"}
  ASlots = {"g0"}
  MaxBase = 2
  MaxProve = 2
  MaxParams = 0
  Ops = {"agg"}
  MustFill = TRUE
  Policy = "code"
INVARIANTS
  TypeOK
  SlotsComeFromCalls
  CountersCoarser
  OutputsChain
  Emit
CHECK_DEADLOCK FALSE
