SPECIFICATION CaseSpec
CONSTANTS
  P = 7
  A = 2
  BoolOn = "bit2"
  Chunks = {0, 1}
  StartPinned = FALSE
INVARIANTS
  EmitCases
CHECK_DEADLOCK FALSE
