------------------------------- MODULE Gadgets -------------------------------
(***************************************************************************)
(* Arithmetic gadgets of the in-circuit verifier, transcribed over GF(17)    *)
(* (two-adicity 4, generator 3 of the full multiplicative group) next to the *)
(* native definitions, for every input:                                      *)
(*   ExpConst    circuit_exp_by_constant: MSB-first square-and-multiply      *)
(*   EvalPoly    evaluate_polynomial: a Horner chain of horner_acc_step      *)
(*   FinalPoint  compute_final_query_point: product of selected powers       *)
(*               g^(2^j) over the reversed remaining index bits              *)
(*   Vanishing   (x/shift)^(2^log_n) - 1 by repeated squaring                *)
(*   Selectors   is_first_row / is_last_row / is_transition / inv_vanishing  *)
(*   Periodic    evaluate_periodic_columns_circuit: per column, build-time   *)
(*               coefficients (inverse coset DFT), folds = log_n - log_period *)
(*               squarings of the point, Horner - for a LIST of columns       *)
(* The case machine picks a gadget and its parameters; the invariant compares *)
(* the transcribed algorithm with the mathematical definition.               *)
(***************************************************************************)
EXTENDS Integers, Sequences, FiniteSets, TLC

P == 17
GEN == 3                       \* generator of GF(17)*: order 16
GF == 0 .. P - 1
M(x) == x % P
RECURSIVE Pow(_, _)
Pow(b, e) == IF e = 0 THEN 1 ELSE M(b * Pow(b, e - 1))
Inv(a) == Pow(a, P - 2)        \* Fermat; Inv(0) = 0 is never used
TwoAdicGen(k) == Pow(GEN, 16 \div (2 ^ k))    \* generator of the subgroup of order 2^k

CONSTANTS MaxExp, MaxLen,
          PeriodicShared   \* FALSE = the code (every column squares the point itself); TRUE = squarings carried over between columns

VARIABLES g, args
vars == <<g, args>>

NumBits(n) == LET RECURSIVE B(_) B(k) == IF 2 ^ k > n THEN k ELSE B(k + 1) IN B(0)
Bit(n, i) == (n \div (2 ^ i)) % 2

\* --- circuit_exp_by_constant(base, n), n >= 1 -------------------------------------------------
ExpConst(base, n) ==
    IF n = 1 THEN base
    ELSE LET nb == NumBits(n)
             RECURSIVE Loop(_, _)
             Loop(i, res) ==        \* i runs from nb-2 down to 0
                 IF i < 0 THEN res
                 ELSE LET sq == M(res * res)
                          r2 == IF Bit(n, i) = 1 THEN M(sq * base) ELSE sq
                      IN Loop(i - 1, r2)
         IN Loop(nb - 2, base)

\* --- evaluate_polynomial(coeffs, x): result = result * x + coeff, high to low -----------------------
EvalPoly(coeffs, x) ==
    IF Len(coeffs) = 1 THEN coeffs[1]
    ELSE LET RECURSIVE H(_, _)
             H(i, res) == IF i = 0 THEN res ELSE H(i - 1, M(res * x + coeffs[i]))
         IN H(Len(coeffs), 0)
NativeEval(coeffs, x) ==
    LET RECURSIVE S(_) S(i) == IF i > Len(coeffs) THEN 0 ELSE M(coeffs[i] * Pow(x, i - 1) + S(i + 1)) IN S(1)

\* --- compute_final_query_point ---------------------------------------------------------------------
\* index bits little-endian; consumed low bits dropped; remaining bits reversed and padded in front with
\* `consumed` zeros; multiplied against powers g^(2^j), g = two-adic generator of log_max_height
FinalPoint(index, lmh, consumed) ==
    LET bits == [j \in 0..(lmh - 1) |-> Bit(index, j)]
        remaining == lmh - consumed
        \* reversed_bits[j] for j in 0..lmh-1
        rb(j) == IF j < consumed THEN 0 ELSE bits[(lmh - 1) - (j - consumed)]
        RECURSIVE Prod(_, _)
        Prod(j, acc) == IF j >= lmh THEN acc
                        ELSE Prod(j + 1, IF rb(j) = 1 THEN M(acc * Pow(TwoAdicGen(lmh), 2 ^ j)) ELSE acc)
    IN Prod(0, 1)
RevBits(v, n) == LET RECURSIVE R(_) R(i) == IF i >= n THEN 0 ELSE Bit(v, i) * (2 ^ (n - 1 - i)) + R(i + 1) IN R(0)
NativeFinalPoint(index, lmh, consumed) == Pow(TwoAdicGen(lmh), RevBits(index \div (2 ^ consumed), lmh))

\* --- vanishing polynomial and selectors of the coset shift * <g_n> at a point ---------------------------
Vanishing(x, logn, shift) ==
    LET u == M(x * Inv(shift))
        RECURSIVE Sq(_, _) Sq(k, v) == IF k = 0 THEN v ELSE Sq(k - 1, M(v * v))
    IN M(Sq(logn, u) + P - 1)
NativeVanishing(x, logn, shift) == M(Pow(M(x * Inv(shift)), 2 ^ logn) + P - 1)
\* the product over the domain, the definition the closed form stands for
DomainVanishing(x, logn, shift) ==
    LET RECURSIVE Pr(_) Pr(i) == IF i >= 2 ^ logn THEN 1 ELSE M((x + P - M(shift * Pow(TwoAdicGen(logn), i))) * Pr(i + 1)) IN Pr(0)

\* --- periodic columns (recursion/src/verifier/periodic.rs) -----------------------------------------------------------
Log2(n) == CHOOSE k \in 0..4 : 2 ^ k = n
SqN(k, v) == LET RECURSIVE Sq(_, _) Sq(i, w) == IF i = 0 THEN w ELSE Sq(i - 1, M(w * w)) IN Sq(k, v)
SumTo(n, f(_)) == LET RECURSIVE S(_) S(i) == IF i > n THEN 0 ELSE M(f(i) + S(i + 1)) IN S(1)
\* monomial coefficients (ascending) of the interpolant of col over subshift * <h>, h of order Len(col): inverse coset DFT
PCoeffs(col, ss) ==
    LET per == Len(col)
        h == TwoAdicGen(Log2(per))
        pt(j) == M(ss * Pow(h, j - 1))
    IN [i \in 1..per |-> M(Inv(per % P) * SumTo(per, LAMBDA j : M(col[j] * Pow(Inv(pt(j)), i - 1))))]
\* Horner from the leading coefficient down, at zp
PHorner(cs, zp) == LET RECURSIVE H(_, _) H(i, acc) == IF i = 0 THEN acc ELSE H(i - 1, M(acc * zp + cs[i])) IN H(Len(cs) - 1, cs[Len(cs)])
\* the list of columns; `done` = squarings already applied to the carried point (only used when PeriodicShared)
PeriodicCols(cols, logn, shift, z) ==
    LET RECURSIVE Go(_, _, _, _)
        Go(i, done, carried, acc) ==
            IF i > Len(cols) THEN acc
            ELSE LET col == cols[i]
                     folds == logn - Log2(Len(col))
                     cs == PCoeffs(col, Pow(shift, 2 ^ folds))
                 IN IF Len(col) = 1 THEN Go(i + 1, done, carried, Append(acc, cs[1]))     \* constant column: the point is not touched
                    ELSE IF ~PeriodicShared THEN Go(i + 1, done, carried, Append(acc, PHorner(cs, SqN(folds, z))))
                    ELSE LET extra == IF folds > done THEN folds - done ELSE 0
                             zp == SqN(extra, carried)
                         IN Go(i + 1, IF folds > done THEN folds ELSE done, zp, Append(acc, PHorner(cs, zp)))
    IN Go(1, 0, z, <<>>)
\* native definition: Lagrange interpolation over the sub-coset, at z^(2^folds)
NativePeriodic(col, logn, shift, z) ==
    LET per == Len(col)
        folds == logn - Log2(per)
        ss == Pow(shift, 2 ^ folds)
        h == TwoAdicGen(Log2(per))
        pt(j) == M(ss * Pow(h, j - 1))
        zp == Pow(z, 2 ^ folds)
        RECURSIVE Num(_, _) Num(j, k) == IF k > per THEN 1 ELSE M((IF k = j THEN 1 ELSE M(zp + P - pt(k))) * Num(j, k + 1))
        RECURSIVE Den(_, _) Den(j, k) == IF k > per THEN 1 ELSE M((IF k = j THEN 1 ELSE M(pt(j) + P - pt(k))) * Den(j, k + 1))
    IN SumTo(per, LAMBDA j : M(col[j] * M(Num(j, 1) * Inv(Den(j, 1)))))
\* what "periodic" means: on row r of the trace domain the column takes col[r mod period]
OnDomain(col, logn, shift, r) == NativePeriodic(col, logn, shift, M(shift * Pow(TwoAdicGen(logn), r))) = col[(r % Len(col)) + 1]
PCols1 == {<<0>>, <<5>>}
PCols2 == {<<0, 1>>, <<5, 5>>, <<1, 16>>, <<3, 0>>}
PCols4 == {<<0, 1, 5, 0>>, <<1, 0, 0, 0>>, <<5, 1, 0, 1>>, <<2, 2, 2, 2>>}
PCols8 == {<<1, 0, 0, 0, 0, 0, 0, 0>>, <<0, 1, 2, 3, 4, 5, 6, 7>>}
PColsUpTo(logn) == PCols1 \cup (IF logn >= 1 THEN PCols2 ELSE {}) \cup (IF logn >= 2 THEN PCols4 ELSE {}) \cup (IF logn >= 3 THEN PCols8 ELSE {})

Init == g = "none" /\ args = <<>>
\* two steps so that TLC spreads the column lists over its workers
PickPeriodicParams == g = "none" /\ \E logn \in 0..3, k \in 1..3, z \in {0, 3, 11}, s \in {1, 3} : g' = "periodic_params" /\ args' = <<logn, k, s, z>>
PickPeriodic == g = "periodic_params" /\ \E cols \in [1..args[2] -> PColsUpTo(args[1])] : g' = "periodic" /\ args' = <<cols, args[1], args[3], args[4]>>
PickExp  == g = "none" /\ \E b \in GF, n \in 1..MaxExp : g' = "exp_const" /\ args' = <<b, n>>
PickPoly == g = "none" /\ \E len \in 1..MaxLen : \E cs \in [1..len -> {0, 1, 5, 16}], x \in {0, 1, 3, 11} : g' = "eval_poly" /\ args' = <<cs, x>>
PickFinal == g = "none" /\ \E lmh \in 1..4 : \E c \in 0..lmh, idx \in 0..(2 ^ lmh - 1) : g' = "final_query_point" /\ args' = <<idx, lmh, c>>
PickVan == g = "none" /\ \E logn \in 0..4, x \in GF, s \in {1, 3} : g' = "vanishing" /\ args' = <<x, logn, s>>
Next == PickExp \/ PickPoly \/ PickFinal \/ PickVan \/ PickPeriodicParams \/ PickPeriodic
Spec == Init /\ [][Next]_vars

GadgetEqualsNative ==
    /\ g = "exp_const" => ExpConst(args[1], args[2]) = Pow(args[1], args[2])
    /\ g = "eval_poly" => EvalPoly(args[1], args[2]) = NativeEval(args[1], args[2])
    /\ g = "final_query_point" => FinalPoint(args[1], args[2], args[3]) = NativeFinalPoint(args[1], args[2], args[3])
    /\ g = "vanishing" => /\ Vanishing(args[1], args[2], args[3]) = NativeVanishing(args[1], args[2], args[3])
                          \* the closed form is the product over the coset, normalised by shift^n
                          /\ Vanishing(args[1], args[2], args[3]) = M(DomainVanishing(args[1], args[2], args[3]) * Inv(Pow(args[3], 2 ^ args[2])))
    /\ g = "periodic" => LET out == PeriodicCols(args[1], args[2], args[3], args[4]) IN
                            /\ Len(out) = Len(args[1])
                            /\ \A i \in 1..Len(args[1]) : out[i] = NativePeriodic(args[1][i], args[2], args[3], args[4])
\* the native definition is the periodic extension of the column over the trace domain
PeriodicMeansPeriodic ==
    g = "periodic" => \A i \in 1..Len(args[1]) : \A r \in 0..(2 ^ args[2] - 1) : OnDomain(args[1][i], args[2], args[3], r)
=============================================================================
