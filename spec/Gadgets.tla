------------------------------- MODULE Gadgets -------------------------------
(***************************************************************************)
(* Arithmetic gadgets of the in-circuit verifier, transcribed over GF(17)    *)
(* (two-adicity 4, generator 3 of the full multiplicative group) next to the *)
(* native definitions, for every input:                                      *)
(*   ExpConst    circuit_exp_by_constant: MSB-first square-and-multiply      *)
(*   EvalPoly    evaluate_polynomial: a Horner chain of horner_acc_step      *)
(*   FinalPoint  compute_final_query_point: product of selected powers       *)
(*               g^(2^j) over the reversed remaining index bits              *)
(*   Vanishing   (x/shift)^(2^log_n) - 1 by repeated squaring                *)
(*   Selectors   is_first_row / is_last_row / is_transition / inv_vanishing  *)
(* The case machine picks a gadget and its parameters; the invariant compares *)
(* the transcribed algorithm with the mathematical definition.               *)
(***************************************************************************)
EXTENDS Integers, Sequences, FiniteSets, TLC

P == 17
GEN == 3                       \* generator of GF(17)*: order 16
GF == 0 .. P - 1
M(x) == x % P
RECURSIVE Pow(_, _)
Pow(b, e) == IF e = 0 THEN 1 ELSE M(b * Pow(b, e - 1))
Inv(a) == CHOOSE x \in GF : M(a * x) = 1
TwoAdicGen(k) == Pow(GEN, 16 \div (2 ^ k))    \* generator of the subgroup of order 2^k

CONSTANTS MaxExp, MaxLen

VARIABLES g, args
vars == <<g, args>>

NumBits(n) == LET RECURSIVE B(_) B(k) == IF 2 ^ k > n THEN k ELSE B(k + 1) IN B(0)
Bit(n, i) == (n \div (2 ^ i)) % 2

\* --- circuit_exp_by_constant(base, n), n >= 1 -------------------------------------------------
ExpConst(base, n) ==
    IF n = 1 THEN base
    ELSE LET nb == NumBits(n)
             RECURSIVE Loop(_, _)
             Loop(i, res) ==        \* i runs from nb-2 down to 0
                 IF i < 0 THEN res
                 ELSE LET sq == M(res * res)
                          r2 == IF Bit(n, i) = 1 THEN M(sq * base) ELSE sq
                      IN Loop(i - 1, r2)
         IN Loop(nb - 2, base)

\* --- evaluate_polynomial(coeffs, x): result = result * x + coeff, high to low -----------------------
EvalPoly(coeffs, x) ==
    IF Len(coeffs) = 1 THEN coeffs[1]
    ELSE LET RECURSIVE H(_, _)
             H(i, res) == IF i = 0 THEN res ELSE H(i - 1, M(res * x + coeffs[i]))
         IN H(Len(coeffs), 0)
NativeEval(coeffs, x) ==
    LET RECURSIVE S(_) S(i) == IF i > Len(coeffs) THEN 0 ELSE M(coeffs[i] * Pow(x, i - 1) + S(i + 1)) IN S(1)

\* --- compute_final_query_point ---------------------------------------------------------------------
\* index bits little-endian; consumed low bits dropped; remaining bits reversed and padded in front with
\* `consumed` zeros; multiplied against powers g^(2^j), g = two-adic generator of log_max_height
FinalPoint(index, lmh, consumed) ==
    LET bits == [j \in 0..(lmh - 1) |-> Bit(index, j)]
        remaining == lmh - consumed
        \* reversed_bits[j] for j in 0..lmh-1
        rb(j) == IF j < consumed THEN 0 ELSE bits[(lmh - 1) - (j - consumed)]
        RECURSIVE Prod(_, _)
        Prod(j, acc) == IF j >= lmh THEN acc
                        ELSE Prod(j + 1, IF rb(j) = 1 THEN M(acc * Pow(TwoAdicGen(lmh), 2 ^ j)) ELSE acc)
    IN Prod(0, 1)
RevBits(v, n) == LET RECURSIVE R(_) R(i) == IF i >= n THEN 0 ELSE Bit(v, i) * (2 ^ (n - 1 - i)) + R(i + 1) IN R(0)
NativeFinalPoint(index, lmh, consumed) == Pow(TwoAdicGen(lmh), RevBits(index \div (2 ^ consumed), lmh))

\* --- vanishing polynomial and selectors of the coset shift * <g_n> at a point ---------------------------
Vanishing(x, logn, shift) ==
    LET u == M(x * Inv(shift))
        RECURSIVE Sq(_, _) Sq(k, v) == IF k = 0 THEN v ELSE Sq(k - 1, M(v * v))
    IN M(Sq(logn, u) + P - 1)
NativeVanishing(x, logn, shift) == M(Pow(M(x * Inv(shift)), 2 ^ logn) + P - 1)
\* the product over the domain, the definition the closed form stands for
DomainVanishing(x, logn, shift) ==
    LET RECURSIVE Pr(_) Pr(i) == IF i >= 2 ^ logn THEN 1 ELSE M((x + P - M(shift * Pow(TwoAdicGen(logn), i))) * Pr(i + 1)) IN Pr(0)

Init == g = "none" /\ args = <<>>
PickExp  == g = "none" /\ \E b \in GF, n \in 1..MaxExp : g' = "exp_const" /\ args' = <<b, n>>
PickPoly == g = "none" /\ \E len \in 1..MaxLen : \E cs \in [1..len -> {0, 1, 5, 16}], x \in {0, 1, 3, 11} : g' = "eval_poly" /\ args' = <<cs, x>>
PickFinal == g = "none" /\ \E lmh \in 1..4 : \E c \in 0..lmh, idx \in 0..(2 ^ lmh - 1) : g' = "final_query_point" /\ args' = <<idx, lmh, c>>
PickVan == g = "none" /\ \E logn \in 0..4, x \in GF, s \in {1, 3} : g' = "vanishing" /\ args' = <<x, logn, s>>
Next == PickExp \/ PickPoly \/ PickFinal \/ PickVan
Spec == Init /\ [][Next]_vars

GadgetEqualsNative ==
    /\ g = "exp_const" => ExpConst(args[1], args[2]) = Pow(args[1], args[2])
    /\ g = "eval_poly" => EvalPoly(args[1], args[2]) = NativeEval(args[1], args[2])
    /\ g = "final_query_point" => FinalPoint(args[1], args[2], args[3]) = NativeFinalPoint(args[1], args[2], args[3])
    /\ g = "vanishing" => /\ Vanishing(args[1], args[2], args[3]) = NativeVanishing(args[1], args[2], args[3])
                          \* the closed form is the product over the coset, normalised by shift^n
                          /\ Vanishing(args[1], args[2], args[3]) = M(DomainVanishing(args[1], args[2], args[3]) * Inv(Pow(args[3], 2 ^ args[2])))
=============================================================================
