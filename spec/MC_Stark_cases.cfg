SPECIFICATION Spec
CONSTANTS
  Configs <- DriverConfigs
  Validation = "code"
  UnvalidatedInCode <- Unvalidated
INVARIANTS
  TypeOK
  HonestAccepted
  EveryKindRead
  EveryKindObserved
  ObservedBeforeUse
  Emit
  EmitPerConfig
CHECK_DEADLOCK FALSE
