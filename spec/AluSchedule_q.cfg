SPECIFICATION Spec
CONSTANTS
  MaxOps = 6
  LaneSet = {1, 2, 3}
  KSet = {2, 3, 4}
  ResetOn = "lane0"
  BMult = "sum"
  PrivClasses = {}
INVARIANTS
  EveryOpOnce
  RowsComplete
  HornerOnLane0
  PackedWellFormed
  FirstRowIsSeparator
  AirAccIsChainAcc
  GeneratorAccIsAirAcc
  AlphaBusPreserved
  Emit
CHECK_DEADLOCK FALSE
