------------------------------ MODULE AirOrder ------------------------------
(***************************************************************************)
(* C18 - the order of the non-primitive tables in the verifying data       *)
(* (circuit-prover/src/common.rs get_airs_and_degrees_with_prep, last      *)
(* loop).  The AIR builders are walked in registration order; for each,    *)
(* the map of non-primitive preprocessed data - an unordered hash map with *)
(* a per-instance seed - is walked in ITS order and the first entry the    *)
(* builder accepts (`try_build` returns Some) becomes the next table.      *)
(* The hash order is a nondeterministic choice here (every permutation of  *)
(* the op types present); the table list must not depend on it.  That is   *)
(* so exactly when no builder accepts two of the op types present:         *)
(*   Accept = "own"    the code: a builder accepts the op type of its own  *)
(*                     configuration only                                  *)
(*   Accept = "degree" a builder accepts every op type of its extension    *)
(*                     degree (checks the degree, not the configuration)   *)
(***************************************************************************)
EXTENDS Naturals, Sequences, FiniteSets, TLC

CONSTANTS OpTypes,     \* op types that can occur: records [cfg, deg]
          Accept

VARIABLES builders,    \* registered builders, a sequence of op types (one builder per configuration)
          present,     \* op types with preprocessed data in this circuit
          order,       \* the hash map's iteration order: a permutation of `present`
          phase
vars == <<builders, present, order, phase>>

Accepts(b, t) == IF Accept = "own" THEN b = t ELSE b.deg = t.deg
Perms(S) == {s \in [1..Cardinality(S) -> S] : \A i, j \in 1..Cardinality(S) : i # j => s[i] # s[j]}
\* the table list for one iteration order: per builder, the first accepted entry (none: the builder contributes no table)
FirstAccepted(b, ord) ==
    LET idx == {i \in 1..Len(ord) : Accepts(b, ord[i])}
    IN IF idx = {} THEN <<>> ELSE <<ord[CHOOSE i \in idx : \A j \in idx : i <= j]>>
Tables(ord) ==
    LET RECURSIVE T(_) T(k) == IF k > Len(builders) THEN <<>> ELSE FirstAccepted(builders[k], ord) \o T(k + 1) IN T(1)

Init == /\ builders \in UNION {Perms(S) : S \in SUBSET OpTypes}
        /\ present \in SUBSET OpTypes
        /\ order \in Perms(present)
        /\ phase = "built"
Next == UNCHANGED vars
Spec == Init /\ [][Next]_vars

\* C18: every iteration order of the hash map gives the table list this one gave
OrderIndependent == \A o \in Perms(present) : Tables(o) = Tables(order)
\* and every op type present whose builder is registered gets exactly one table
EveryPresentTypeOnce ==
    \A t \in present : (\E k \in 1..Len(builders) : builders[k] = t) =>
        Cardinality({i \in 1..Len(Tables(order)) : Tables(order)[i] = t}) = 1
=============================================================================
