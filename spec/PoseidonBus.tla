----------------------------- MODULE PoseidonBus -----------------------------
(***************************************************************************)
(* C04 for the Poseidon2 table: which cells of a Merkle-opening            *)
(* verification (leaf hash by a sponge, then one compression row per tree  *)
(* level, shorter matrices injected on the way) are tied to the rest of    *)
(* the circuit by the AIR and the WitnessChecks bus.                       *)
(*                                                                         *)
(* A row has input limbs; a limb is                                        *)
(*   "witness"  fed from a witness slot (leaf values, the leaf digest      *)
(*              entering the first Merkle row, an injected digest)         *)
(*   "chained"  the previous row's output (sponge continuation / the path) *)
(*   "sibling"  private data (free by design)                              *)
(*   "pad"      not provided on a chain start (must be zero / the tag)     *)
(* and is BOUND when the AIR has a constraint or a bus interaction for it: *)
(*   bus    poseidon2-circuit-air lookups: multiplicity in_ctl * (1 -      *)
(*          merkle_path) for arity-2 shapes, bare in_ctl for arity-4       *)
(*   chain  next_in = local_out under normal_chain_sel / merkle_chain_sel  *)
(*          = !new_start && !in_ctl (&& merkle_path for the path)          *)
(*   zero   compact D=1 layout only: capacity of a sponge chain start,     *)
(*          stated on the next row of a window (FirstRowCovered)           *)
(* The direction bit of a Merkle row is bound by the index accumulator     *)
(* exposure (arity 2: `mmcs_index_sum`, enabled only if the caller passes  *)
(* a target - recursion/src/pcs/mmcs.rs never does) or by a per-bit lookup *)
(* (arity 4).                                                              *)
(*                                                                         *)
(* EveryWitnessLimbBound / EveryBitBound / PadsAreFixed hold for           *)
(* Design = "bound" and are violated for Design = "code" in the arity-2    *)
(* extension-field layout - the three recorded findings, reproduced on the *)
(* real prover and verifier by `p3r npo-cells`.                            *)
(***************************************************************************)
EXTENDS Naturals, Sequences, FiniteSets, TLC

CONSTANTS Design,      \* "code" | "bound"
          Arity4,      \* BOOLEAN
          CompactD1,   \* BOOLEAN: the D = 1 width-16 layout (capacity zero-asserted on chain starts)
          FirstRowCovered,  \* BOOLEAN: the zero assertion of a chain start is a constraint on the NEXT row of a window; it
                            \* reaches the first row of the table only through the wrap-around from the last row (TRUE
                            \* since /repo 5fca03e; before, it was gated on is_transition and row 1 was exempt)
          MaxSponge, MaxDepth

VARIABLES rows, phase
vars == <<rows, phase>>

Limb(role, inctl) == [role |-> role, in_ctl |-> inctl]
Row(kind, ns, limbs, bitsrc) == [kind |-> kind, new_start |-> ns, limbs |-> limbs, accumulator_exposed |-> bitsrc]

\* leaf hash: k sponge rows; the first is a chain start with one witness limb and pads, the others absorb a witness limb
\* and chain the rest
SpongeRows(k) ==
    [i \in 1..k |-> IF i = 1 THEN Row("sponge", TRUE, <<Limb("witness", TRUE), Limb("pad", FALSE), Limb("pad", FALSE), Limb("pad", FALSE)>>, FALSE)
                    ELSE Row("sponge", FALSE, <<Limb("witness", TRUE), Limb("chained", FALSE), Limb("chained", FALSE), Limb("chained", FALSE)>>, FALSE)]
\* path: the first Merkle row takes the leaf digest from the witness (two limbs) and the sibling as private data; the
\* following rows chain the digest; `inj` = the level at which a shorter matrix' digest is injected (0 = none)
MerkleRows(d, inj, exposeIndex) ==
    [i \in 1..d |->
        IF i = 1 THEN Row("merkle", TRUE, <<Limb("witness", TRUE), Limb("witness", TRUE), Limb("sibling", FALSE), Limb("sibling", FALSE)>>, exposeIndex /\ i = d)
        ELSE IF i = inj THEN Row("merkle", FALSE, <<Limb("chained", FALSE), Limb("chained", FALSE), Limb("witness", TRUE), Limb("witness", TRUE)>>, exposeIndex /\ i = d)
        ELSE Row("merkle", FALSE, <<Limb("chained", FALSE), Limb("chained", FALSE), Limb("sibling", FALSE), Limb("sibling", FALSE)>>, exposeIndex /\ i = d)]

Init ==
    /\ \E k \in 1..MaxSponge, d \in 1..MaxDepth, inj \in {0} \cup 2..MaxDepth :
          \* recursion/src/pcs/mmcs.rs passes mmcs_index_sum: None on every call: the exposure is never enabled by the code
          rows = SpongeRows(k) \o MerkleRows(d, IF inj <= d THEN inj ELSE 0, Design = "bound")
    /\ phase = "built"
Next == phase = "built" /\ phase' = "judged" /\ UNCHANGED rows
Spec == Init /\ [][Next]_vars

BusSends(r, l) ==
    IF Design = "bound" THEN l.in_ctl
    ELSE l.in_ctl /\ (Arity4 \/ r.kind # "merkle")
Chains(r, l) == ~r.new_start /\ ~l.in_ctl
ZeroAsserted(i, r, l) == l.role = "pad" /\ r.new_start /\ r.kind = "sponge" /\ ((CompactD1 /\ (i > 1 \/ FirstRowCovered)) \/ Design = "bound")

EveryWitnessLimbBound ==
    \A i \in 1..Len(rows) : \A j \in 1..Len(rows[i].limbs) :
        rows[i].limbs[j].role = "witness" => BusSends(rows[i], rows[i].limbs[j])
EveryChainedLimbBound ==
    \A i \in 1..Len(rows) : \A j \in 1..Len(rows[i].limbs) :
        rows[i].limbs[j].role = "chained" => Chains(rows[i], rows[i].limbs[j])
PadsAreFixed ==
    \A i \in 1..Len(rows) : \A j \in 1..Len(rows[i].limbs) :
        rows[i].limbs[j].role = "pad" => ZeroAsserted(i, rows[i], rows[i].limbs[j])
\* the direction bits of a path are bound when the accumulator is exposed at its last row (arity 2) or per bit (arity 4)
EveryBitBound ==
    LET M == {i \in 1..Len(rows) : rows[i].kind = "merkle"} IN
    M # {} => (Arity4 \/ rows[CHOOSE i \in M : \A j \in M : j <= i].accumulator_exposed)
=============================================================================
