SPECIFICATION Spec
CONSTANTS
  P = 3
  SepOutPinned = TRUE
  BoolTiesOut = TRUE
INVARIANTS
  Complete
  Sound
CHECK_DEADLOCK FALSE
