SPECIFICATION Spec
CONSTANTS
  WIDTH = 4
  RATE = 2
  D = 2
  BasePath = FALSE
  MaxOps = 7
  ObsCounts <- ObsW4
  SampCounts <- SampW4
  AllowForeign = FALSE
INVARIANTS
  TypeOK
  EmitReplay
  Agree
  Tags
CHECK_DEADLOCK FALSE
