---------------------------- MODULE MC_Symbolic ----------------------------
EXTENDS Symbolic, Json
LkQ == {"main0", "main1", "public", "const", "is_first_row"}
LkT == {"main0", "main1", "prep0", "public", "const", "is_first_row", "is_last_row", "is_transition"}
NodeJson(i) == LET n == dag[i] IN
    CASE n.k = "main0" -> [k |-> "var", entry |-> "main", offset |-> 0, index |-> i % 3]
      [] n.k = "main1" -> [k |-> "var", entry |-> "main", offset |-> 1, index |-> i % 3]
      [] n.k = "prep0" -> [k |-> "var", entry |-> "preprocessed", offset |-> 0, index |-> i % 2]
      [] n.k = "public" -> [k |-> "var", entry |-> "public", index |-> i % 2]
      [] n.k = "const" -> [k |-> "const", v |-> i + 1]
      [] n.k \in {"is_first_row", "is_last_row", "is_transition"} -> [k |-> n.k]
      [] n.k = "neg" -> [k |-> "neg", x |-> n.x - 1]
      [] OTHER -> [k |-> n.k, l |-> n.x - 1, r |-> n.y - 1]
Shared == \E i \in 1..Len(dag) : Cardinality({ j \in 1..Len(dag) : dag[j].x = i }) + Cardinality({ j \in 1..Len(dag) : dag[j].y = i /\ ~IsLeaf(dag[j]) /\ dag[j].k # "neg" }) > 1
Case(ext) == [spec |-> "Symbolic", kind |-> "dag", ext |-> ext, nodes |-> [i \in 1..Len(dag) |-> NodeJson(i)], root |-> root - 1,
              model |-> [inner |-> Cardinality(InnerNodes), shared |-> Shared]]
\* AIR-level cases: the folded constraint circuit of whole AIRs (Fold.tla is the model of the folding order)
Airs == {"fibonacci", "mul_deg2", "mul_deg3", "const_d1", "const_d4", "public_d1_l1", "public_d1_l4", "public_d4_l2",
         "alu_d1_l1", "alu_d1_l2_k3", "alu_d1_l4", "alu_d4_l1", "alu_d4_l2_k3", "recompose_d4", "recompose_d4_coeff_lookups",
         "circuit_tables_d1", "circuit_tables_d4", "poseidon2_bb_d4_w16", "poseidon2_bb_d1_w16",
         "harness_periodic", "harness_lookups", "harness_order_bbee", "harness_order_ebeb", "harness_order_eb",
         \* extension constraints that are lifted base expressions (several per AIR: they share the base-expression cache)
         "harness_order_ll", "harness_order_lbl", "harness_order_lell"}
EmitAirs == (phase = "build" /\ dag = <<>>) => \A a \in Airs : PrintT(<<"REPLAY", ToJson([spec |-> "Symbolic", kind |-> "air", air |-> a])>>)
Emit == phase = "done" => \A e \in BOOLEAN : PrintT(<<"REPLAY", ToJson(Case(e))>>)
=============================================================================
