SPECIFICATION Spec
CONSTANTS
  P = 5
  NBits = 3
  BoolEnforced = FALSE
  Unchecked = {}
  RangeChecked = FALSE
INVARIANTS
  EmitReplay
CHECK_DEADLOCK FALSE
