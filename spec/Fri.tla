--------------------------------- MODULE Fri ---------------------------------
(***************************************************************************)
(* Bookkeeping of one FRI query, as the native verifier (p3-fri 0.6.3       *)
(* verifier.rs / prover.rs commit phase) and the in-circuit verifier        *)
(* (recursion/src/pcs/fri/verifier.rs: open_input, fold_one_phase, final    *)
(* check) must agree on it:                                                 *)
(*   - which index bits every input batch is opened with (a batch whose     *)
(*     tallest matrix is shorter than the global maximum is opened at the   *)
(*     index shifted right by the difference),                              *)
(*   - the arity of every fold phase (variable arity: never fold past the   *)
(*     next input height nor past the final height, at most max_log_arity), *)
(*   - where the reduced opening of each shorter height class is rolled in  *)
(*     (exactly once, when the folded height equals it),                    *)
(*   - the height at which the final polynomial is evaluated.               *)
(* One action per critical section: OpenInput(batch), FoldPhase, RollIn,    *)
(* FinalCheck.  Heights are log2 of LDE heights (log_h + log_blowup).       *)
(* BatchIndexShifted = FALSE models a circuit that hands the full index to  *)
(* every batch's Merkle verification.                                       *)
(***************************************************************************)
EXTENDS Integers, Sequences, FiniteSets, TLC

CONSTANTS MaxLogH,            \* largest log2 trace height of an input matrix
          Blowups, Arities, FinalLens,   \* sets of log_blowup / max_log_arity / log_final_poly_len
          MaxBatches, MaxMats,
          BatchIndexShifted,
          UnconsumedPolicy    \* what the verifier does with an input height no fold phase reaches: "zero" = its reduced
                              \* opening must be zero (the code: native UnconsumedReducedOpenings / circuit connect to 0),
                              \* "ignore" = it is dropped

VARIABLES lb, la, lf,         \* parameters
          batches,            \* Seq of Seq of log heights (trace domain)
          phase,              \* "choose" | "open" | "fold" | "final" | "done"
          opened,             \* batches opened so far (count)
          shiftN, shiftC,     \* per batch: bits dropped from the query index, native / circuit
          cur,                \* current folded log height
          arities,            \* log arity of every fold phase so far
          rolled              \* heights rolled in so far, with the phase index
vars == <<lb, la, lf, batches, phase, opened, shiftN, shiftC, cur, arities, rolled>>

Max(S) == CHOOSE m \in S : \A x \in S : x <= m
Min2(a, b) == IF a <= b THEN a ELSE b
BatchMax(b) == Max({ b[i] : i \in 1..Len(b) }) + lb
AllHeights == UNION { { batches[j][i] + lb : i \in 1..Len(batches[j]) } : j \in 1..Len(batches) }
GlobalMax == Max(AllHeights)
FinalHeight == lb + lf
\* the real prover refuses these parameter sets
Supported == /\ (lf > 0 => Max({0} \cup { 0 }) = 0)   \* placeholder, refined below
Refused == lf > 0 /\ \E h \in AllHeights : h <= FinalHeight

Init ==
    /\ lb \in Blowups /\ la \in Arities /\ lf \in FinalLens
    /\ batches \in UNION { [1..n -> UNION { [1..m -> 0..MaxLogH] : m \in 1..MaxMats }] : n \in 1..MaxBatches }
    /\ phase = "open" /\ opened = 0 /\ shiftN = <<>> /\ shiftC = <<>>
    /\ cur = 0 /\ arities = <<>> /\ rolled = {}

OpenInput ==
    /\ phase = "open" /\ opened < Len(batches)
    /\ LET b == batches[opened + 1] IN
         /\ shiftN' = Append(shiftN, GlobalMax - BatchMax(b))
         /\ shiftC' = Append(shiftC, IF BatchIndexShifted THEN GlobalMax - BatchMax(b) ELSE 0)
    /\ opened' = opened + 1
    /\ UNCHANGED <<lb, la, lf, batches, phase, cur, arities, rolled>>

StartFold ==
    /\ phase = "open" /\ opened = Len(batches)
    /\ cur' = GlobalMax
    /\ phase' = IF GlobalMax > FinalHeight THEN "fold" ELSE "final"
    /\ UNCHANGED <<lb, la, lf, batches, opened, shiftN, shiftC, arities, rolled>>

NextInput == LET S == { h \in AllHeights : h < cur } IN IF S = {} THEN -1 ELSE Max(S)

FoldPhase ==
    /\ phase = "fold" /\ cur > FinalHeight
    /\ LET toTarget == cur - FinalHeight
           toNext == IF NextInput >= 0 THEN Min2(cur - NextInput, toTarget) ELSE toTarget
           a == Min2(toNext, la)
           c2 == cur - a
       IN /\ arities' = Append(arities, a)
          /\ cur' = c2
          /\ rolled' = IF c2 \in AllHeights /\ c2 < GlobalMax THEN rolled \cup {<<c2, Len(arities) + 1>>} ELSE rolled
          /\ phase' = IF c2 > FinalHeight THEN "fold" ELSE "final"
    /\ UNCHANGED <<lb, la, lf, batches, opened, shiftN, shiftC>>

FinalCheck ==
    /\ phase = "final"
    /\ phase' = "done"
    /\ UNCHANGED <<lb, la, lf, batches, opened, shiftN, shiftC, cur, arities, rolled>>

Next == OpenInput \/ StartFold \/ FoldPhase \/ FinalCheck
Spec == Init /\ [][Next]_vars

Sum(s) == LET RECURSIVE S(_) S(i) == IF i > Len(s) THEN 0 ELSE s[i] + S(i + 1) IN S(1)

(***************************************************************************)
(* Merkle caps.  Every tree (one per input batch, one per fold phase) is   *)
(* committed by the cap of height min(cap, log height of the tree)         *)
(* (p3-merkle-tree: cap_height.min(num_layers - 1)); the opening of a      *)
(* query walks log height - that many levels and the remaining top bits of *)
(* the index the tree is addressed with select the cap entry.  The circuit *)
(* (pcs/mmcs.rs) derives the cap height from the number of entries of the  *)
(* commitment it is given.  A fold phase of arity a at height h commits    *)
(* rows of 2^a evaluations: a tree of log height h - a.                    *)
(***************************************************************************)
EffCap(cap, t) == Min2(cap, t)
SumTo(s, n) == LET RECURSIVE S(_) S(i) == IF i > n THEN 0 ELSE s[i] + S(i + 1) IN S(1)
HeightAfter(i) == GlobalMax - SumTo(arities, i)
RootsInput(cap) == [j \in 1..Len(batches) |-> 2 ^ EffCap(cap, BatchMax(batches[j]))]
RootsCommit(cap) == [i \in 1..Len(arities) |-> 2 ^ EffCap(cap, HeightAfter(i))]
\* index bits an input batch / a fold phase is addressed with, split into Merkle path and cap selection
PathBitsInput(cap, j) == BatchMax(batches[j]) - EffCap(cap, BatchMax(batches[j]))
PathBitsCommit(cap, i) == HeightAfter(i) - EffCap(cap, HeightAfter(i))
\* both verifiers address batch j with GlobalMax - shift bits: path + cap selection must be exactly those (no bit dropped, none reused)
CapBitsAccounted(cap) ==
    phase = "done" =>
        /\ \A j \in 1..Len(batches) : PathBitsInput(cap, j) >= 0 /\ PathBitsInput(cap, j) + EffCap(cap, BatchMax(batches[j])) = GlobalMax - shiftN[j]
        /\ \A i \in 1..Len(arities) : PathBitsCommit(cap, i) >= 0 /\ HeightAfter(i) >= FinalHeight

(***************************************************************************)
(* The fold schedule is the PROVER's: the verifier reads the arities off    *)
(* the proof.  A prover that leaves the reduced opening of one input height *)
(* out of its commit phase follows the schedule of the remaining heights,   *)
(* which (max_log_arity >= 2) may step over the height it left out: no fold *)
(* phase then rolls that height in, and nothing ties the claimed            *)
(* evaluations of its matrices to the commitment unless the verifier        *)
(* requires an unconsumed reduced opening to be zero.                       *)
(***************************************************************************)
RECURSIVE ScheduleFrom(_, _)
ScheduleFrom(c, S) ==
    IF c <= FinalHeight THEN <<>>
    ELSE LET lower == {h \in S : h < c}
             toTarget == c - FinalHeight
             toNext == IF lower # {} THEN Min2(c - Max(lower), toTarget) ELSE toTarget
             a == Min2(toNext, la)
         IN <<a>> \o ScheduleFrom(c - a, S)
HonestSchedule == ScheduleFrom(GlobalMax, AllHeights)
Eligible == {h \in AllHeights : h < GlobalMax /\ h > FinalHeight}
Withheld == IF Eligible = {} THEN -1 ELSE Max(Eligible)
DishonestSchedule == ScheduleFrom(GlobalMax, AllHeights \ {Withheld})
FoldedHeights(sch) == {GlobalMax - SumTo(sch, i) : i \in 1..Len(sch)}
SteppedOver == Withheld # -1 /\ Withheld \notin FoldedHeights(DishonestSchedule)
\* the action-by-action schedule of the model is the functional one
ScheduleIsFunctional == (phase = "done" /\ ~Refused) => arities = HonestSchedule
\* every input height above the final height is either rolled in by a phase of the dishonest schedule (then the fold
\* equations see it) or caught by the zero rule
WithheldHeightStillChecked == (phase = "done" /\ SteppedOver) => UnconsumedPolicy = "zero"

\* every shorter height class above the final height is rolled in exactly once, at its own height
RollInOnceAtRightHeight ==
    (phase = "done" /\ ~Refused) =>
        \A h \in AllHeights : (h < GlobalMax /\ h > FinalHeight) =>
            Cardinality({ r \in rolled : r[1] = h }) = 1
\* the query index has exactly enough bits for the folds, and the final evaluation is at the final height
BitsAccounted ==
    (phase = "done" /\ GlobalMax > FinalHeight) => (Sum(arities) = GlobalMax - FinalHeight /\ cur = FinalHeight)
AritiesBounded == \A i \in 1..Len(arities) : arities[i] >= 1 /\ arities[i] <= la
\* C07 (index bits): both verifiers open every batch at the same index
SameIndexBits == phase = "done" => shiftC = shiftN
=============================================================================
