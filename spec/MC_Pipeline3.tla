---- MODULE MC_Pipeline3 ----
(* further program families of the compile pipeline (a module of their own: the explorations of MC_Pipeline / MC_Pipeline2 stay
   cached by content) *)
EXTENDS MC_Pipeline2

\* a three-operand operation (mul_add, Horner step) whose RESULT is tied back to one of its own private operands, followed by a
\* reader of a private input: the row in which an operand and `out` are the same slot - the slot must be created exactly once
\* (through `out`), the other operands keep their own roles (generate_preprocessed_columns: a_aliased_by_out / c_aliased_by_out)
SelfTieShaped ==
    /\ Len(calls) >= 1 => (/\ calls[1].op \in {"muladd", "horner"}
                           /\ \A j \in 1..Len(calls[1].args) : ArgIs(calls[1], j, "pub") \/ ArgIs(calls[1], j, "priv")
                           /\ \E k \in 1..Len(calls[1].args) : ArgIs(calls[1], k, "priv"))
    /\ Len(calls) >= 2 => (calls[2].op = "connect" /\ \E k \in 1..2 : IsRet(calls[2], k, calls[1]) /\ ArgIs(calls[2], 3 - k, "priv"))
    /\ Len(calls) >= 3 => (calls[3].op \in {"mul", "add"} /\ \E k \in 1..2 : ArgIs(calls[3], k, "priv")
                           /\ \A j \in 1..2 : ArgIs(calls[3], j, "pub") \/ ArgIs(calls[3], j, "priv"))
    /\ Len(calls) <= 3
====
