SPECIFICATION Spec
CONSTANTS
  Bases <- BasesOne
  PSets <- PS3
  NSlots = {"s0"}
  ASlots = {"g0"}
  MaxBase = 2
  MaxProve = 2
  MaxParams = 1
  Ops = {"next", "agg"}
  MustFill = TRUE
  Policy = "code"
INVARIANTS
  TypeOK
  SlotsComeFromCalls
  CountersCoarser
  OutputsChain
  Emit
CHECK_DEADLOCK FALSE
