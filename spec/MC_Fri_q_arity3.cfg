SPECIFICATION Spec
CONSTANTS
  MaxLogH = 5
  Blowups <- B1
  Arities <- A3
  FinalLens <- F0
  MaxBatches = 1
  MaxMats = 2
  BatchIndexShifted = TRUE
  UnconsumedPolicy = "zero"
  Cfgs <- CfgQ
  Queries <- Q1
  PowBits <- Pow0
  PointModes <- PmS
  Faults <- FaultsFew
  Caps <- Cap0
INVARIANTS
  RollInOnceAtRightHeight
  BitsAccounted
  AritiesBounded
  SameIndexBits
  CapsAccounted
  ScheduleIsFunctional
  WithheldHeightStillChecked
  Emit
CHECK_DEADLOCK FALSE
