----------------------------- MODULE TablesCases -----------------------------
(* Enumeration of ALU table shapes for replay into the real AIR: op-kind      *)
(* sequences (with Horner chains sharing or not sharing their alpha), every   *)
(* field / extension degree / lane count / packing factor of the cfg, and    *)
(* every single-cell mutation (or none).                                      *)
EXTENDS Integers, Sequences, FiniteSets, TLC, Json

CONSTANTS MaxOps, Configs   \* Configs: set of <<field, d, lanes, k>>
KindsR == {"Add", "Mul", "BoolCheck", "MulAdd", "HornerAcc"}
Cells == {"a", "b", "c", "out", "sep_out"}

VARIABLES ops, same, done
vars == <<ops, same, done>>
Init == ops = <<>> /\ same = <<>> /\ done = FALSE
\* a Horner step that continues a chain chooses whether it shares alpha with its predecessor
AddOp == /\ ~done /\ Len(ops) < MaxOps
         /\ \E k \in KindsR :
              /\ ops' = Append(ops, k)
              /\ IF k = "HornerAcc" /\ Len(ops) > 0 /\ ops[Len(ops)] = "HornerAcc"
                 THEN \E s \in BOOLEAN : same' = Append(same, s)
                 ELSE same' = same
         /\ UNCHANGED done
Finish == ~done /\ Len(ops) > 0 /\ done' = TRUE /\ UNCHANGED <<ops, same>>
Next == AddOp \/ Finish
Spec == Init /\ [][Next]_vars

ChainStart(i) == ops[i] = "HornerAcc" /\ (i = 1 \/ ops[i - 1] # "HornerAcc")
Mutations ==
    {[op |-> 0, cell |-> "none", coeff |-> 0]} \cup
    { [op |-> i - 1, cell |-> c, coeff |-> 0] : i \in 1..Len(ops), c \in {"a", "b", "c", "out"} } \cup
    { [op |-> i - 1, cell |-> "sep_out", coeff |-> 0] : i \in { j \in 1..Len(ops) : ChainStart(j) } }

Case(cfg, m) ==
    [spec |-> "Tables", field |-> cfg[1], d |-> cfg[2], lanes |-> cfg[3], k |-> cfg[4],
     ops |-> ops, horner_b_same |-> same, mutate |-> m]

Emit == done => \A cfg \in Configs : \A m \in Mutations : PrintT(<<"REPLAY", ToJson(Case(cfg, m))>>)
=============================================================================
