----------------------------- MODULE TablesCases -----------------------------
(* Enumeration of ALU table shapes for replay into the real AIR: op-kind      *)
(* sequences (with Horner chains sharing or not sharing their alpha), every   *)
(* field / extension degree / lane count / packing factor of the cfg, and    *)
(* every single-cell mutation (or none), on the lowest / second / highest     *)
(* limb, and limb pairs deviating by +delta / -delta.                         *)
EXTENDS Integers, Sequences, FiniteSets, TLC, Json

CONSTANTS MaxOps, Configs   \* Configs: set of <<field, d, lanes, k>>
KindsR == {"Add", "Mul", "BoolCheck", "MulAdd", "HornerAcc"}
Cells == {"a", "b", "c", "out", "sep_out", "a_out", "b_out", "c_out"}

VARIABLES ops, same, done
vars == <<ops, same, done>>
Init == ops = <<>> /\ same = <<>> /\ done = FALSE
\* a Horner step that continues a chain chooses whether it shares alpha with its predecessor
AddOp == /\ ~done /\ Len(ops) < MaxOps
         /\ \E k \in KindsR :
              /\ ops' = Append(ops, k)
              /\ IF k = "HornerAcc" /\ Len(ops) > 0 /\ ops[Len(ops)] = "HornerAcc"
                 THEN \E s \in BOOLEAN : same' = Append(same, s)
                 ELSE same' = same
         /\ UNCHANGED done
Finish == ~done /\ Len(ops) > 0 /\ done' = TRUE /\ UNCHANGED <<ops, same>>
Next == AddOp \/ Finish
Spec == Init /\ [][Next]_vars

ChainStart(i) == ops[i] = "HornerAcc" /\ (i = 1 \/ ops[i - 1] # "HornerAcc")
\* which coefficient (limb) of an extension value deviates: the lowest, the second and the highest; and PAIRS of limbs
\* deviating by +delta / -delta (the sum of the limbs is kept: a constraint that aggregates limbs must still reject)
Limbs(d) == {0, 1, d - 1} \cap (0..(d - 1))
Pairs(d) == (IF d >= 2 THEN {<<0, d - 1>>} ELSE {}) \cup (IF d >= 3 THEN {<<1, 2>>} ELSE {})
Mut(i, c, j, j2) == [op |-> i, cell |-> c, coeff |-> j, coeff2 |-> j2]
Mutations(d) ==
    {Mut(0, "none", 0, -1)} \cup
    { Mut(i - 1, c, 0, -1) : i \in 1..Len(ops), c \in {"a", "b", "c", "out"} } \cup
    { Mut(i - 1, "sep_out", 0, -1) : i \in { j \in 1..Len(ops) : ChainStart(j) } } \cup
    (IF Len(ops) > 3 THEN {} ELSE
       { Mut(i - 1, c, j, -1) : i \in 1..Len(ops), c \in {"a", "b", "c", "out"}, j \in Limbs(d) \ {0} } \cup
       { Mut(i - 1, "sep_out", j, -1) : i \in { x \in 1..Len(ops) : ChainStart(x) }, j \in Limbs(d) \ {0} } \cup
       { Mut(i - 1, c, pr[1], pr[2]) : i \in 1..Len(ops), c \in {"a", "b", "c", "out"}, pr \in Pairs(d) } \cup
       \* an operand and the result of one row deviate TOGETHER (stays inside the relation for Add / MulAdd.c, leaves it elsewhere:
       \* a BoolCheck row whose operand is no bit while out = a still holds)
       { Mut(i - 1, c, j, -1) : i \in 1..Len(ops), c \in {"a_out", "b_out", "c_out"}, j \in Limbs(d) } \cup
       { Mut(i - 1, c, pr[1], pr[2]) : i \in 1..Len(ops), c \in {"a_out", "b_out", "c_out"}, pr \in Pairs(d) })

Case(cfg, m) ==
    [spec |-> "Tables", field |-> cfg[1], d |-> cfg[2], lanes |-> cfg[3], k |-> cfg[4],
     ops |-> ops, horner_b_same |-> same, mutate |-> m]

Emit == done => \A cfg \in Configs : \A m \in Mutations(cfg[2]) : PrintT(<<"REPLAY", ToJson(Case(cfg, m))>>)
=============================================================================
