---------------------------- MODULE MC_Metadata ----------------------------
EXTENDS Metadata, Json
\* the alteration alphabet of `p3r metadata` (harness/src/metadata.rs `singles`), with role and effect per configuration
A(f, o, v, i, r, e) == [field |-> f, op |-> o, value |-> v, index |-> i, role |-> r, effect |-> e]
NoV == "-"     \* no value
NoI == 99      \* no index
DegOf(c) == CASE c = "bb_d1_alu" -> 1 [] c = "kb_d5_quintic" -> 5 [] OTHER -> 4
NInst(c) == IF c = "kb_d4_npo" THEN 5 ELSE 3
\* the verifier's expected W: none for D = 1 and for the quintic trinomial, 3 for KoalaBear D4, 11 for BabyBear D4
WNoneExpected(c) == c \in {"bb_d1_alu", "kb_d5_quintic"}
Lanes == {"table_packing.alu_lanes", "table_packing.public_lanes"}
Common(c) ==
    {A("ext_degree", "set", n, NoI, "param", IF n = 3 THEN "invalid" ELSE "other") : n \in {1, 2, 3, 4, 5, 6, 8} \ {DegOf(c)}}
    \cup {A("w_binomial", "none", NoV, NoI, "param", IF WNoneExpected(c) THEN "noop" ELSE "other"),
          A("w_binomial", "other", NoV, NoI, "param", "other"),
          A("w_binomial", "set", 3, NoI, "param", IF c = "kb_d4_npo" THEN "noop" ELSE "other"),
          A("alu_quintic_trinomial", "toggle", NoV, NoI, "param", "other")}
    \cup {A(f, o, NoV, NoI, "airs", "other") : f \in Lanes, o \in {"inc", "double"}}
    \cup {A(f, "set", 4, NoI, "airs", "other") : f \in Lanes}
    \* honest lanes are (1, 1) except bb_d4_alu (2, 2): there `dec` gives another valid lane count
    \cup {A(f, "zero", NoV, NoI, "airs", "invalid") : f \in Lanes}
    \cup {A(f, "dec", NoV, NoI, "airs", IF c = "bb_d4_alu" THEN "other" ELSE "invalid") : f \in Lanes}
    \cup {A("table_packing.horner_packed_steps", o, NoV, NoI, "airs", "other") : o \in {"inc", "double"}}
    \cup {A("table_packing.horner_packed_steps", "set", 5, NoI, "airs", "other"), A("table_packing.horner_packed_steps", "dec", NoV, NoI, "airs", "invalid")}
    \cup {A("table_packing.min_trace_height", "double", NoV, NoI, "valid", "other"), A("table_packing.min_trace_height", "zero", NoV, NoI, "valid", "invalid")}
    \cup {A("table_packing.min_trace_height", "set", v, NoI, "valid", IF v = 3 THEN "invalid" ELSE "other") : v \in {3, 8, 64}}
    \cup {A(f, o, NoV, NoI, "valid", "other") : f \in {"rows.const", "rows.public", "rows.alu"}, o \in {"inc", "dec", "double", "halve"}}
    \cup {A(f, "zero", NoV, NoI, "valid", "invalid") : f \in {"rows.const", "rows.public", "rows.alu"}}
    \cup {A("alu_variant", "other", NoV, NoI, "ignored", "other"),
          A("stark_common.preprocessed_commitment", "inc", NoV, NoI, "common", "other"),
          A("stark_common", "none", NoV, NoI, "common", "invalid"),
          A("stark_common.matrix_to_instance", "swap", NoV, NoI, "common", "other"),
          \* the lookup contexts the proof was proven against: verify_all_tables derives its own from the AIRs it rebuilds
          A("stark_common.lookups", "empty_all", NoV, NoI, "ignored", "other"),
          A("stark_common.lookups", "pop", NoV, NoI, "ignored", "other"),
          A("stark_common.lookups", "clear", NoV, NoI, "ignored", "other"),
          A("stark_common.instances", "pop", NoV, NoI, "common", "other"),
          A("non_primitives", "add", "recompose", NoI, "airs", "other"), A("non_primitives", "add", "unknown/op", NoI, "airs", "other")}
    \cup {A("stark_common.degree_bits", "inc", NoV, i, "common", "other") : i \in 0..(NInst(c) - 1)}
    \cup {A("stark_common.degree_bits", "dec", NoV, i, "common", "other") : i \in 0..2}
    \cup {A("stark_common.width", "inc", NoV, i, "common", "other") : i \in 0..(NInst(c) - 1)}
    \cup {A("stark_common.instances", "none", NoV, i, "common", "invalid") : i \in 0..(NInst(c) - 1)}
Foreign(c) == IF c = "kb_d4_npo" THEN {A("stark_common", "foreign", "perm-input-const-0-to-7", NoI, "foreign", "other")}
              ELSE {A("stark_common", "foreign", n, NoI, "foreign", "other") : n \in {"const-value-3-to-4", "op-add-to-sub", "const-index-c3-to-c5"}}
Npo == {A("non_primitives", "swap", NoV, NoI, "airs", "other")}
    \cup {A("non_primitives", o, NoV, i, "airs", "other") : o \in {"drop", "duplicate"}, i \in 0..1}
    \cup {A("non_primitives.rows", o, NoV, i, "ignored", "other") : o \in {"inc", "dec", "double", "zero"}, i \in 0..1}
    \cup {A("non_primitives.lanes", "inc", NoV, 0, "ignored", "other"), A("non_primitives.lanes", "inc", NoV, 1, "airs", "other")}
    \cup {A("non_primitives.lanes", "zero", NoV, i, "airs", "invalid") : i \in 0..1}
    \cup {A("non_primitives.op_type", o, NoV, i, "airs", "other") : o \in {"other", "unknown"}, i \in 0..1}
    \cup {A("non_primitives.air_variant", "other", NoV, i, "ignored", "other") : i \in 0..1}
    \cup {A("non_primitives.public_values", "push", NoV, i, "airs", "other") : i \in 0..1}
    \cup {A("table_packing.npo_lanes", "set", NoV, i, "ignored", "other") : i \in 0..1}
Alts(c) == Common(c) \cup Foreign(c) \cup (IF c = "kb_d4_npo" THEN Npo ELSE {})
\* invalid_public_cell_unchecked_bus: only the bus is violated AND the prover proves no bus at all (emptied lookup contexts)
Traces(c) == {"honest", "invalid_alu_cell", "invalid_const", "invalid_public_cell", "invalid_public_cell_unchecked_bus"} \cup (IF c = "kb_d4_npo" THEN {"invalid_npo"} ELSE {})
AllConfigs == {"bb_d1_alu", "bb_d4_alu", "kb_d4_npo", "kb_d5_quintic"}
AllFields == {a.field : a \in UNION {Alts(c) : c \in AllConfigs}}
\* quick: a pair always involves one of the fields through which the verifier is parameterised
KeyFields == {"stark_common", "alu_quintic_trinomial"}
AltJson(a) == [field |-> a.field, op |-> a.op, value |-> a.value, index |-> a.index]
SetToSeq(S) == CHOOSE f \in [1..Cardinality(S) -> S] : \A i, j \in 1..Cardinality(S) : i # j => f[i] # f[j]
Emit == Done => PrintT(<<"REPLAY", ToJson([spec |-> "Metadata", config |-> config, trace |-> trace, serde |-> serde,
                                           alter |-> [i \in 1..Cardinality(alts) |-> AltJson(SetToSeq(alts)[i])],
                                           model |-> [verdict |-> verdict, stage |-> stage, foreign_eq |-> foreignEq,
                                                      roles |-> [i \in 1..Cardinality(alts) |-> SetToSeq(alts)[i].role],
                                                      effects |-> [i \in 1..Cardinality(alts) |-> SetToSeq(alts)[i].effect]]])>>)
=============================================================================
