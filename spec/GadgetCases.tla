----------------------------- MODULE GadgetCases -----------------------------
(* Enumeration of gadget cases for replay into the real gadgets (all sizes,   *)
(* shifts, points, chunk counts, periods, lengths, exponents, indices).        *)
EXTENDS Integers, Sequences, FiniteSets, TLC, Json
CONSTANTS Fields, MaxLogN, MaxLen, Exponents, MaxLogH
VARIABLES emitted
Init == emitted = FALSE
Next == ~emitted /\ emitted' = TRUE
Spec == Init /\ [][Next]_emitted
Points == {"random", "random_base", "zero", "one", "in_domain"}
Shifts == {"one", "generator", "random"}
P(r) == PrintT(<<"REPLAY", ToJson(r)>>)
Schedules(h) == { s \in UNION { [1..n -> 1..3] : n \in 1..3 } :
                    LET RECURSIVE Sum(_) Sum(i) == IF i > Len(s) THEN 0 ELSE s[i] + Sum(i + 1) IN Sum(1) <= h }
Emit == emitted => \A f \in Fields :
    /\ \A n \in 0..MaxLogN : \A sh \in Shifts : \A pt \in Points :
          /\ P([spec |-> "Gadgets", gadget |-> "selectors", field |-> f, log_n |-> n, shift |-> sh, point |-> pt])
          /\ P([spec |-> "Gadgets", gadget |-> "vanishing", field |-> f, log_n |-> n, shift |-> sh, point |-> pt])
    /\ \A n \in 0..MaxLogN : \A c \in {1, 2, 3, 4, 8} : \A zk \in BOOLEAN : \A pt \in {"random", "random_base", "in_chunk_domain"} :
          P([spec |-> "Gadgets", gadget |-> "quotient_recompose", field |-> f, log_n |-> n, chunks |-> c, zk |-> zk, point |-> pt])
    /\ \A n \in 0..MaxLogN : \A pl \in 0..n : \A pt \in {"random", "in_domain", "one"} :
          P([spec |-> "Gadgets", gadget |-> "periodic", field |-> f, log_n |-> n, period_log |-> pl, point |-> pt])
    \* several periodic columns of one AIR: every ORDER of periods (the gadget may share work between columns)
    /\ \A n \in 0..(IF MaxLogN < 4 THEN MaxLogN ELSE 4) : \A pls \in UNION { [1..k -> 0..n] : k \in 2..3 } :
          P([spec |-> "Gadgets", gadget |-> "periodic", field |-> f, log_n |-> n, period_logs |-> pls, shift |-> "generator", point |-> "random"])
    /\ \A len \in 1..MaxLen : \A pt \in {"random", "zero", "one"} :
          P([spec |-> "Gadgets", gadget |-> "eval_poly", field |-> f, len |-> len, point |-> pt])
    /\ \A e \in Exponents : \A pt \in {"random", "zero", "one"} :
          P([spec |-> "Gadgets", gadget |-> "exp_const", field |-> f, exponent |-> e, point |-> pt])
    /\ \A lmh \in 1..MaxLogH : \A lf \in 0..lmh : \A idx \in 0..(2 ^ lmh - 1) :
          P([spec |-> "Gadgets", gadget |-> "final_query_point", field |-> f, log_max_height |-> lmh, log_final |-> lf, index |-> idx])
    /\ \A h \in 1..MaxLogH : \A s \in Schedules(h) : \A idx \in {0, 1, 2 ^ h - 1, (2 ^ h) \div 2} :
          /\ P([spec |-> "Gadgets", gadget |-> "subgroup_starts", field |-> f, log_height |-> h, log_arities |-> s, index |-> idx])
          /\ P([spec |-> "Gadgets", gadget |-> "fold_chain", field |-> f, log_height |-> h, log_arities |-> s, index |-> idx])
=============================================================================
