SPECIFICATION Spec
CONSTANTS
  Bases <- BasesPrep
  PSets <- PS1
  NSlots = {"s0"}
  ASlots = {"g0"}
  MaxBase = 1
  MaxProve = 2
  MaxParams = 0
  Ops = {"next", "agg"}
  MustFill = FALSE
  Policy = "code"
INVARIANTS
  TypeOK
  SlotsComeFromCalls
  CountersCoarser
  OutputsChain
  Emit
CHECK_DEADLOCK FALSE
