SPECIFICATION Spec
CONSTANTS
  MaxConstraints = 5
  EmissionOrder = FALSE
INVARIANTS
  FoldEqualsNativeWhenOrdered
CHECK_DEADLOCK FALSE
