SPECIFICATION Spec
CONSTANTS
  MaxOps = 4
  MaxLanes = 4
  PrepTest = "empty"
  ProverTest = "empty"
INVARIANTS
  SameVerifyingData
  EmptyReduced
CHECK_DEADLOCK FALSE
