SPECIFICATION Spec
CONSTANTS
  AllowConnect = TRUE
  MaxCalls = 5
  Fallback = "own"
INVARIANTS
  CoeffsCorrect
  ProvenanceSound
  Emit
CHECK_DEADLOCK FALSE
