SPECIFICATION Spec
CONSTANTS
  Configs <- DesignConfigs
  Validation = "code"
  UnvalidatedInCode <- Unvalidated
INVARIANTS
  TypeOK
  FaultRefused
  HonestAccepted
  EveryKindRead
  EveryKindObserved
  ObservedBeforeUse
  ListsValidated
CHECK_DEADLOCK FALSE
