--------------------------- MODULE MC_Challenger ---------------------------
EXTENDS Challenger, Json

Obs1 == {1}
ObsSmall == {1, 3}
ObsW16 == {1, 7, 8}
SampW16 == {1, 7, 8}
ObsW8 == {1, 3, 4}
SampW8 == {1, 3, 4}
ObsW4 == {1, 2}
SampW4 == {1, 2}

TermJson(t) == IF t[1] = "p" THEN [k |-> "p", a |-> t[2], b |-> t[3]]
               ELSE IF t[1] = "f" THEN [k |-> "f", a |-> t[2], b |-> t[3]]
               ELSE IF t[1] = "o" THEN [k |-> "o", a |-> t[2], b |-> 0]
               ELSE [k |-> t[1], a |-> 0, b |-> 0]

ReplayRecord ==
    [ spec |-> "Challenger", width |-> WIDTH, rate |-> RATE, d |-> D, base |-> BasePath,
      hist |-> hist,
      nperms |-> Len(perms), cperms |-> Len(cperms),
      inlen |-> Len(nIn), outlen |-> Len(nOut),
      nsamples |-> Len(samplesN),
      samples |-> [i \in 1..Len(samplesN) |-> TermJson(samplesN[i])],
      agree |-> TranscriptAgrees ]

Done == Len(hist) = MaxOps
EmitReplay == Done => PrintT(<<"REPLAY", ToJson(ReplayRecord)>>)

\* invariants of the ideal design (no foreign rows)
Agree == TranscriptAgrees
Tags == TagPlacement
=============================================================================
