SPECIFICATION Spec
CONSTANTS
  P = 3
  NPUB = 2
  NPRIV = 2
  PreConsts <- PreNone
  MaxCalls = 2
  MaxConn = 1
  Kinds = {"add", "mul", "muladd", "horner", "connect"}
  FixD1 = TRUE
  FixD2 = TRUE
  FixFuse = TRUE
  FixAcc = TRUE
  NoFold = FALSE
INVARIANTS
  TypeOK
  EmitReplay
  RunnerSelfConsistent
  BuilderSound
  FuseOrderIndependent
CONSTRAINT
  SelfTieShaped
CHECK_DEADLOCK FALSE
