------------------------------ MODULE Metadata ------------------------------
(***************************************************************************)
(* C16 - native verification of a circuit proof (BatchStarkProver::        *)
(* verify_all_tables, circuit-prover/src/batch_stark_prover.rs:1230) as a  *)
(* staged machine over the proof's SELF-DECLARED metadata.                 *)
(*                                                                         *)
(*   Validate  BatchStarkProof::validate / RowCounts::validate /           *)
(*             TablePacking (zero lanes, zero rows, bad heights ...)       *)
(*   Params    ext_degree, w_binomial, alu_quintic_trinomial against what  *)
(*             the verifier derives from ITS field EF                      *)
(*   Airs      every table AIR is rebuilt from proof fields (packing,      *)
(*             table list and order, lanes, op types)                      *)
(*   Batch     p3_batch_stark::verify_batch with proof.stark_common as the *)
(*             verifying data                                              *)
(*                                                                         *)
(* A metadata field is, for the verifier, one of:                          *)
(*   "param"   compared with the verifier's expectation                    *)
(*   "valid"   range-validated only, otherwise not read                    *)
(*   "ignored" not read at all                                             *)
(*   "airs"    shapes the rebuilt constraint system                        *)
(*   "common"  part of the verifying data the proof brings along           *)
(* An ALTERATION (field, op) has an effect on that field: "noop" (value    *)
(* unchanged), "other" (another well-formed value), "invalid" (a value     *)
(* validation refuses).  The machine decides from roles and effects alone. *)
(*                                                                         *)
(* The statement of C16 is then: NoRescue (accepted => the trace is valid),*)
(* ParamsEnforced (accepted => every "param" field is as expected) and     *)
(* TableSetEnforced (accepted => every "airs" field is as proven).  What   *)
(* the model cannot derive - a foreign circuit's verifying data that       *)
(* happens to commit to the same preprocessed columns - is left open       *)
(* (`ForeignCommonEqual` is chosen nondeterministically) and decided by    *)
(* the replay.  MC_Metadata enumerates configurations x trace kinds x one  *)
(* or two alterations x serde round trip; `p3r metadata` replays each into *)
(* the real prover + verifier, and the predicted stage / verdict of the    *)
(* honest-trace cases is compared with the real one.                       *)
(***************************************************************************)
EXTENDS Naturals, Sequences, FiniteSets, TLC

CONSTANTS Configs,       \* configuration names
          AltsOf(_),     \* configuration -> set of records [field, op, value, index, role, effect]  (MC_Metadata)
          TracesOf(_),   \* configuration -> trace kinds ("honest" and the invalid ones)
          MaxAlter,      \* 0..2
          PairFields     \* for two alterations: at least one of them is on a field in this set (all fields: thorough)

VARIABLES config, trace, alts, serde, foreignEq, stage, verdict

vars == <<config, trace, alts, serde, foreignEq, stage, verdict>>

Roles == {"param", "valid", "ignored", "airs", "common", "foreign"}
Effects == {"noop", "other", "invalid"}

Init ==
    /\ config \in Configs
    /\ trace \in TracesOf(config)
    /\ alts \in {{}} \cup (IF MaxAlter >= 1 THEN {{a} : a \in AltsOf(config)} ELSE {})
                \cup (IF MaxAlter >= 2 THEN {{a, b} : a \in {x \in AltsOf(config) : x.field \in PairFields}, b \in AltsOf(config)} ELSE {})
    /\ \A a, b \in alts : a # b => a.field # b.field
    /\ Cardinality(alts) <= MaxAlter
    \* swapping in a whole foreign stark_common overwrites an alteration of one of its parts: not two alterations
    /\ \A a, b \in alts : ~(a.role = "foreign" /\ b.role = "common")
    /\ (foreignEq = TRUE) \/ (\E a \in alts : a.role = "foreign")   \* the choice only matters with a foreign alteration
    /\ serde \in BOOLEAN
    /\ foreignEq \in BOOLEAN
    /\ stage = "validate"
    /\ verdict = "running"

Has(role, effect) == \E a \in alts : a.role = role /\ a.effect = effect

\* serialization carries every field unchanged: the machine below never reads `serde`
Validate ==
    /\ stage = "validate"
    /\ IF \E a \in alts : a.effect = "invalid" /\ a.role \in {"valid", "airs", "param"}
       THEN verdict' = "reject" /\ stage' = "done-validate"
       ELSE verdict' = verdict /\ stage' = "params"
    /\ UNCHANGED <<config, trace, alts, serde, foreignEq>>

Params ==
    /\ stage = "params"
    /\ IF Has("param", "other")
       THEN verdict' = "reject" /\ stage' = "done-params"
       ELSE verdict' = verdict /\ stage' = "airs"
    /\ UNCHANGED <<config, trace, alts, serde, foreignEq>>

\* the rebuilt AIRs differ from the proven ones: widths / instance counts no longer fit the proof (an error, or - today - a panic)
Airs ==
    /\ stage = "airs"
    /\ IF Has("airs", "other")
       THEN verdict' = "reject" /\ stage' = "done-airs"
       ELSE verdict' = verdict /\ stage' = "batch"
    /\ UNCHANGED <<config, trace, alts, serde, foreignEq>>

Batch ==
    /\ stage = "batch"
    /\ LET commonChanged == Has("common", "other") \/ Has("common", "invalid") \/ (Has("foreign", "other") /\ ~foreignEq)
       IN verdict' = IF commonChanged \/ trace # "honest" THEN "reject" ELSE "accept"
    /\ stage' = "done-batch"
    /\ UNCHANGED <<config, trace, alts, serde, foreignEq>>

Next == Validate \/ Params \/ Airs \/ Batch
Spec == Init /\ [][Next]_vars

Done == verdict # "running"

TypeOK == verdict \in {"running", "accept", "reject"}
NoRescue == verdict = "accept" => trace = "honest"
ParamsEnforced == verdict = "accept" => ~Has("param", "other")
TableSetEnforced == verdict = "accept" => ~Has("airs", "other")
=============================================================================
