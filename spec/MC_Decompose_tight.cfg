SPECIFICATION Spec
CONSTANTS
  P = 5
  NBits = 2
  BoolEnforced = TRUE
  Unchecked = {}
  RangeChecked = FALSE
INVARIANTS
  EmitReplay
CHECK_DEADLOCK FALSE
