SPECIFICATION Spec
CONSTANTS
  MaxRows = 5
  MinHeights = {1, 8}
  Variant = "no_wrap"
  FirstRowStarts = TRUE
INVARIANTS
  ReadsCountedAsPerformed
CHECK_DEADLOCK FALSE
