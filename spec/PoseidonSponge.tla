---------------------------- MODULE PoseidonSponge ----------------------------
(***************************************************************************)
(* Circuit-level row constraints of the Poseidon tables in SPONGE mode      *)
(* (the challenger's and the leaf hashes' permutations), as a window of two *)
(* consecutive rows over GF(P): R rate limbs and C capacity limbs, each     *)
(* abstracted to one field element.                                         *)
(*                                                                          *)
(*   Layout "ext" (extension-degree tables, Poseidon2 and Poseidon1,        *)
(*   eval_circuit non-compact branch): every limb i - rate or capacity -     *)
(*   carries the preprocessed selector normal_chain_sel_i =                 *)
(*   (1 - new_start)(1 - merkle)(1 - in_ctl_i): next.in_i = out_i.          *)
(*   A chain start constrains nothing: its limbs are either loaded from the *)
(*   witness bus (in_ctl) or free.                                          *)
(*   Layout "compact" (D = 1): rate limbs as above; the capacity limbs are  *)
(*   never loaded from the bus, they share cap_chain_enable = 1 - new_start *)
(*   and the first capacity element absorbs the length tag:                 *)
(*   next.in_c = out_c + [c first] tag; on a chain start the capacity is    *)
(*   (tag, 0, .., 0).                                                       *)
(*                                                                          *)
(* C11: the constraints accept a window iff it is a sponge step: a          *)
(* continuation row takes over every limb it does not load from the bus,    *)
(* a chain start begins from the fresh capacity.                            *)
(*                                                                          *)
(* wrap: the window is the cyclic wrap-around (last row of the padded      *)
(* trace, row 0); chaining constraints are transition constraints and do   *)
(* not apply there, row 0 always starts a chain; the chain-start           *)
(* constraint of the compact layout is deliberately NOT a transition       *)
(* constraint (WrapCovered = TRUE; fix 5fca03e): with WrapCovered = FALSE  *)
(* the first row of the table may start from any capacity.                 *)
(* CapChained: the capacity limbs whose chaining constraint is emitted      *)
(* (code: all of them).  For "ext" the fresh capacity of a chain start is   *)
(* not the table's business (FreshStart is violated there: the recorded     *)
(* finding that unexposed limbs of a chain start are prover-chosen).        *)
(***************************************************************************)
EXTENDS Integers, FiniteSets, TLC, Json

CONSTANTS P, R, C, Layout, CapChained, WrapCovered

GF == 0..(P - 1)
M(x) == x % P
Rate == 0..(R - 1)
Cap == R..(R + C - 1)
Limbs == 0..(R + C - 1)

VARIABLES out, inp, ns, ctl, tag, wrap
vars == <<out, inp, ns, ctl, tag, wrap>>
Init == /\ out \in [Limbs -> GF] /\ inp \in [Limbs -> GF]
        /\ ns \in BOOLEAN
        /\ ctl \in [Limbs -> BOOLEAN]
        /\ (Layout = "compact" => \A c \in Cap : ~ctl[c])
        /\ tag \in (IF Layout = "compact" THEN GF ELSE {0})
        /\ wrap \in BOOLEAN /\ (wrap => ns)
Next == UNCHANGED vars
Spec == Init /\ [][Next]_vars

Tag(c) == IF c = R THEN tag ELSE 0
AcceptsW(o, i, s, ct, wr) ==
    /\ (~s /\ ~wr) => /\ \A r \in Rate : ~ct[r] => i[r] = o[r]
             /\ IF Layout = "ext" THEN \A c \in Cap : ~ct[c] => i[c] = o[c]
                ELSE \A c \in CapChained : i[c] = M(o[c] + Tag(c))
    /\ (s /\ Layout = "compact" /\ (~wr \/ WrapCovered)) => \A c \in Cap : i[c] = Tag(c)
Accepts == AcceptsW(out, inp, ns, ctl, wrap)
RelationW(o, i, s, ct) ==
    /\ ~s => \A l \in Limbs : ~ct[l] => i[l] = M(o[l] + (IF Layout = "compact" /\ l \in Cap THEN Tag(l) ELSE 0))
    /\ (s /\ Layout = "compact") => \A c \in Cap : i[c] = Tag(c)
Relation == RelationW(out, inp, ns, ctl)
ConstraintIffRelation == Accepts <=> Relation
Sound == Accepts => Relation
\* a chain starts from the fresh capacity (zero, plus the tag in the compact layout) unless the limb is loaded from the bus
FreshStart == (Accepts /\ ns) => \A c \in Cap : ~ctl[c] => inp[c] = Tag(c)

\* ------------------------------------------------------------------ deviation classes replayed into the real AIRs (tag = 0)
O0 == [l \in Limbs |-> 1]
NoCtl == [l \in Limbs |-> FALSE]
Ctl0 == [l \in Limbs |-> l = 0]
Dev(dev) ==
    CASE dev = "none"                -> <<O0, O0, FALSE, NoCtl>>
      [] dev = "rate-limb"           -> <<O0, [O0 EXCEPT ![R - 1] = 2], FALSE, NoCtl>>
      [] dev = "capacity-limb-first" -> <<O0, [O0 EXCEPT ![R] = 2], FALSE, NoCtl>>
      [] dev = "capacity-limb-last"  -> <<O0, [O0 EXCEPT ![R + C - 1] = 2], FALSE, NoCtl>>
      [] dev = "ctl-limb"            -> <<O0, [O0 EXCEPT ![0] = 2], FALSE, Ctl0>>
      [] dev \in {"start-capacity", "first-row-start-capacity"} -> <<O0, [l \in Limbs |-> IF l = R + C - 1 THEN 2 ELSE 0], TRUE, NoCtl>>
Devs == {"none", "rate-limb", "capacity-limb-first", "capacity-limb-last", "ctl-limb", "start-capacity", "first-row-start-capacity"}
CaseRec(dev) == LET w == Dev(dev) IN
    [spec |-> "PoseidonSponge", layout |-> Layout, dev |-> dev,
     model_accepts |-> AcceptsW(w[1], w[2], w[3], w[4], dev = "first-row-start-capacity"),
     in_relation |-> RelationW(w[1], w[2], w[3], w[4]) /\ (dev \in {"start-capacity", "first-row-start-capacity"} => FALSE)]
CaseInit == out = O0 /\ inp = O0 /\ ns = FALSE /\ ctl = NoCtl /\ tag = 0 /\ wrap = FALSE
CaseSpec == CaseInit /\ [][Next]_vars
EmitCases == \A dev \in Devs : PrintT(<<"REPLAY", ToJson(CaseRec(dev))>>)
=============================================================================
