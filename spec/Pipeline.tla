------------------------------- MODULE Pipeline -------------------------------
(***************************************************************************)
(* The circuit compilation pipeline of Plonky3-recursion as a state        *)
(* machine, written to be bound to the code:                               *)
(*                                                                         *)
(*   builder API call  (one action per public CircuitBuilder method)       *)
(*     -> expression DAG with constant pool, folding rules and CSE pools   *)
(*        (circuit/src/builder/expression_builder.rs)                      *)
(*   Lower   (ExpressionLowerer: const / public / private / op phases,     *)
(*            connect-DSU slot sharing, backward sub/div encodings, the    *)
(*            sub fast path with its synthetic constant)                   *)
(*   Dedup   (optimizer/dedup.rs, AluKey of optimizer/analysis.rs)         *)
(*   Fuse    (optimizer/fuse_mul_add.rs, three phases)                     *)
(*   Finish  (witness rewrite applied to expr_to_widx / public_rows)       *)
(*                                                                         *)
(* and, on the finished circuit, as pure operators evaluated by TLC for    *)
(* every input / every slot assignment over GF(P):                         *)
(*   Run      CircuitRunner (forward / backward ALU execution, conflicts)  *)
(*   SatOps   the set of slot assignments that satisfy the emitted ops     *)
(*            alone -- what a verifier of the op list is able to see       *)
(*   Bus      generate_preprocessed_columns' creator / reader roles        *)
(*                                                                         *)
(* Deviations of the code from the sound design are explicit: the three    *)
(* CONSTANT flags FixD1, FixD2, FixFuse select, per optimizer step, the    *)
(* guard that makes it sound (TRUE) or the guard the code has (FALSE).     *)
(***************************************************************************)
EXTENDS Integers, Sequences, FiniteSets, TLC

CONSTANTS
    P,          \* field modulus of the model (3, 5 or 7)
    NPUB,       \* public inputs declared in the prelude
    NPRIV,      \* private inputs declared in the prelude
    PreConsts,  \* constants defined in the prelude (besides the built-in 0)
    MaxCalls,   \* value-producing builder calls after the prelude
    MaxConn,    \* connect / assert_zero / assert_bool calls
    Kinds,      \* subset of the call alphabet
    FixD1,      \* dedup key of a Horner step includes its accumulator
    FixD2,      \* dedup keeps a duplicate whose out is already defined
    FixFuse,    \* fusion refuses a mul whose result slot is defined elsewhere
    FixAcc,     \* the use count of the fusion pass includes the accumulator a Horner step reads (fix 891f799)
    NoFold      \* enumerate only calls that create a new node (a folded / CSE'd call returns an
                \* existing id, so the program is equivalent to a shorter one)

GF == 0 .. P-1
None == -1                      \* absent slot / unset witness / undefined value

FAdd(a, b) == (a + b) % P
FSub(a, b) == (a - b + P) % P
FMul(a, b) == (a * b) % P
FInv(a) == CHOOSE x \in GF : (a * x) % P = 1

Max2(a, b) == IF a >= b THEN a ELSE b
Min2(a, b) == IF a <= b THEN a ELSE b
Range(f) == { f[x] : x \in DOMAIN f }

(***************************************************************************)
(* Expression DAG.  ExprId e of the code is index e+1 here; ZERO = 1.      *)
(***************************************************************************)
Node(k, a, b, c, d, v) == [k |-> k, a |-> a, b |-> b, c |-> c, d |-> d, v |-> v]
NConst(v)   == Node("const", 0, 0, 0, 0, v)
NPub(i)     == Node("pub",   0, 0, 0, 0, i)     \* i = position, 1-based
NPriv(i)    == Node("priv",  0, 0, 0, 0, i)
\* decompose_to_bits: a hint call node (a = decomposed expression) followed by one node per output bit
NHCall(x)   == Node("hcall", x, 0, 0, 0, 0)
NHOut(c, j) == Node("hout",  c, 0, 0, 0, j)
ZERO == 1

VARIABLES
    graph,      \* Seq(Node)
    conn,       \* Seq(<<a,b>>)   pending connects
    handles,    \* Seq(ExprId)    ids returned to the caller so far (prelude first)
    calls,      \* Seq(record)    the API calls made, for replay and FoldingSound
    nconn,      \* connect-like calls made
    stage,      \* "build" | "lowered" | "deduped" | "fused" | "done"
    ops,        \* Seq(op)        current op list
    w2,         \* expr -> slot   (expr_to_widx), domain 1..Len(graph) (None if unmapped)
    pubrows,    \* Seq(slot)
    privrows,   \* Seq(slot)
    nslots,     \* witness_count
    rewrite     \* set of <<dup, canonical>> pairs

vars == <<graph, conn, handles, calls, nconn, stage, ops, w2, pubrows, privrows, nslots, rewrite>>

IsC(g, x)  == g[x].k = "const"
IsC0(g, x) == IsC(g, x) /\ g[x].v = 0
IsC1(g, x) == IsC(g, x) /\ g[x].v = 1

\* index of the first node satisfying Pred, or 0
FindNode(g, Pred(_)) ==
    LET S == { i \in 1..Len(g) : Pred(g[i]) } IN
    IF S = {} THEN 0 ELSE CHOOSE i \in S : \A j \in S : i <= j

\* Result of a builder operation: new graph and returned id.
R(g, r) == [g |-> g, r |-> r]

DefConst(g, v) ==
    LET i == FindNode(g, LAMBDA n : n.k = "const" /\ n.v = v) IN
    IF i # 0 THEN R(g, i) ELSE R(Append(g, NConst(v)), Len(g) + 1)

Cse(g, n, Same(_)) ==
    LET i == FindNode(g, Same) IN
    IF i # 0 THEN R(g, i) ELSE R(Append(g, n), Len(g) + 1)

AddE(g, l, r) ==
    IF IsC0(g, l) THEN R(g, r)
    ELSE IF IsC0(g, r) THEN R(g, l)
    ELSE IF IsC(g, l) /\ IsC(g, r) THEN DefConst(g, FAdd(g[l].v, g[r].v))
    ELSE Cse(g, Node("add", l, r, 0, 0, 0),
             LAMBDA n : n.k = "add" /\ {n.a, n.b} = {l, r} /\ (l = r => n.a = n.b))

SubE(g, l, r) ==
    IF IsC0(g, r) THEN R(g, l)
    ELSE IF l = r THEN R(g, ZERO)
    ELSE IF IsC(g, l) /\ IsC(g, r) THEN DefConst(g, FSub(g[l].v, g[r].v))
    ELSE Cse(g, Node("sub", l, r, 0, 0, 0), LAMBDA n : n.k = "sub" /\ n.a = l /\ n.b = r)

MulE(g, l, r) ==
    IF IsC0(g, l) \/ IsC0(g, r) THEN R(g, ZERO)
    ELSE IF IsC1(g, l) THEN R(g, r)
    ELSE IF IsC1(g, r) THEN R(g, l)
    ELSE IF IsC(g, l) /\ IsC(g, r) THEN DefConst(g, FMul(g[l].v, g[r].v))
    ELSE Cse(g, Node("mul", l, r, 0, 0, 0),
             LAMBDA n : n.k = "mul" /\ {n.a, n.b} = {l, r} /\ (l = r => n.a = n.b))

DivE(g, l, r) ==
    IF IsC1(g, r) THEN R(g, l)
    ELSE IF IsC0(g, l) THEN R(g, ZERO)
    ELSE IF l = r THEN DefConst(g, 1)
    ELSE Cse(g, Node("div", l, r, 0, 0, 0), LAMBDA n : n.k = "div" /\ n.a = l /\ n.b = r)

MulAddE(g, a, b, c) ==
    IF IsC(g, a) /\ IsC(g, b) /\ IsC(g, c)
    THEN DefConst(g, FAdd(FMul(g[a].v, g[b].v), g[c].v))
    ELSE Cse(g, Node("muladd", a, b, c, 0, 0),
             LAMBDA n : n.k = "muladd" /\ n.c = c /\ {n.a, n.b} = {a, b} /\ (a = b => n.a = n.b))

\* horner_acc_step(acc, alpha, p_at_z, p_at_x): a=acc b=alpha c=p_at_z d=p_at_x
HornerE(g, acc, al, pz, px) ==
    IF IsC(g, acc) /\ IsC(g, al) /\ IsC(g, pz) /\ IsC(g, px)
    THEN DefConst(g, FSub(FAdd(FMul(g[acc].v, g[al].v), g[pz].v), g[px].v))
    ELSE Cse(g, Node("horner", acc, al, pz, px, 0),
             LAMBDA n : n.k = "horner" /\ n.a = acc /\ n.b = al /\ n.c = pz /\ n.d = px)

BoolE(g, x) ==
    IF IsC0(g, x) \/ IsC1(g, x) THEN R(g, x)
    ELSE Cse(g, Node("bool", x, 0, 0, 0, 0), LAMBDA n : n.k = "bool" /\ n.a = x)

SelectE(g, b, t, s) ==
    IF t = s THEN R(g, s)
    ELSE IF IsC0(g, b) THEN R(g, s)
    ELSE IF IsC1(g, b) THEN R(g, t)
    ELSE LET d == SubE(g, t, s) IN MulAddE(d.g, b, d.r, s)

(***************************************************************************)
(* Prelude: zero, public inputs, private inputs, constants.                *)
(***************************************************************************)
RECURSIVE PreludeConsts(_, _)
PreludeConsts(g, cs) ==
    IF cs = <<>> THEN g ELSE PreludeConsts(DefConst(g, Head(cs)).g, Tail(cs))

PreludeGraph ==
    PreludeConsts(
        <<NConst(0)>> \o [i \in 1..NPUB |-> NPub(i)] \o [i \in 1..NPRIV |-> NPriv(i)],
        PreConsts)

Init ==
    /\ graph = PreludeGraph
    /\ conn = <<>>
    /\ handles = [i \in 1..Len(PreludeGraph) |-> i]
    /\ calls = <<>>
    /\ nconn = 0
    /\ stage = "build"
    /\ ops = <<>>
    /\ w2 = <<>>
    /\ pubrows = <<>>
    /\ privrows = <<>>
    /\ nslots = 0
    /\ rewrite = {}

Operands == Range(handles)
\* position (0-based) in `handles` of the first handle equal to e: how the replay names it
HandleOf(e) == (CHOOSE i \in 1..Len(handles) : handles[i] = e /\ \A j \in 1..Len(handles) : handles[j] = e => i <= j) - 1

NCalls == Len(SelectSeq(calls, LAMBDA c : c.ret # 0))

Call(op, args, ret) == [op |-> op, args |-> args, ret |-> ret]

ValueCall(op, args, res) ==
    /\ NoFold => Len(res.g) > Len(graph)
    /\ graph' = res.g
    /\ handles' = Append(handles, res.r)
    /\ calls' = Append(calls, Call(op, [i \in 1..Len(args) |-> HandleOf(args[i])], res.r))
    /\ UNCHANGED <<conn, nconn, stage, ops, w2, pubrows, privrows, nslots, rewrite>>

\* value-producing calls come first, connect-like calls afterwards: pending connects are only
\* consumed by Lower, so their position among the calls is unobservable
CanCall(k) == stage = "build" /\ k \in Kinds /\ NCalls < MaxCalls /\ nconn = 0

Add2 == CanCall("add") /\ \E l, r \in Operands : ValueCall("add", <<l, r>>, AddE(graph, l, r))
Sub2 == CanCall("sub") /\ \E l, r \in Operands : ValueCall("sub", <<l, r>>, SubE(graph, l, r))
Mul2 == CanCall("mul") /\ \E l, r \in Operands : ValueCall("mul", <<l, r>>, MulE(graph, l, r))
Div2 == CanCall("div") /\ \E l, r \in Operands : ValueCall("div", <<l, r>>, DivE(graph, l, r))
MulAdd3 == CanCall("muladd") /\ \E a, b, c \in Operands :
              ValueCall("muladd", <<a, b, c>>, MulAddE(graph, a, b, c))
Horner4 == CanCall("horner") /\ \E a, b, c, d \in Operands :
              ValueCall("horner", <<a, b, c, d>>, HornerE(graph, a, b, c, d))
Select3 == CanCall("select") /\ \E b, t, s \in Operands :
              ValueCall("select", <<b, t, s>>, SelectE(graph, b, t, s))

NBools == Len(SelectSeq(calls, LAMBDA c : c.op = "abool"))
\* decompose_to_bits(x, 2): hint with two outputs, then reconstruct_index_from_bits: per bit j
\* define_const(2^j), assert_bool(b_j), acc = mul_add(b_j, 2^j, acc); finally connect(x, acc).
Bits2Result(g, cn, x) ==
    LET call == Len(g) + 1
        b0 == call + 1
        b1 == call + 2
        g1 == g \o <<NHCall(x), NHOut(call, 0), NHOut(call, 1)>>
        c1 == DefConst(g1, 1)
        k0 == BoolE(c1.g, b0)
        a1 == MulAddE(k0.g, b0, c1.r, ZERO)
        c2 == DefConst(a1.g, 2 % P)
        k1 == BoolE(c2.g, b1)
        a2 == MulAddE(k1.g, b1, c2.r, a1.r)
        cn1 == IF b0 = k0.r THEN cn ELSE Append(cn, <<b0, k0.r>>)
        cn2 == IF b1 = k1.r THEN cn1 ELSE Append(cn1, <<b1, k1.r>>)
        cn3 == IF x = a2.r THEN cn2 ELSE Append(cn2, <<x, a2.r>>)
    IN [g |-> a2.g, cn |-> cn3, b0 |-> b0, b1 |-> b1]

Bits2 ==
    /\ CanCall("bits2")
    /\ \E x \in Operands :
          LET res == Bits2Result(graph, conn, x) IN
          /\ graph' = res.g
          /\ conn' = res.cn
          /\ handles' = handles \o <<res.b0, res.b1>>
          /\ calls' = Append(calls, Call("bits2", <<HandleOf(x)>>, res.b0))
    /\ UNCHANGED <<nconn, stage, ops, w2, pubrows, privrows, nslots, rewrite>>

CanConn(k) == stage = "build" /\ k \in Kinds /\ nconn + NBools < MaxConn

ConnectPair(a, b) == IF a = b THEN conn ELSE Append(conn, <<a, b>>)

Connect ==
    /\ CanConn("connect")
    /\ \E a, b \in Operands :
          /\ a < b        \* connect is symmetric up to DSU root choice, which nothing observes
          /\ conn' = ConnectPair(a, b)
          /\ calls' = Append(calls, Call("connect", <<HandleOf(a), HandleOf(b)>>, 0))
    /\ nconn' = nconn + 1
    /\ UNCHANGED <<graph, handles, stage, ops, w2, pubrows, privrows, nslots, rewrite>>

AssertZero ==
    /\ CanConn("azero")
    /\ \E a \in Operands :
          /\ a # ZERO
          /\ conn' = ConnectPair(a, ZERO)
          /\ calls' = Append(calls, Call("azero", <<HandleOf(a)>>, 0))
    /\ nconn' = nconn + 1
    /\ UNCHANGED <<graph, handles, stage, ops, w2, pubrows, privrows, nslots, rewrite>>

\* assert_bool appends a BoolCheck node to the graph, so unlike connect / assert_zero its position
\* among the value-producing calls is observable: it may come before later calls.  It shares the
\* MaxConn budget; `nbool` counts it separately so that value calls remain enabled after it.
AssertBool ==
    /\ stage = "build" /\ "abool" \in Kinds /\ nconn = 0 /\ NBools < MaxConn
    /\ \E a \in Operands :
          LET res == BoolE(graph, a) IN
          /\ graph' = res.g
          /\ conn' = ConnectPair(a, res.r)
          /\ calls' = Append(calls, Call("abool", <<HandleOf(a)>>, 0))
    /\ UNCHANGED <<handles, nconn, stage, ops, w2, pubrows, privrows, nslots, rewrite>>

(***************************************************************************)
(* Lowering.                                                               *)
(***************************************************************************)
\* connect classes: least fixpoint of the pairs
RECURSIVE ClassOf(_, _)
ClassOf(S, cn) ==
    LET T == S \cup { p[1] : p \in { q \in Range(cn) : q[2] \in S } }
                \cup { p[2] : p \in { q \in Range(cn) : q[1] \in S } } IN
    IF T = S THEN S ELSE ClassOf(T, cn)

InConnect(e, cn) == \E p \in Range(cn) : p[1] = e \/ p[2] = e
\* the synthetic id of the sub fast path is ExprId(len(graph)), i.e. index Len(g)+1 here
SynId(g) == Len(g) + 1

SubFast(g, n) == n.k = "sub" /\ g[n.a].k = "mul" /\ g[n.b].k = "const"

\* Allocation requests in the order the lowerer issues them.
AllocOrder(g) ==
    LET consts == SelectSeq([i \in 1..Len(g) |-> i], LAMBDA i : g[i].k = "const")
        pubs   == SelectSeq([i \in 1..Len(g) |-> i], LAMBDA i : g[i].k = "pub")
        privs  == SelectSeq([i \in 1..Len(g) |-> i], LAMBDA i : g[i].k = "priv")
        RECURSIVE Rest(_)
        Rest(i) == IF i > Len(g) THEN <<>>
                   ELSE IF g[i].k \in {"const", "pub", "priv", "hout"} THEN Rest(i + 1)
                   ELSE IF g[i].k = "hcall" THEN <<i + 1, i + 2>> \o Rest(i + 1)
                   ELSE IF SubFast(g, g[i]) THEN <<i, SynId(g)>> \o Rest(i + 1)
                   ELSE <<i>> \o Rest(i + 1)
    IN consts \o pubs \o privs \o Rest(1)

\* key of an allocation request: its connect class if it has one, else itself + position
\* (every non-connected request gets a fresh slot, also the repeated synthetic id)
AllocKey(req, j, cn) == IF InConnect(req, cn) THEN <<"c", ClassOf({req}, cn)>> ELSE <<"f", j>>

\* slot (0-based) of the j-th allocation request
SlotsOfOrder(order, cn) ==
    LET keys == [j \in 1..Len(order) |-> AllocKey(order[j], j, cn)]
        firstv == [j \in 1..Len(order) |-> CHOOSE i \in 1..j : keys[i] = keys[j] /\ \A h \in 1..(i-1) : keys[h] # keys[j]]
        firsts == Range(firstv)
    IN [j \in 1..Len(order) |-> Cardinality({ f \in firsts : f < firstv[j] })]

\* op records
OConst(out, v)        == [k |-> "Const",  a |-> None, b |-> None, c |-> None, out |-> out, io |-> None, v |-> v]
OPublic(out, pos)     == [k |-> "Public", a |-> None, b |-> None, c |-> None, out |-> out, io |-> None, v |-> pos]
\* Op::Hint of decompose_to_bits with two outputs: a = input slot, out / c = output slots
OHint(inp, o0, o1) == [k |-> "Hint", a |-> inp, b |-> None, c |-> o1, out |-> o0, io |-> None, v |-> 0]
OAlu(k, a, b, c, o, io) == [k |-> k, a |-> a, b |-> b, c |-> c, out |-> o, io |-> io, v |-> 0]

LowerResult(g, cn) ==
    LET order == AllocOrder(g)
        slots == SlotsOfOrder(order, cn)
        \* position of node i's own request / of the synthetic request following node i
        posOf == [i \in 1..Len(g) |-> IF g[i].k = "hcall" THEN 0 ELSE CHOOSE j \in 1..Len(order) : order[j] = i]
        posSyn(i) == posOf[i] + 1     \* the synthetic request directly follows its sub node
        W == [i \in 1..Len(g) |-> IF g[i].k = "hcall" THEN None ELSE slots[posOf[i]]]
        consts == SelectSeq([i \in 1..Len(g) |-> i], LAMBDA i : g[i].k = "const")
        pubs   == SelectSeq([i \in 1..Len(g) |-> i], LAMBDA i : g[i].k = "pub")
        privs  == SelectSeq([i \in 1..Len(g) |-> i], LAMBDA i : g[i].k = "priv")
        OpsOf(i) ==
            LET n == g[i] IN
            CASE n.k = "add"    -> <<OAlu("Add", W[n.a], W[n.b], None, W[i], None)>>
              [] n.k = "sub"    -> IF SubFast(g, n)
                                   THEN <<OConst(slots[posSyn(i)], FSub(0, g[n.b].v)),
                                          OAlu("Add", W[n.a], slots[posSyn(i)], None, W[i], None)>>
                                   ELSE <<OAlu("Add", W[n.b], W[i], None, W[n.a], None)>>
              [] n.k = "mul"    -> <<OAlu("Mul", W[n.a], W[n.b], None, W[i], None)>>
              [] n.k = "div"    -> <<OAlu("Mul", W[n.b], W[i], None, W[n.a], None)>>
              [] n.k = "muladd" -> <<OAlu("MulAdd", W[n.a], W[n.b], W[n.c], W[i], None)>>
              [] n.k = "horner" -> <<OAlu("Horner", W[n.d], W[n.b], W[n.c], W[i], W[n.a])>>
              [] n.k = "bool"   -> <<OAlu("Bool", W[n.a], W[ZERO], W[n.a], W[i], None)>>
              [] n.k = "hcall"  -> <<OHint(W[n.a], W[i + 1], W[i + 2])>>
              [] OTHER          -> <<>>
        RECURSIVE Emit(_)
        Emit(i) == IF i > Len(g) THEN <<>> ELSE OpsOf(i) \o Emit(i + 1)
    IN [ ops |-> [j \in 1..Len(consts) |-> OConst(W[consts[j]], g[consts[j]].v)]
                 \o [j \in 1..Len(pubs) |-> OPublic(W[pubs[j]], g[pubs[j]].v)]
                 \o Emit(1),
         w |-> W,
         pubrows  |-> [j \in 1..Len(pubs)  |-> W[pubs[j]]],
         privrows |-> [j \in 1..Len(privs) |-> W[privs[j]]],
         n |-> Cardinality(Range(slots)) ]

Lower ==
    /\ stage = "build"
    /\ LET res == LowerResult(graph, conn) IN
         /\ ops' = res.ops
         /\ w2' = res.w
         /\ pubrows' = res.pubrows
         /\ privrows' = res.privrows
         /\ nslots' = res.n
    /\ stage' = "lowered"
    /\ UNCHANGED <<graph, conn, handles, calls, nconn, rewrite>>

(***************************************************************************)
(* Dedup.                                                                  *)
(***************************************************************************)
RECURSIVE Resolve(_, _)
Resolve(s, rw) ==
    IF s = None THEN None
    ELSE IF \E p \in rw : p[1] = s THEN Resolve((CHOOSE p \in rw : p[1] = s)[2], rw) ELSE s
\* the slots the fusion pass treats as externally defined: the private-input slots AFTER the de-duplication rewrite
\* (optimizer/mod.rs resolves them through the rewrite map before handing them to MulAddFusion)
ExtSlots == { Resolve(privrows[i], rewrite) : i \in DOMAIN privrows }

ApplyRw(op, rw) ==
    [op EXCEPT !.a = Resolve(@, rw), !.b = Resolve(@, rw), !.c = Resolve(@, rw),
               !.out = Resolve(@, rw), !.io = Resolve(@, rw)]

IsAlu(op) == op.k \in {"Add", "Mul", "Bool", "MulAdd", "Horner"}

\* AluKey::new.  The code ignores the accumulator of a Horner step (D1).
AluKey(op) ==
    CASE op.k \in {"Add", "Mul"} -> <<op.k, Min2(op.a, op.b), Max2(op.a, op.b), 0, None>>
      [] op.k = "Bool"           -> <<op.k, op.a, op.b, 0, None>>
      [] op.k = "MulAdd"         -> <<op.k, op.a, op.b, op.c, None>>
      [] op.k = "Horner"         -> <<op.k, op.a, op.b, op.c, IF FixD1 THEN op.io ELSE None>>

\* slots some op already in `res` mentions (reads or writes): used by the sound guard of D2
DefinedBy(res) == UNION { {res[i].a, res[i].b, res[i].c, res[i].out, res[i].io} : i \in 1..Len(res) } \ {None}

RECURSIVE DedupFold(_, _, _, _)
DedupFold(rest, res, rw, seen) ==
    IF rest = <<>> THEN [ops |-> res, rw |-> rw]
    ELSE LET op == ApplyRw(Head(rest), rw) IN
         IF IsAlu(op) /\ \E s \in seen : s[1] = AluKey(op)
         THEN LET canonical == (CHOOSE s \in seen : s[1] = AluKey(op))[2]
                  root == Resolve(canonical, rw)
                  \* sound guard: a duplicate whose out slot another op already writes is
                  \* kept as a check; the code removes it and redirects later uses only
                  keep == FixD2 /\ op.out # root /\ op.out \in DefinedBy(res)
              IN IF keep THEN DedupFold(Tail(rest), Append(res, op), rw, seen)
                 ELSE DedupFold(Tail(rest), res,
                                IF op.out # root THEN rw \cup {<<op.out, root>>} ELSE rw, seen)
         ELSE DedupFold(Tail(rest), Append(res, op), rw,
                        IF IsAlu(op) THEN seen \cup {<<AluKey(op), op.out>>} ELSE seen)

Dedup ==
    /\ stage = "lowered"
    /\ LET res == DedupFold(ops, <<>>, {}, {}) IN
         /\ ops' = res.ops
         /\ rewrite' = res.rw
    /\ stage' = "deduped"
    /\ UNCHANGED <<graph, conn, handles, calls, nconn, w2, pubrows, privrows, nslots>>

(***************************************************************************)
(* Mul-add fusion.                                                         *)
(***************************************************************************)
\* defs: function slot -> [idx, kind, a, b] built by scan_defs; kind in Const/Mul/Other
UseCount(os, s) ==
    LET cnt(op) == (IF op.a = s THEN 1 ELSE 0) + (IF op.b = s THEN 1 ELSE 0) + (IF op.c = s THEN 1 ELSE 0)
                   + (IF FixAcc /\ op.k = "Horner" /\ op.io = s THEN 1 ELSE 0)
        RECURSIVE Sum(_)
        Sum(i) == IF i > Len(os) THEN 0 ELSE (IF IsAlu(os[i]) THEN cnt(os[i]) ELSE 0) + Sum(i + 1)
    IN Sum(1)

NoDef == [idx |-> None, kind |-> "None", a |-> None, b |-> None]
Def(i, kind, a, b) == [idx |-> i, kind |-> kind, a |-> a, b |-> b]

\* scan_defs as a fold; state = [defs, bw] with bw: slot -> idx of the backwards op computing it
RECURSIVE ScanDefs(_, _, _, _)
ScanDefs(os, i, defs, bw) ==
    IF i > Len(os) THEN [defs |-> defs, bw |-> bw]
    ELSE LET op == os[i]
             isConst(d, s) == d[s].kind = "Const"
             ins(d, s, df) == IF isConst(d, s) THEN d ELSE [d EXCEPT ![s] = df]
         IN
         IF op.k = "Const" THEN ScanDefs(os, i + 1, [defs EXCEPT ![op.out] = Def(i, "Const", None, None)], bw)
         ELSE IF op.k \in {"Mul", "Add"} THEN
              LET back == (FixFuse /\ op.out \in ExtSlots) \/ (defs[op.out].idx # None /\ defs[op.out].idx < i)
                  d1 == IF back THEN ins(defs, op.b, Def(i, "Other", None, None)) ELSE defs
                  bw1 == IF back THEN [bw EXCEPT ![op.b] = i] ELSE bw
                  d2 == ins(d1, op.out, IF op.k = "Mul" THEN Def(i, "Mul", op.a, op.b)
                                                         ELSE Def(i, "Other", None, None))
              IN ScanDefs(os, i + 1, d2, bw1)
         ELSE IF op.k = "Hint"
         THEN ScanDefs(os, i + 1, ins(ins(defs, op.out, Def(i, "Other", None, None)), op.c, Def(i, "Other", None, None)), bw)
         ELSE ScanDefs(os, i + 1, ins(defs, op.out, Def(i, "Other", None, None)), bw)

\* slots an op writes as output (a hint writes two)
OutsOf(op) == {op.out} \cup (IF op.k = "Hint" THEN {op.c} ELSE {})
\* slots written by an op other than the op at index i (creator elsewhere): sound guard
WrittenElsewhere(os, s, i) == \E j \in 1..Len(os) : j # i /\ s \in OutsOf(os[j])

NoCand == [mi |-> 0, addend |-> None, op |-> OAlu("None", None, None, None, None, None)]

FuseResult(os, n) ==
    LET Slots == 0 .. n   \* n = nslots; synthetic slots are included in nslots
        sc == ScanDefs(os, 1, [s \in Slots |-> NoDef], [s \in Slots |-> None])
        defs == sc.defs
        bw == sc.bw
        defIdx(s) == defs[s].idx
        isConst(s) == defs[s].kind = "Const"
        isBack(i, s) == (FixFuse /\ s \in ExtSlots) \/ (defIdx(s) # None /\ defIdx(s) < i)
        \* try_fuse(mul_result, addend, out, add_idx) -> candidate or NoCand
        TryFuse(m, addend, out, ai) ==
            IF defs[m].kind # "Mul" THEN NoCand
            ELSE LET mi == defs[m].idx  ma == defs[m].a  mb == defs[m].b IN
                 IF UseCount(os, m) # 1 \/ isConst(m) THEN NoCand
                 ELSE IF defIdx(addend) # None /\ defIdx(addend) >= ai THEN NoCand
                 ELSE IF bw[addend] # None /\ bw[addend] >= mi THEN NoCand
                 ELSE IF defIdx(mb) # None /\ defIdx(mb) >= mi THEN NoCand
                 ELSE IF FixFuse /\ (WrittenElsewhere(os, m, mi) \/ mi >= ai \/ m \in ExtSlots) THEN NoCand
                 ELSE [mi |-> mi, addend |-> addend,
                       op |-> OAlu("MulAdd", ma, mb, addend, out, m)]
        Cand(ai) ==
            LET op == os[ai] IN
            IF op.k # "Add" \/ isConst(op.out) \/ isBack(ai, op.out) THEN NoCand
            ELSE LET c1 == TryFuse(op.a, op.b, op.out, ai) IN
                 IF c1.mi # 0 THEN c1 ELSE TryFuse(op.b, op.a, op.out, ai)
        cands == { ai \in 1..Len(os) : Cand(ai).mi # 0 }
        RECURSIVE Filter(_)
        Filter(valid) ==
            LET fusedPos(s) ==
                    IF \E ai \in valid : os[ai].out = s
                    THEN Cand(CHOOSE ai \in valid : os[ai].out = s).mi
                    ELSE defIdx(s)
                nv == { ai \in valid : LET p == fusedPos(Cand(ai).addend) IN p = None \/ p < Cand(ai).mi }
            IN IF nv = valid THEN valid ELSE Filter(nv)
        valid == Filter(cands)
        muls == { Cand(ai).mi : ai \in valid }
        repl(i) == Cand(CHOOSE ai \in valid : Cand(ai).mi = i).op
        keepIdx == SelectSeq([i \in 1..Len(os) |-> i], LAMBDA i : i \notin valid)
    IN [i \in 1..Len(keepIdx) |-> IF keepIdx[i] \in muls THEN repl(keepIdx[i]) ELSE os[keepIdx[i]]]

\* C18: MulAddFusion::apply iterates a hash set (`for &add_idx in valid`), the first add to claim
\* a mul wins.  FuseOrdered replays that loop for one iteration order; FuseOrderIndependent says the
\* emitted op list does not depend on the order the runtime happens to choose.
FuseParts(os, n) ==
    LET Slots == 0 .. n
        sc == ScanDefs(os, 1, [s \in Slots |-> NoDef], [s \in Slots |-> None])
        defs == sc.defs
        bw == sc.bw
        defIdx(s) == defs[s].idx
        isConst(s) == defs[s].kind = "Const"
        isBack(i, s) == (FixFuse /\ s \in ExtSlots) \/ (defIdx(s) # None /\ defIdx(s) < i)
        TryFuse(m, addend, out, ai) ==
            IF defs[m].kind # "Mul" THEN NoCand
            ELSE LET mi == defs[m].idx  ma == defs[m].a  mb == defs[m].b IN
                 IF UseCount(os, m) # 1 \/ isConst(m) THEN NoCand
                 ELSE IF defIdx(addend) # None /\ defIdx(addend) >= ai THEN NoCand
                 ELSE IF bw[addend] # None /\ bw[addend] >= mi THEN NoCand
                 ELSE IF defIdx(mb) # None /\ defIdx(mb) >= mi THEN NoCand
                 ELSE IF FixFuse /\ (WrittenElsewhere(os, m, mi) \/ mi >= ai \/ m \in ExtSlots) THEN NoCand
                 ELSE [mi |-> mi, addend |-> addend, op |-> OAlu("MulAdd", ma, mb, addend, out, m)]
        Cand(ai) ==
            LET op == os[ai] IN
            IF op.k # "Add" \/ isConst(op.out) \/ isBack(ai, op.out) THEN NoCand
            ELSE LET c1 == TryFuse(op.a, op.b, op.out, ai) IN
                 IF c1.mi # 0 THEN c1 ELSE TryFuse(op.b, op.a, op.out, ai)
        cands == { ai \in 1..Len(os) : Cand(ai).mi # 0 }
        RECURSIVE Filter(_)
        Filter(valid) ==
            LET fusedPos(s) ==
                    IF \E ai \in valid : os[ai].out = s
                    THEN Cand(CHOOSE ai \in valid : os[ai].out = s).mi
                    ELSE defIdx(s)
                nv == { ai \in valid : LET p == fusedPos(Cand(ai).addend) IN p = None \/ p < Cand(ai).mi }
            IN IF nv = valid THEN valid ELSE Filter(nv)
        valid == Filter(cands)
    IN [valid |-> valid, cand |-> [ai \in valid |-> Cand(ai)]]

FuseOrdered(os, parts, order) ==      \* order: a sequence enumerating parts.valid
    LET RECURSIVE Loop(_, _, _)
        Loop(i, repl, consumed) ==     \* repl: set of <<mul_idx, op>>
            IF i > Len(order) THEN [repl |-> repl, consumed |-> consumed]
            ELSE LET ai == order[i]  c == parts.cand[ai] IN
                 IF \E r \in repl : r[1] = c.mi THEN Loop(i + 1, repl, consumed)
                 ELSE Loop(i + 1, repl \cup {<<c.mi, c.op>>}, consumed \cup {ai})
        res == Loop(1, {}, {})
        keepIdx == SelectSeq([i \in 1..Len(os) |-> i], LAMBDA i : i \notin res.consumed)
    IN [i \in 1..Len(keepIdx) |->
          IF \E r \in res.repl : r[1] = keepIdx[i]
          THEN (CHOOSE r \in res.repl : r[1] = keepIdx[i])[2] ELSE os[keepIdx[i]]]

SeqsOf(S) == { f \in [1..Cardinality(S) -> S] : \A i, j \in 1..Cardinality(S) : i # j => f[i] # f[j] }

FuseOrderIndependent ==
    stage = "deduped" =>
        LET parts == FuseParts(ops, nslots)
            ref == FuseResult(ops, nslots) IN
        \A order \in SeqsOf(parts.valid) : FuseOrdered(ops, parts, order) = ref

Fuse ==
    /\ stage = "deduped"
    /\ ops' = FuseResult(ops, nslots)
    /\ stage' = "fused"
    /\ UNCHANGED <<graph, conn, handles, calls, nconn, w2, pubrows, privrows, nslots, rewrite>>

Finish ==
    /\ stage = "fused"
    /\ w2' = [i \in DOMAIN w2 |-> Resolve(w2[i], rewrite)]
    /\ pubrows' = [i \in DOMAIN pubrows |-> Resolve(pubrows[i], rewrite)]
    /\ privrows' = [i \in DOMAIN privrows |-> Resolve(privrows[i], rewrite)]
    /\ stage' = "done"
    /\ UNCHANGED <<graph, conn, handles, calls, nconn, ops, nslots, rewrite>>

Next ==
    \/ Add2 \/ Sub2 \/ Mul2 \/ Div2 \/ MulAdd3 \/ Horner4 \/ Select3 \/ Bits2
    \/ Connect \/ AssertZero \/ AssertBool
    \/ Lower \/ Dedup \/ Fuse \/ Finish

Spec == Init /\ [][Next]_vars

(***************************************************************************)
(* Semantics.                                                              *)
(***************************************************************************)
Envs == [pub : [1..NPUB -> GF], priv : [1..NPRIV -> GF]]

\* Mathematical value of every node under env; None where undefined (zero divisor)
DenSeq(g, env) ==
    LET RECURSIVE D(_, _)
        D(i, acc) ==
          IF i > Len(g) THEN acc
          ELSE LET n == g[i]
                   v(x) == acc[x]
                   def2 == v(n.a) # None /\ v(n.b) # None
                   val ==
                     CASE n.k = "const"  -> n.v
                       [] n.k = "pub"    -> env.pub[n.v]
                       [] n.k = "priv"   -> env.priv[n.v]
                       [] n.k = "add"    -> IF def2 THEN FAdd(v(n.a), v(n.b)) ELSE None
                       [] n.k = "sub"    -> IF def2 THEN FSub(v(n.a), v(n.b)) ELSE None
                       [] n.k = "mul"    -> IF def2 THEN FMul(v(n.a), v(n.b)) ELSE None
                       [] n.k = "div"    -> IF def2 /\ v(n.b) # 0 THEN FMul(v(n.a), FInv(v(n.b))) ELSE None
                       [] n.k = "muladd" -> IF def2 /\ v(n.c) # None THEN FAdd(FMul(v(n.a), v(n.b)), v(n.c)) ELSE None
                       [] n.k = "horner" -> IF def2 /\ v(n.c) # None /\ v(n.d) # None
                                            THEN FSub(FAdd(FMul(v(n.a), v(n.b)), v(n.c)), v(n.d)) ELSE None
                       [] n.k = "bool"   -> v(n.a)
                       [] n.k = "hcall"  -> v(n.a)
                       [] n.k = "hout"   -> IF v(n.a) = None THEN None ELSE (v(n.a) \div (2 ^ n.v)) % 2
               IN D(i + 1, Append(acc, val))
    IN D(1, <<>>)

AllDefined(d) == \A i \in 1..Len(d) : d[i] # None
ConnectsHold(d, cn) == \A p \in Range(cn) : d[p[1]] = d[p[2]]
BoolsHold(g, d) == \A i \in 1..Len(g) : g[i].k = "bool" => d[g[i].a] \in {0, 1}

\* --- runner ---------------------------------------------------------------
Fail == [ok |-> FALSE, w |-> <<>>]
\* a runner error is the empty function; a live witness table has domain 0..n-1 (n >= 1)
Bad == <<>>
IsBad(w) == DOMAIN w = {}
\* set_witness: Bad on conflict
SetW(w, s, v) == IF w[s] = None THEN [w EXCEPT ![s] = v] ELSE IF w[s] = v THEN w ELSE Bad

RECURSIVE SetAll(_, _, _)
SetAll(w, slots, vals) ==   \* set_public_inputs / set_private_inputs
    IF IsBad(w) \/ slots = <<>> THEN w ELSE SetAll(SetW(w, Head(slots), Head(vals)), Tail(slots), Tail(vals))

ExecOp(w, op) ==      \* Bad on any runner error
    CASE op.k = "Const"  -> SetW(w, op.out, op.v)
      [] op.k = "Public" -> IF w[op.out] = None THEN Bad ELSE w
      [] op.k = "Add"    -> IF w[op.a] = None THEN Bad
                            ELSE IF w[op.b] # None THEN SetW(w, op.out, FAdd(w[op.a], w[op.b]))
                            ELSE IF w[op.out] = None THEN Bad
                            ELSE SetW(w, op.b, FSub(w[op.out], w[op.a]))
      [] op.k = "Mul"    -> IF w[op.a] = None THEN Bad
                            ELSE IF w[op.b] # None THEN SetW(w, op.out, FMul(w[op.a], w[op.b]))
                            ELSE IF w[op.out] = None THEN Bad
                            ELSE IF w[op.a] = 0 THEN Bad
                            ELSE SetW(w, op.b, FMul(w[op.out], FInv(w[op.a])))
      [] op.k = "Bool"   -> IF w[op.a] = None THEN Bad ELSE SetW(w, op.out, w[op.a])
      [] op.k = "Hint"   -> IF w[op.a] = None THEN Bad
                            ELSE LET w1 == SetW(w, op.out, w[op.a] % 2) IN
                                 IF IsBad(w1) THEN Bad ELSE SetW(w1, op.c, (w[op.a] \div 2) % 2)
      [] op.k = "MulAdd" -> IF w[op.a] = None \/ w[op.b] = None THEN Bad
                            ELSE LET ab == FMul(w[op.a], w[op.b])
                                     w1 == IF op.io # None THEN SetW(w, op.io, ab) ELSE w IN
                                 IF IsBad(w1) THEN Bad
                                 ELSE IF w1[op.c] = None THEN Bad
                                 ELSE SetW(w1, op.out, FAdd(ab, w1[op.c]))
      [] op.k = "Horner" -> IF w[op.io] = None \/ w[op.a] = None \/ w[op.b] = None \/ w[op.c] = None THEN Bad
                            ELSE SetW(w, op.out, FSub(FAdd(FMul(w[op.io], w[op.b]), w[op.c]), w[op.a]))

RECURSIVE ExecAll(_, _, _)
ExecAll(w, os, i) == IF IsBad(w) \/ i > Len(os) THEN w ELSE ExecAll(ExecOp(w, os[i]), os, i + 1)

RECURSIVE FillRw(_, _, _)
FillRw(w, pairs, rw) ==    \* post-run rewrite fill; order of the hash map is irrelevant to the outcome
    IF IsBad(w) \/ pairs = {} THEN w
    ELSE LET p == CHOOSE q \in pairs : TRUE
             r == Resolve(p[2], rw) IN
         FillRw(IF w[r] # None THEN SetW(w, p[1], w[r]) ELSE w, pairs \ {p}, rw)

\* set_public_inputs; set_private_inputs; run()
Run(os, prow, vrow, n, rw, env) ==
    LET w0 == [s \in 0..(n - 1) |-> None]
        w1 == SetAll(w0, prow, env.pub)
        w2_ == SetAll(w1, vrow, env.priv)
        w3 == ExecAll(w2_, os, 1)
        w4 == FillRw(w3, rw, rw)
    IN IF IsBad(w4) THEN Fail
       ELSE IF \E s \in DOMAIN w4 : w4[s] = None THEN Fail
       ELSE [ok |-> TRUE, w |-> w4]

\* the same run with the public or the private inputs never supplied (C19)
RunPartial(os, prow, vrow, n, rw, env, withPub, withPriv) ==
    LET w0 == [s \in 0..(n - 1) |-> None]
        w1 == IF withPub THEN SetAll(w0, prow, env.pub) ELSE w0
        w2_ == IF withPriv THEN SetAll(w1, vrow, env.priv) ELSE w1
        w3 == ExecAll(w2_, os, 1)
        w4 == FillRw(w3, rw, rw)
    IN IF IsBad(w4) THEN Fail
       ELSE IF \E s \in DOMAIN w4 : w4[s] = None THEN Fail
       ELSE [ok |-> TRUE, w |-> w4]

\* --- what the op list alone enforces -------------------------------------------
OpSlots(op) == IF op.k = "Hint" THEN {}     \* a hint asserts nothing
               ELSE { op.a, op.b, op.c, op.out, IF op.k = "Horner" THEN op.io ELSE None } \ {None}
MentionedSlots(op) == { op.a, op.b, op.c, op.out, IF op.k = "Horner" THEN op.io ELSE None } \ {None}

\* Slots no op reads or writes and no input row owns: the result slot of a fused multiplication
\* that nothing else observes.  The fused op is taken to define such a slot (ghost definition);
\* a fused mul whose slot IS observed elsewhere leaves that slot unconstrained by the op list.
LiveSlots(os) == UNION { MentionedSlots(os[i]) : i \in 1..Len(os) } \cup Range(pubrows) \cup Range(privrows)
Dead(os, s) == s # None /\ s \notin LiveSlots(os)

\* relation of one op over a (partial) assignment s that covers its slots; pv = public values
OpRel(op, s, pv) ==
    CASE op.k = "Const"  -> s[op.out] = op.v
      [] op.k = "Public" -> s[op.out] = pv[op.v]
      [] op.k = "Add"    -> FAdd(s[op.a], s[op.b]) = s[op.out]
      [] op.k = "Mul"    -> FMul(s[op.a], s[op.b]) = s[op.out]
      [] op.k = "Bool"   -> FMul(s[op.a], FSub(s[op.a], 1)) = 0 /\ s[op.out] = s[op.a]
      [] op.k = "MulAdd" -> FAdd(FMul(s[op.a], s[op.b]), s[op.c]) = s[op.out]
      [] op.k = "Horner" -> FSub(FAdd(FMul(s[op.io], s[op.b]), s[op.c]), s[op.a]) = s[op.out]
      [] op.k = "Hint"   -> TRUE

\* all extensions of the partial assignments in S to the slots of `need` satisfying Ok
Extend(S, need, Ok(_)) ==
    UNION { LET new == need \ DOMAIN s IN
            { s @@ t : t \in { u \in [new -> GF] : Ok(s @@ u) } } : s \in S }

RECURSIVE SatFold(_, _, _, _)
SatFold(S, os, i, pv) ==
    IF i > Len(os) THEN S
    ELSE LET op == os[i]
             ghost == op.k = "MulAdd" /\ Dead(os, op.io)
             need == OpSlots(op) \cup (IF ghost THEN {op.io} ELSE {}) IN
         SatFold(Extend(S, need, LAMBDA s : OpRel(op, s, pv) /\ (ghost => s[op.io] = FMul(s[op.a], s[op.b]))),
                 os, i + 1, pv)

EmptyFn == [x \in {} |-> 0]
SatOps(os, extra, pv) == Extend(SatFold({EmptyFn}, os, 1, pv), extra, LAMBDA s : TRUE)

\* relation each source node asserts, over slots through W
SrcRel(g, i, W, s, pv) ==
    LET n == g[i]  x(e) == s[W[e]] IN
    CASE n.k = "const"  -> x(i) = n.v
      [] n.k = "pub"    -> x(i) = pv[n.v]
      [] n.k = "priv"   -> TRUE
      [] n.k = "add"    -> x(i) = FAdd(x(n.a), x(n.b))
      [] n.k = "sub"    -> x(n.a) = FAdd(x(i), x(n.b))
      [] n.k = "mul"    -> x(i) = FMul(x(n.a), x(n.b))
      [] n.k = "div"    -> x(n.a) = FMul(x(i), x(n.b))
      [] n.k = "muladd" -> x(i) = FAdd(FMul(x(n.a), x(n.b)), x(n.c))
      [] n.k = "horner" -> x(i) = FSub(FAdd(FMul(x(n.a), x(n.b)), x(n.c)), x(n.d))
      [] n.k = "bool"   -> FMul(x(n.a), FSub(x(n.a), 1)) = 0 /\ x(i) = x(n.a)
      [] n.k \in {"hcall", "hout"} -> TRUE

SrcHolds(g, cn, W, s, pv) ==
    /\ \A i \in 1..Len(g) : SrcRel(g, i, W, s, pv)
    /\ \A p \in Range(cn) : s[W[p[1]]] = s[W[p[2]]]

PubVals == [1..NPUB -> GF]

(***************************************************************************)
(* Bus roles (circuit/src/circuit.rs generate_preprocessed_columns): the   *)
(* `defined[]` scan that decides, per ALU row, which operand cells send    *)
(* (create) or receive (read) their witness slot on the WitnessChecks bus, *)
(* and which are skipped.  Const and Public rows always create `out`.      *)
(***************************************************************************)
Privs == Range(privrows)
\* hint output slots that no Const / Public op also writes (hint_output_wids)
HintOuts(os) == UNION { OutsOf(os[i]) : i \in { j \in 1..Len(os) : os[j].k = "Hint" } }
                \ { os[i].out : i \in { j \in 1..Len(os) : os[j].k \in {"Const", "Public"} } }

\* role record of row i: state of a and c (0 skip, 1 reader, 2 creator), creator flags of b, out
RECURSIVE RolesFold(_, _, _, _)
RolesFold(os, i, defined, acc) ==
    IF i > Len(os) THEN [roles |-> acc, defined |-> defined]
    ELSE LET op == os[i]  PH == Privs \cup HintOuts(os) IN
    IF op.k \in {"Const", "Public"}
    THEN RolesFold(os, i + 1, defined \cup {op.out}, Append(acc, [a |-> 0, bc |-> FALSE, c |-> 0, oc |-> TRUE]))
    ELSE IF op.k = "Hint"     \* hints take no part in the preprocessed columns
    THEN RolesFold(os, i + 1, defined, Append(acc, [a |-> 0, bc |-> FALSE, c |-> 0, oc |-> FALSE]))
    ELSE
      LET outDef == op.out \in defined
          bDef == op.b \in defined
          aState == IF op.a \in defined THEN 1
                    ELSE IF op.a \in PH /\ ~(~outDef /\ op.a = op.out) THEN 2 ELSE 0
          cState == IF op.c = None THEN 0
                    ELSE IF op.c \in defined THEN 1
                    ELSE IF op.c \in PH /\ ~(~outDef /\ op.c = op.out) THEN 2 ELSE 0
          outCre == ~outDef
          \* a hint output in the out slot makes the op backward (b is then the solved operand)
          bCre == (~bDef /\ op.b \in Privs) \/ ((outDef \/ op.out \in HintOuts(os)) /\ ~bDef)
          d2 == defined \cup (IF outCre THEN {op.out} ELSE {}) \cup (IF bCre THEN {op.b} ELSE {})
                        \cup (IF aState = 2 THEN {op.a} ELSE {}) \cup (IF cState = 2 THEN {op.c} ELSE {})
      IN RolesFold(os, i + 1, d2, Append(acc, [a |-> aState, bc |-> bCre, c |-> cState, oc |-> outCre]))

BusOf(os) == RolesFold(os, 1, {}, <<>>)

\* number of rows that create / read slot s
Creators(os, Rl, s) ==
    Cardinality({ i \in 1..Len(os) : os[i].k # "Hint" /\ os[i].out = s /\ Rl[i].oc })
  + Cardinality({ i \in 1..Len(os) : IsAlu(os[i]) /\ os[i].b = s /\ Rl[i].bc })
  + Cardinality({ i \in 1..Len(os) : IsAlu(os[i]) /\ os[i].a = s /\ Rl[i].a = 2 })
  + Cardinality({ i \in 1..Len(os) : IsAlu(os[i]) /\ os[i].c = s /\ Rl[i].c = 2 })
Reads(os, Rl, s) ==
    Cardinality({ i \in 1..Len(os) : IsAlu(os[i]) /\ os[i].out = s /\ ~Rl[i].oc })
  + Cardinality({ i \in 1..Len(os) : IsAlu(os[i]) /\ os[i].b = s /\ ~Rl[i].bc })
  + Cardinality({ i \in 1..Len(os) : IsAlu(os[i]) /\ os[i].a = s /\ Rl[i].a = 1 })
  + Cardinality({ i \in 1..Len(os) : IsAlu(os[i]) /\ os[i].c = s /\ Rl[i].c = 1 })

UsesC(op) == op.k \in {"MulAdd", "Horner"}
\* an operand cell the row relation depends on, with no bus interaction, and not tied to a cell
\* that has one (the BoolCheck row ties a to out inside the row)
Floating(op, r) ==
    \/ (r.a = 0 /\ op.k # "Bool")
    \/ (UsesC(op) /\ r.c = 0)

\* C09 on the model
BusWellFormed ==
    LET B == BusOf(ops)  Rl == B.roles IN
    /\ \A s \in 0..(nslots - 1) : Reads(ops, Rl, s) > 0 => Creators(ops, Rl, s) = 1
    /\ \A i \in 1..Len(ops) : IsAlu(ops[i]) => ~Floating(ops[i], Rl[i])
    /\ Privs \subseteq B.defined


(***************************************************************************)
(* Properties (evaluated in stage "done").                                 *)
(***************************************************************************)
\* C03: the op list alone implies the source program
OpsImplySourceAt(pv) ==
    \A s \in SatOps(ops, Range(w2) \ {None}, pv) : SrcHolds(graph, conn, w2, s, pv)
OpsImplySource == stage = "done" => \A pv \in PubVals : OpsImplySourceAt(pv)

\* C02: values and run outcome
RunOf(env) == Run(ops, pubrows, privrows, nslots, rewrite, env)

ValuesPreservedAt(env) ==
    LET d == DenSeq(graph, env)  r == RunOf(env) IN
    (AllDefined(d) /\ ConnectsHold(d, conn)) =>
        /\ r.ok
        /\ \A e \in 1..Len(graph) : w2[e] # None => r.w[w2[e]] = d[e]

\* a violated asserted equality makes the run fail, or leaves an op relation violated so that
\* the produced trace cannot be proven (a violated bool check is always of the second kind)
ViolationDetectedAt(env) ==
    LET d == DenSeq(graph, env)  r == RunOf(env) IN
    (AllDefined(d) /\ (~ConnectsHold(d, conn) \/ ~BoolsHold(graph, d))) =>
        \/ ~r.ok
        \/ \E i \in 1..Len(ops) : ~OpRel(ops[i], r.w, env.pub)

\* the runner is self-consistent: a successful run satisfies every op relation but bool checks
RunImpliesOpsAt(env) ==
    LET r == RunOf(env) IN
    r.ok => \A i \in 1..Len(ops) : ops[i].k = "Bool" \/ OpRel(ops[i], r.w, env.pub)

DenotationPreserved == stage = "done" => \A env \in Envs :
    ValuesPreservedAt(env) /\ ViolationDetectedAt(env)

\* C19: no success from inputs that were never supplied
NoSuccessFromUnset ==
    stage = "done" => \A env \in Envs :
        /\ NPUB > 0 => ~RunPartial(ops, pubrows, privrows, nslots, rewrite, env, FALSE, TRUE).ok
        /\ NPRIV > 0 => ~RunPartial(ops, pubrows, privrows, nslots, rewrite, env, TRUE, FALSE).ok

\* Folding / CSE soundness of the builder: every returned id denotes the requested function
CallSound(c, d) ==
    LET h(i) == d[handles[c.args[i] + 1]] IN
    CASE c.op = "add"    -> (h(1) # None /\ h(2) # None) => d[c.ret] = FAdd(h(1), h(2))
      [] c.op = "sub"    -> (h(1) # None /\ h(2) # None) => d[c.ret] = FSub(h(1), h(2))
      [] c.op = "mul"    -> (h(1) # None /\ h(2) # None) => d[c.ret] = FMul(h(1), h(2))
      [] c.op = "div"    -> (h(1) # None /\ h(2) # None /\ h(2) # 0) => d[c.ret] = FMul(h(1), FInv(h(2)))
      [] c.op = "muladd" -> (h(1) # None /\ h(2) # None /\ h(3) # None) => d[c.ret] = FAdd(FMul(h(1), h(2)), h(3))
      [] c.op = "horner" -> (h(1) # None /\ h(2) # None /\ h(3) # None /\ h(4) # None)
                               => d[c.ret] = FSub(FAdd(FMul(h(1), h(2)), h(3)), h(4))
      [] c.op = "select" -> (h(1) # None /\ h(2) # None /\ h(3) # None)
                               => d[c.ret] = FAdd(h(3), FMul(h(1), FSub(h(2), h(3))))
      [] OTHER -> TRUE

FoldingSound ==
    \A env \in Envs : LET d == DenSeq(graph, env) IN
        \A i \in 1..Len(calls) : CallSound(calls[i], d)

\* structural sanity of the emitted list
NoDanglingRewrite ==
    stage = "done" => \A i \in 1..Len(ops) : \A s \in MentionedSlots(ops[i]) : ~(\E p \in rewrite : p[1] = s)

TypeOK ==
    /\ stage \in {"build", "lowered", "deduped", "fused", "done"}
    /\ Len(handles) >= Len(PreludeGraph)
    /\ \A i \in 1..Len(graph) : \A x \in {graph[i].a, graph[i].b, graph[i].c, graph[i].d} : x < i

=============================================================================
