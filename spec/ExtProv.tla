------------------------------- MODULE ExtProv -------------------------------
(***************************************************************************)
(* Coefficient provenance of extension-field values in the circuit builder *)
(* (circuit/src/builder/circuit_builder.rs): recompose_base_coeffs_to_ext, *)
(* select, decompose_ext_to_base_coeffs and the two memo tables            *)
(*    ext_recompose_coeffs : value -> the coefficient handles it was built *)
(*                           from (or was decomposed into)                 *)
(*    ext_select_sources   : value -> (b, t, s) when it is select(b, t, s) *)
(* and connect, which merges the entries of the two handles it ties.       *)
(* One action per builder call.  decompose(x) is transcribed with its      *)
(* three paths: (a) x has coefficient provenance: return it, no new gates; *)
(* (b) x = select(b, t, s) and t or s has provenance: decompose            *)
(* coefficient-wise, coeff_i = select(b, tc_i, sc_i), the operand WITHOUT  *)
(* provenance being decomposed itself; (c) allocate D hint outputs,        *)
(* recompose them and connect the result with x (x then has provenance).   *)
(*                                                                         *)
(* The field is GF(2), the extension has degree 2: a value is a pair.      *)
(* C02 / C05 / C12: for every sequence of calls and every input, the       *)
(* handles decompose returns denote the base coefficients of x (the        *)
(* transcript absorbs them in observe_ext).                                *)
(*                                                                         *)
(* Fallback: "own" (the code: the operand without provenance is the one    *)
(* decomposed) | "other" (a deviation: the true branch falls back to the   *)
(* false branch's decomposition).                                          *)
(***************************************************************************)
EXTENDS Integers, Sequences, FiniteSets, TLC, Json

CONSTANTS MaxCalls, Fallback, AllowConnect

\* prelude handles: 1 = flag (base, boolean), 2..3 = extension public inputs, 4..7 = base public inputs
NPre == 7
Flag == 1
ExtPub == {2, 3}
BasePub == {4, 5, 6, 7}

VARIABLES nodes,   \* sequence of records [k, a] after the prelude; handle h > NPre is nodes[h - NPre]
          prov,    \* handle -> <<c0, c1>> or <<>>
          sel,     \* handle -> <<b, t, s>> or <<>>
          outs,    \* results of decompose calls: <<x, <<c0, c1>>>>
          calls,   \* history (for the replay)
          eqs      \* connects the program made: set of <<a, b>>
vars == <<nodes, prov, sel, outs, calls, eqs>>
\* handles the caller holds: the inputs and what the calls returned (the hint coefficients' recomposition of path (c) is
\* internal to the builder)
Vis == (1..NPre) \cup UNION { {calls[r].ret[q] : q \in 1..Len(calls[r].ret)} : r \in 1..Len(calls) }

Handles == 1..(NPre + Len(nodes))
Kind(h) == IF h = Flag THEN "flag" ELSE IF h \in ExtPub THEN "ext" ELSE IF h \in BasePub THEN "base" ELSE nodes[h - NPre].k
Args(h) == nodes[h - NPre].a
IsExt(h) == Kind(h) \in {"ext", "rec", "sel"}
IsBase(h) == Kind(h) \in {"base", "coef", "selc"}
Get(m, h) == IF h \in DOMAIN m THEN m[h] ELSE <<>>

Init == nodes = <<>> /\ prov = <<>> /\ sel = <<>> /\ outs = <<>> /\ calls = <<>> /\ eqs = {}

NewH(n) == NPre + Len(nodes) + n
Put(m, h, v) == [x \in (DOMAIN m) \cup {h} |-> IF x = h THEN v ELSE m[x]]

\* (the replayed programs recompose adjacent handles only: the two halves of the base inputs, or a decomposition's result)
Recompose(i, j) ==
    /\ IsBase(i) /\ IsBase(j) /\ j = i + 1 /\ (i \in {4, 6} \/ Kind(i) \in {"coef", "selc"})
    /\ nodes' = Append(nodes, [k |-> "rec", a |-> <<i, j>>])
    /\ prov' = Put(prov, NewH(1), <<i, j>>)
    /\ calls' = Append(calls, [op |-> "recompose", args |-> <<i, j>>, ret |-> <<NewH(1)>>])
    /\ UNCHANGED <<sel, outs, eqs>>

\* operands are not themselves select results (one level of the coefficient-wise path)
Select(t, s) ==
    /\ IsExt(t) /\ IsExt(s) /\ t # s /\ Kind(t) # "sel" /\ Kind(s) # "sel"
    /\ nodes' = Append(nodes, [k |-> "sel", a |-> <<Flag, t, s>>])
    /\ sel' = Put(sel, NewH(1), <<Flag, t, s>>)
    /\ calls' = Append(calls, [op |-> "select", args |-> <<t, s>>, ret |-> <<NewH(1)>>])
    /\ UNCHANGED <<prov, outs, eqs>>

\* path (c) for value x, with the new handles starting at offset n: two hint coefficients, their recomposition,
\* connect(x, recomposition) -> x and the recomposition share the provenance
PlainNodes(x) == <<[k |-> "coef", a |-> <<x, 0>>], [k |-> "coef", a |-> <<x, 1>>], [k |-> "rec", a |-> <<0, 0>>]>>

Decompose(x) ==
    /\ IsExt(x)
    /\ LET px == Get(prov, x)
           sx == Get(sel, x)
       IN
       IF px # <<>> THEN
            \* (a)
            /\ outs' = Append(outs, <<x, px>>)
            /\ calls' = Append(calls, [op |-> "decompose", args |-> <<x>>, ret |-> px])
            /\ UNCHANGED <<nodes, prov, sel, eqs>>
       ELSE IF sx # <<>> /\ (Get(prov, sx[2]) # <<>> \/ Get(prov, sx[3]) # <<>>) THEN
            \* (b) exactly one operand may lack provenance; it is decomposed by path (c) (it is a public input here)
            LET t == sx[2]
                s == sx[3]
                pt == Get(prov, t)
                ps == Get(prov, s)
                lack == IF pt = <<>> THEN t ELSE IF ps = <<>> THEN s ELSE 0
                \* which operand's fresh decomposition the code uses for the operand that lacks provenance
                src == IF lack = 0 THEN 0 ELSE IF Fallback = "own" THEN lack ELSE (IF lack = t THEN s ELSE t)
                fresh == src # 0 /\ Get(prov, src) = <<>>
                n0 == IF fresh THEN 3 ELSE 0
                fc == IF fresh THEN <<NewH(1), NewH(2)>> ELSE IF src = 0 THEN <<>> ELSE Get(prov, src)
                tc == IF pt # <<>> THEN pt ELSE fc
                sc == IF ps # <<>> THEN ps ELSE fc
                selc == <<[k |-> "selc", a |-> <<Flag, tc[1], sc[1]>>], [k |-> "selc", a |-> <<Flag, tc[2], sc[2]>>]>>
                base == IF fresh THEN [PlainNodes(src) EXCEPT ![3].a = <<NewH(1), NewH(2)>>] ELSE <<>>
                res == <<NewH(n0 + 1), NewH(n0 + 2)>>
                p1 == IF fresh THEN Put(Put(prov, src, fc), NewH(3), fc) ELSE prov
            IN /\ nodes' = nodes \o base \o selc
               /\ prov' = Put(p1, x, res)
               /\ outs' = Append(outs, <<x, res>>)
               /\ calls' = Append(calls, [op |-> "decompose", args |-> <<x>>, ret |-> res])
               /\ UNCHANGED <<sel, eqs>>
       ELSE
            \* (c)
            LET fc == <<NewH(1), NewH(2)>> IN
            /\ nodes' = nodes \o [PlainNodes(x) EXCEPT ![3].a = fc]
            /\ prov' = Put(Put(prov, x, fc), NewH(3), fc)
            /\ outs' = Append(outs, <<x, fc>>)
            /\ calls' = Append(calls, [op |-> "decompose", args |-> <<x>>, ret |-> fc])
            /\ UNCHANGED <<sel, eqs>>

\* connect(a, b): a == b is enforced, and the provenance of the two handles is merged (merge_provenance): when both carry
\* provenance the first one's survives (a debug build asserts they are equal), when one does both get it.
\* Replayed shapes: an extension input tied to a computed value that does not depend on it, or two recompositions of inputs.
RECURSIVE DepsOn(_, _)
DepsOn(h, a) == IF h = a THEN TRUE ELSE IF h <= NPre THEN FALSE
                ELSE \E q \in 1..Len(Args(h)) : Args(h)[q] # 0 /\ ~(Kind(h) = "coef" /\ q = 2) /\ DepsOn(Args(h)[q], a)
Merge(m, a, b) == LET va == Get(m, a)  vb == Get(m, b)
                      v == IF va # <<>> THEN va ELSE vb
                  IN IF v = <<>> THEN m ELSE Put(Put(m, a, v), b, v)
Connect(a, b) ==
    /\ IsExt(a) /\ IsExt(b) /\ a # b
    /\ \/ (a \in ExtPub /\ b \notin ExtPub /\ ~DepsOn(b, a) /\ \A e \in eqs : e[1] # a /\ e[2] # a)
       \/ (Kind(a) = "rec" /\ Kind(b) = "rec" /\ a < b /\ Args(a) = <<4, 5>> /\ Args(b) = <<6, 7>> /\ eqs = {})
    /\ prov' = Merge(prov, a, b)
    /\ sel' = Merge(sel, a, b)
    /\ eqs' = eqs \cup {<<a, b>>}
    /\ calls' = Append(calls, [op |-> "connect", args |-> <<a, b>>, ret |-> <<>>])
    /\ UNCHANGED <<nodes, outs>>

Next == /\ Len(calls) < MaxCalls
        /\ \/ \E i, j \in Vis : Recompose(i, j)
           \/ \E t, s \in Vis : Select(t, s)
           \/ \E x \in Vis : Decompose(x)
           \/ (AllowConnect /\ \E a, b \in Vis : Connect(a, b))
Spec == Init /\ [][Next]_vars

\* ------------------------------------------------------------------ denotation
Envs == [flag : {0, 1}, e : [ExtPub -> {0, 1} \X {0, 1}], b : [BasePub -> {0, 1}]]
RECURSIVE Den(_, _)
Den(h, env) ==
    CASE h = Flag -> <<env.flag, 0>>
      [] h \in ExtPub -> env.e[h]
      [] h \in BasePub -> <<env.b[h], 0>>
      [] Kind(h) = "rec" -> <<Den(Args(h)[1], env)[1], Den(Args(h)[2], env)[1]>>
      [] Kind(h) \in {"sel", "selc"} -> IF Den(Args(h)[1], env)[1] = 1 THEN Den(Args(h)[2], env) ELSE Den(Args(h)[3], env)
      [] Kind(h) = "coef" -> <<Den(Args(h)[1], env)[Args(h)[2] + 1], 0>>
\* the hint coefficients of path (c) are tied to x by the recomposition + connect the path emits: they ARE x's coefficients
Sat(env) == \A e \in eqs : Den(e[1], env) = Den(e[2], env)
CoeffsCorrect ==
    \A r \in 1..Len(outs) : \A env \in { e \in Envs : Sat(e) } :
        LET x == outs[r][1]
            cs == outs[r][2]
        IN \A i \in 1..2 : Den(cs[i], env) = <<Den(x, env)[i], 0>>
\* a value with provenance is the recomposition of its provenance
ProvenanceSound ==
    \A h \in DOMAIN prov : \A env \in { e \in Envs : Sat(e) } : Den(h, env) = <<Den(prov[h][1], env)[1], Den(prov[h][2], env)[1]>>

\* ------------------------------------------------------------------ replay records: every maximal call sequence
Interesting == \E r \in 1..Len(calls) : calls[r].op = "decompose"
Emit == (Len(calls) = MaxCalls /\ Interesting) => PrintT(<<"REPLAY", ToJson([spec |-> "ExtProv", calls |-> calls])>>)
=============================================================================
