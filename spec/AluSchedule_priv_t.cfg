SPECIFICATION Spec
CONSTANTS
  MaxOps = 7
  LaneSet = {1, 2, 3}
  KSet = {2, 3, 4}
  ResetOn = "lane0"
  BMult = "sum"
  PrivClasses = {0, 1}
INVARIANTS
  EveryOpOnce
  RowsComplete
  HornerOnLane0
  PackedWellFormed
  FirstRowIsSeparator
  AirAccIsChainAcc
  GeneratorAccIsAirAcc
  AlphaBusPreserved
  Emit
CHECK_DEADLOCK FALSE
