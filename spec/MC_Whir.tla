---- MODULE MC_Whir ----
EXTENDS Whir, Json
Cfg(r, o, q, fq, fo, ffo, p, m, live) ==
    [rounds |-> r, ood |-> o, queries |-> q, fqueries |-> fq, fold |-> fo, ffold |-> ffo, pow |-> p, mmcs |-> m, fs |-> live]
\* every combination of the features of the script; counts 0 / 1 / 2 (per-round lists of equal entries)
CfgAll == { Cfg(r, [i \in 1..r |-> o], [i \in 1..r |-> q], fq, fo, ffo, p, m, live) :
            r \in 0..2, o \in 0..2, q \in 1..2, fq \in {1}, fo \in {1}, ffo \in 0..1, p \in BOOLEAN, m \in BOOLEAN, live \in BOOLEAN }
\* the shapes the driver instantiates with the real prover (arithmetic only, replayed transcript); the numbers are those of the
\* real proofs (the driver's shape is compared with them)
CfgReal == { Cfg(1, <<1>>, <<35>>, 9, 4, 4, FALSE, FALSE, FALSE), Cfg(2, <<1, 1>>, <<35, 9>>, 9, 4, 4, FALSE, FALSE, FALSE),
             \* 14 variables, folding factor 3: the final sumcheck runs over 5 variables, the final queries fold with 3
             Cfg(2, <<1, 1>>, <<35, 11>>, 11, 3, 5, FALSE, FALSE, FALSE) }
CfgRealT == CfgReal \cup { Cfg(3, <<1, 1, 1>>, <<35, 9, 9>>, 9, 4, 4, FALSE, FALSE, FALSE) }
Call(s) == IF s.op = "observe" THEN "observe"
           ELSE IF s.op = "check" THEN (IF s.stage = "pow" THEN "check_pow" ELSE "-")
           ELSE IF s.op = "accumulate" THEN "-"
           ELSE IF s.name \in {"r", "ood_point", "gamma"} THEN "sample_ext"
           ELSE IF s.name = "checkpoint" THEN "sample" ELSE "sample_bits"
ScriptOf(c) == [i \in 1..Len(Steps(c)) |-> Call(Steps(c)[i])]
Emit == Done => PrintT(<<"REPLAY", ToJson([spec |-> "Whir", rounds |-> cfg.rounds, fold |-> cfg.fold, ffold |-> cfg.ffold, mmcs |-> cfg.mmcs, pow |-> cfg.pow,
                                           fault |-> fault, accepted |-> Accepted, refused_at |-> refusedAt,
                                           inert |-> (fault # "none" /\ Inert(cfg, fault)),
                                           script |-> IF fault = "none" THEN ScriptOf(cfg) ELSE <<>>])>>)
====
