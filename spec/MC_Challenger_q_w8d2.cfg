SPECIFICATION Spec
CONSTANTS
  WIDTH = 8
  RATE = 4
  D = 2
  BasePath = FALSE
  MaxOps = 4
  ObsCounts <- ObsW8
  SampCounts <- SampW8
  AllowForeign = FALSE
INVARIANTS
  TypeOK
  EmitReplay
  Agree
  Tags
CHECK_DEADLOCK FALSE
