SPECIFICATION Spec
CONSTANTS
  P = 3
  NPUB = 2
  NPRIV = 0
  PreConsts <- Pre2
  MaxCalls = 2
  MaxConn = 1
  Kinds = {"add", "sub", "mul", "div", "connect", "azero", "abool"}
  FixD1 = TRUE
  FixD2 = TRUE
  FixFuse = TRUE
  FixAcc = TRUE
  NoFold = FALSE
INVARIANTS
  TypeOK
  EmitReplay
  RunnerSelfConsistent
  BuilderSound
  FuseOrderIndependent
CHECK_DEADLOCK FALSE
