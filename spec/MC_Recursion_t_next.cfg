SPECIFICATION Spec
CONSTANTS
  Bases <- BasesNext
  PSets <- PS1
  NSlots = {"s0"}
  ASlots = {"g0"}
  MaxBase = 2
  MaxProve = 3
  MaxParams = 0
  Ops = {"next"}
  MustFill = FALSE
  Policy = "code"
INVARIANTS
  TypeOK
  SlotsComeFromCalls
  CountersCoarser
  OutputsChain
  Emit
CHECK_DEADLOCK FALSE
