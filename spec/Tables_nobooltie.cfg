SPECIFICATION Spec
CONSTANTS
  P = 3
  SepOutPinned = FALSE
  BoolTiesOut = FALSE
INVARIANTS
  Complete
  Sound
CHECK_DEADLOCK FALSE
