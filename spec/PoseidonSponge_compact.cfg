SPECIFICATION Spec
CONSTANTS
  P = 3
  R = 2
  C = 2
  Layout = "compact"
  WrapCovered = TRUE
  CapChained = {2, 3}
INVARIANTS
  ConstraintIffRelation
  FreshStart
CHECK_DEADLOCK FALSE
