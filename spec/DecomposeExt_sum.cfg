SPECIFICATION Spec
CONSTANTS
  P = 5
  D = 3
  NBits = 2
  Upper = "sum"
INVARIANTS
  BitsAreBaseBits
CHECK_DEADLOCK FALSE
