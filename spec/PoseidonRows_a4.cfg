SPECIFICATION Spec
CONSTANTS
  P = 3
  A = 4
  BoolOn = "bit2"
  Chunks = {0, 1, 2, 3}
  StartPinned = FALSE
INVARIANTS
  ConstraintIffRelation
CHECK_DEADLOCK FALSE
