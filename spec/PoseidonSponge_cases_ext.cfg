SPECIFICATION CaseSpec
CONSTANTS
  P = 3
  R = 2
  C = 2
  Layout = "ext"
  WrapCovered = TRUE
  CapChained = {2, 3}
INVARIANTS
  EmitCases
CHECK_DEADLOCK FALSE
