SPECIFICATION Spec
CONSTANTS
  MaxExp = 40
  MaxLen = 4
INVARIANTS
  GadgetEqualsNative
CHECK_DEADLOCK FALSE
