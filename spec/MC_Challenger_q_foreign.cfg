SPECIFICATION Spec
CONSTANTS
  WIDTH = 16
  RATE = 8
  D = 1
  BasePath = TRUE
  MaxOps = 3
  ObsCounts <- ObsW16
  SampCounts <- SampW16
  AllowForeign = TRUE
INVARIANTS
  TypeOK
  EmitReplay
CHECK_DEADLOCK FALSE
