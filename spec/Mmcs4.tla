-------------------------------- MODULE Mmcs4 --------------------------------
(***************************************************************************)
(* The arity-4 Merkle path schedule: which levels of a mixed-matrix        *)
(* quaternary tree compress 4-to-1, which are binary "bridge" levels, and  *)
(* where shorter matrices are injected.                                    *)
(*                                                                         *)
(*   Native   p3-merkle-tree 0.6.3 MerkleTree::new (arity_schedule,        *)
(*            select_arity_step, padded_len) and MerkleTree::cap: the path *)
(*            of an opening is the prefix of the schedule below the cap    *)
(*            layer, the cap layer is counted FROM THE ROOT (cap_height    *)
(*            layers down) and has min(product of the arities above it,    *)
(*            layer length) entries.                                       *)
(*   Circuit  recursion/src/pcs/mmcs.rs arity4_path_schedule(dimensions,   *)
(*            max_height, num_roots): walks from the leaves WHILE the      *)
(*            padded layer width exceeds num_roots.                        *)
(*                                                                         *)
(* Both are transcribed as functions of the heights (powers of two) and    *)
(* the cap height; SchedulesAgree says the circuit's path is the native    *)
(* one.  It is violated (recorded finding C08): a padded width can equal   *)
(* num_roots one layer early.  MC_Mmcs4 emits, for every configuration,    *)
(* whether the two agree; the mmcs driver's arity-4 verdicts must follow   *)
(* that prediction.                                                        *)
(***************************************************************************)
EXTENDS Naturals, Sequences, FiniteSets, TLC

CONSTANTS MaxLog, MaxMats, MaxCap
N == 4

Npt(x) == CHOOSE p \in {2 ^ k : k \in 0..(MaxLog + 3)} : p >= x /\ \A q \in {2 ^ k : k \in 0..(MaxLog + 3)} : q >= x => p <= q
PaddedLen(raw, n) == IF raw <= 1 THEN raw ELSE IF raw >= n THEN ((raw + n - 1) \div n) * n ELSE n
Min(a, b) == IF a < b THEN a ELSE b

\* heights sorted tallest first (a sequence of heights, not logs)
SortDesc(hs) ==
    LET RECURSIVE S(_, _)
        S(rest, acc) == IF rest = {} THEN acc
                        ELSE LET m == CHOOSE i \in rest : \A j \in rest : hs[j] <= hs[i]
                             IN S(rest \ {m}, Append(acc, hs[m]))
    IN S(DOMAIN hs, <<>>)
DropWhile(s, P(_)) == LET RECURSIVE D(_) D(t) == IF t # <<>> /\ P(Head(t)) THEN D(Tail(t)) ELSE t IN D(s)
TakeWhileLen(s, P(_)) == Len(s) - Len(DropWhile(s, P))

(***************************************************************************)
(* Native: the whole schedule, the layer lengths, then the proof path.     *)
(***************************************************************************)
SelectStep(cur, remaining) ==
    IF cur < N THEN 2
    ELSE LET target == Npt(cur \div N)
         IN IF \E i \in 1..Len(remaining) : Npt(remaining[i]) > target THEN 2 ELSE N

\* returns [steps |-> <<[step, inj]>>, lens |-> <<layer lengths, leaf layer first>>]
NativeTree(hs) ==
    LET sorted == SortDesc(hs)
        maxh == sorted[1]
        rem0 == DropWhile(sorted, LAMBDA h : h = maxh)
        RECURSIVE Go(_, _, _, _)
        Go(cur, rem, steps, lens) ==
            IF cur <= 1 THEN [steps |-> steps, lens |-> lens]
            ELSE LET st == SelectStep(cur, rem)
                     nextLen == Npt(cur \div st)
                     k == TakeWhileLen(rem, LAMBDA h : Npt(h) = nextLen)
                     nxt == PaddedLen(cur \div st, N)
                 IN Go(nxt, SubSeq(rem, k + 1, Len(rem)), Append(steps, [step |-> st, inj |-> k]), Append(lens, nxt))
    IN Go(PaddedLen(maxh, N), rem0, <<>>, <<PaddedLen(maxh, N)>>)

Prod(s, from) == LET RECURSIVE P(_) P(i) == IF i > Len(s) THEN 1 ELSE s[i].step * P(i + 1) IN P(from)

\* the cap layer and the number of cap entries, for a cap height the tree allows
NativeCap(hs, ch) ==
    LET t == NativeTree(hs)
        numLayers == Len(t.lens)
    IN IF ch >= numLayers THEN [path |-> <<>>, roots |-> 0, ok |-> FALSE]
       ELSE LET layerIdx == numLayers - 1 - ch          \* 0-based index of the cap layer
                capLen == Min(Prod(t.steps, layerIdx + 1), t.lens[layerIdx + 1])
            IN [path |-> SubSeq(t.steps, 1, layerIdx), roots |-> capLen, ok |-> TRUE]

(***************************************************************************)
(* Circuit: arity4_path_schedule(dimensions, max_height, num_roots).       *)
(***************************************************************************)
CircuitPath(hs, numRoots) ==
    LET sorted == SortDesc(hs)
        maxh == sorted[1]
        leafNpt == Npt(maxh)
        rem0 == DropWhile(sorted, LAMBDA h : Npt(h) = leafNpt)
        RECURSIVE Go(_, _, _)
        Go(cur, rem, steps) ==
            IF cur <= numRoots THEN steps
            ELSE LET st == IF cur < 4 THEN 2
                           ELSE LET target == Npt(cur \div 4)
                                IN IF \E i \in 1..Len(rem) : Npt(rem[i]) > target THEN 2 ELSE 4
                     logicalNext == cur \div st
                     nextH == IF rem # <<>> /\ Npt(rem[1]) = Npt(logicalNext) THEN rem[1] ELSE 0
                     k == IF nextH = 0 THEN 0 ELSE TakeWhileLen(rem, LAMBDA h : h = nextH)
                 IN Go(PaddedLen(logicalNext, 4), SubSeq(rem, k + 1, Len(rem)), Append(steps, [step |-> st, inj |-> k]))
    IN Go(PaddedLen(maxh, 4), rem0, <<>>)

VARIABLES logh, cap, phase
vars == <<logh, cap, phase>>

Heights == [i \in DOMAIN logh |-> 2 ^ logh[i]]
Init == logh \in UNION {[1..n -> 0..MaxLog] : n \in 1..MaxMats} /\ cap \in 0..MaxCap /\ phase = "chosen"
Next == phase = "chosen" /\ phase' = "done" /\ UNCHANGED <<logh, cap>>
Spec == Init /\ [][Next]_vars

Applicable == NativeCap(Heights, cap).ok
Agree == LET nc == NativeCap(Heights, cap) IN CircuitPath(Heights, nc.roots) = nc.path
\* the property: the circuit walks the native path for every set of heights and every cap height the tree allows
SchedulesAgree == Applicable => Agree
\* sanity of the transcription: with the root as cap (cap height 0) the path is the whole schedule
WholePathAtCapZero == cap = 0 => NativeCap(Heights, 0).path = NativeTree(Heights).steps
\* every matrix is injected exactly once (or is at the leaf layer) in the native schedule
NativeInjectsAll ==
    LET t == NativeTree(Heights)
        atLeaf == Cardinality({i \in DOMAIN logh : 2 ^ logh[i] = SortDesc(Heights)[1]})
        RECURSIVE Sum(_) Sum(i) == IF i > Len(t.steps) THEN 0 ELSE t.steps[i].inj + Sum(i + 1)
    IN atLeaf + Sum(1) = Len(logh)
=============================================================================
