SPECIFICATION Spec
CONSTANTS
  MaxCalls = 4
  Fallback = "own"
INVARIANTS
  CoeffsCorrect
  ProvenanceSound
  Emit
CHECK_DEADLOCK FALSE
