SPECIFICATION Spec
CONSTANTS
  P = 3
  NPUB = 2
  NPRIV = 0
  PreConsts <- PreNone
  MaxCalls = 2
  MaxConn = 0
  Kinds = {"horner"}
  FixD1 = TRUE
  FixD2 = TRUE
  FixFuse = TRUE
  FixAcc = TRUE
  NoFold = FALSE
INVARIANTS
  TypeOK
  EmitReplay
  RunnerSelfConsistent
  BuilderSound
  FuseOrderIndependent
CHECK_DEADLOCK FALSE
