------------------------------ MODULE MC_Mmcs ------------------------------
EXTENDS Mmcs, Json
CONSTANTS Variants    \* set of <<cfg, arity, hiding, ext>>
Widths == <<3, 9, 17>>
VarQuick == { <<"bb_p2", 2, FALSE, FALSE>>, <<"kb_p2", 4, FALSE, FALSE>>, <<"bb_p2", 2, TRUE, FALSE>>, <<"kb_p2", 2, FALSE, TRUE>>, <<"gl_p2", 2, FALSE, FALSE>> }
VarThorough == VarQuick \cup { <<"kb_p1", 2, FALSE, FALSE>>, <<"bb_p2", 4, FALSE, TRUE>>, <<"gl_p2", 4, FALSE, FALSE>>, <<"kb_p2", 2, TRUE, TRUE>>, <<"kb_p2_d1", 2, FALSE, FALSE>> }
FaultJson == CASE fault.kind = "none" -> [kind |-> "none"]
               [] fault.kind = "leaf" -> [kind |-> "leaf", mat |-> fault.mat - 1, col |-> 0]
               [] fault.kind = "sibling" -> [kind |-> "sibling", level |-> Top - fault.lvl, word |-> 1]
               [] fault.kind = "index_bit" -> [kind |-> "index_bit", bit |-> fault.bit]
               [] fault.kind = "cap" -> [kind |-> "cap", entry |-> fault.entry, word |-> 0]
Case(v) == [spec |-> "Mmcs", cfg |-> v[1], arity |-> v[2], cap_height |-> cap, hiding |-> v[3], ext |-> v[4],
            dims |-> [i \in 1..Len(logh) |-> [h |-> 2 ^ logh[i], w |-> Widths[i]]],
            index |-> index, fault |-> FaultJson, model_accepts |-> Accept]
Emit == phase = "done" => \A v \in Variants : PrintT(<<"REPLAY", ToJson(Case(v))>>)
=============================================================================
