-------------------------- MODULE Trace_Challenger --------------------------
(* Trace validation: events recorded from the real CircuitChallenger (hook     *)
(* `verif_event` in recursion/src/challenger/circuit.rs, one event per          *)
(* transcript action, emitted after the state change) are replayed through the  *)
(* actions of Challenger.tla; after every event the circuit machine of the      *)
(* specification must be in the logged state (buffer lengths, initialized,      *)
(* duplexed_once), and the invariants of the specification (agreement with the  *)
(* native machine, tag placement) are evaluated in every state of the trace.    *)
(* `reset` lines separate challenger instances.                                 *)
EXTENDS Challenger, Json, IOUtils

Rec == ndJsonDeserialize(IOEnv.TRACE)

VARIABLE l
tvars == <<vars, l>>

TraceInit == Init /\ l = 1

IsEvent(e) == l <= Len(Rec) /\ Rec[l].ev = e /\ l' = l + 1

\* the logged post-state of the circuit challenger
Post ==
    /\ Len(cIn') = Rec[l].in
    /\ Len(cOut') = Rec[l].out
    /\ cInit' = Rec[l].init
    /\ cOnce' = Rec[l].once

TraceObserve == IsEvent("observe") /\ Commit(ObserveN(S0, 1), [op |-> "obs", n |-> 1]) /\ Post
TraceSample  == IsEvent("sample")  /\ Commit(SampleN(S0, 1), [op |-> "sample", n |-> 1]) /\ Post
TraceClear ==
    /\ IsEvent("clear")
    /\ Commit([S0 EXCEPT !.nState = ZeroState, !.nIn = <<>>, !.nOut = <<>>,
                         !.cState = ZeroState, !.cIn = <<>>, !.cOut = <<>>,
                         !.cInit = TRUE, !.cOnce = FALSE], [op |-> "clear", n |-> 0])
    /\ Post
\* a new challenger instance
TraceReset ==
    /\ IsEvent("reset")
    /\ nState' = ZeroState /\ nIn' = <<>> /\ nOut' = <<>>
    /\ cState' = <<>> /\ cIn' = <<>> /\ cOut' = <<>>
    /\ cInit' = FALSE /\ cOnce' = FALSE
    /\ perms' = <<>> /\ cperms' = <<>> /\ cchain' = <<>>
    /\ nobs' = 0 /\ hist' = <<>> /\ samplesN' = <<>> /\ samplesC' = <<>>

TraceNext == TraceObserve \/ TraceSample \/ TraceClear \/ TraceReset
TraceSpec == TraceInit /\ [][TraceNext]_tvars

\* every line consumed: one state per line plus the initial state
TraceAccepted ==
    LET d == TLCGet("stats").diameter IN
    IF d - 1 = Len(Rec) THEN TRUE
    ELSE Print(<<"TRACE REJECTED after", d - 1, "of", Len(Rec), "events; first unmatched:", Rec[d]>>, FALSE)
=============================================================================
