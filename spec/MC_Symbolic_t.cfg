SPECIFICATION Spec
CONSTANTS
  MaxNodes = 5
  LeafKinds <- LkT
INVARIANTS
  ResultDenotesNode
  CacheOnlyHoldsFinished
  StackDiscipline
  EachNodeBuiltOnce
  Emit
  EmitAirs
CHECK_DEADLOCK FALSE
