SPECIFICATION Spec
CONSTANTS
  Design = "code"
  Arity4 = TRUE
  FirstRowCovered = TRUE
  CompactD1 = FALSE
  MaxSponge = 3
  MaxDepth = 4
INVARIANTS
  EveryWitnessLimbBound
  EveryChainedLimbBound
  EveryBitBound
CHECK_DEADLOCK FALSE
