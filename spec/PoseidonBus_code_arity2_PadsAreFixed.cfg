SPECIFICATION Spec
CONSTANTS
  Design = "code"
  Arity4 = FALSE
  FirstRowCovered = TRUE
  CompactD1 = FALSE
  MaxSponge = 3
  MaxDepth = 4
INVARIANTS
  PadsAreFixed
CHECK_DEADLOCK FALSE
