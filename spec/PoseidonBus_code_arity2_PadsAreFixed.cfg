SPECIFICATION Spec
CONSTANTS
  Design = "code"
  Arity4 = FALSE
  CompactD1 = FALSE
  MaxSponge = 3
  MaxDepth = 4
INVARIANTS
  PadsAreFixed
CHECK_DEADLOCK FALSE
