SPECIFICATION Spec
CONSTANTS
  AllowConnect = FALSE
  MaxCalls = 4
  Fallback = "other"
INVARIANTS
  CoeffsCorrect
  ProvenanceSound

CHECK_DEADLOCK FALSE
