---------------------------- MODULE MC_Recursion ----------------------------
EXTENDS Recursion, Json
\* base descriptors: uni-STARK children over small AIRs (fib; lin(k): b' = a + k*b, same shape for every k; mul) and
\* batch-STARK children (a dummy circuit whose constant is k)
U(air, k, n) == [kind |-> "uni", air |-> air, k |-> k, n |-> n]
B(k) == [kind |-> "batch", air |-> "", k |-> k, n |-> 0]
BasesNext == <<U("fib", 0, 8), U("fib", 0, 16), U("lin", 123457, 8), U("lin", 7654321, 8), U("mul", 0, 8), B(1)>>
BasesAgg  == <<U("fib", 0, 8), U("lin", 123457, 8), U("lin", 7654321, 8), U("mul", 0, 8), B(1), B(2)>>
BasesMix  == <<U("fib", 0, 8), U("lin", 123457, 8), U("lin", 7654321, 8), B(1)>>
\* prep: a uni-STARK child over an AIR WITH a preprocessed column (RecursionInput::UniStark { preprocessed_commit: Some(..) })
BasesOne  == <<U("fib", 0, 8), B(1)>>
BasesPrep == <<U("prep", 0, 8), U("prepcur", 0, 8)>>
BasesQN == <<U("fib", 0, 8), U("fib", 0, 16), U("lin", 123457, 8), U("lin", 7654321, 8)>>
BasesQA == <<U("lin", 123457, 8), U("lin", 7654321, 8), B(1)>>
PS1 == <<"default">>
PS2 == <<"default", "alt">>
PS3 == <<"default", "alt", "altq">>
Name(i) == "P" \o ToString(i)
StepJson(h) ==
    CASE h.op = "base" -> [op |-> "base", name |-> Name(h.name), kind |-> h.kind, air |-> h.air, k |-> h.k, n |-> h.n]
      [] h.op = "next" -> [op |-> "next", from |-> Name(h.from), name |-> Name(h.name), cache |-> h.cache, m |-> h.m]
      [] h.op = "agg" -> [op |-> "agg", left |-> Name(h.left), right |-> Name(h.right), name |-> Name(h.name), cache |-> h.cache, m |-> h.m]
      [] OTHER -> [op |-> "params", set |-> h.set]
\* sequences whose last proving step uses no slot say nothing new about caching beyond their prefix; chains without
\* any slot are kept (they are the honest chaining part of the property)
UsesSlot == \E i \in 1..Len(hist) : hist[i].op \in {"next", "agg"} /\ hist[i].cache # NoneSlot
LastUsesSlot == LET P == {i \in 1..Len(hist) : hist[i].op \in {"next", "agg"}} IN
    P # {} /\ hist[CHOOSE i \in P : \A j \in P : j <= i].cache # NoneSlot
Emit == (Done /\ (LastUsesSlot \/ ~UsesSlot)) =>
    PrintT(<<"REPLAY", ToJson([spec |-> "Recursion", config |-> "kb_d4", steps |-> [i \in 1..Len(hist) |-> StepJson(hist[i])],
                               model |-> [policy |-> Policy, stale |-> Cardinality(stale)]])>>)
=============================================================================
