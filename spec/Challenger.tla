------------------------------ MODULE Challenger ------------------------------
(***************************************************************************)
(* The Fiat-Shamir transcript, twice:                                      *)
(*                                                                         *)
(*   N  the native duplex challenger (p3-challenger 0.6.3                   *)
(*      DuplexChallenger: overwrite-mode absorb, prefix-free padding with   *)
(*      the absorbed length added to the first capacity element, squeeze    *)
(*      by popping the output buffer from its end)                          *)
(*   C  the in-circuit challenger (recursion/src/challenger/circuit.rs      *)
(*      CircuitChallenger: lazy init, `initialized`, `duplexed_once`,       *)
(*      base path = permutation rows with absent capacity inputs chained    *)
(*      inside the permutation table and the length tag applied by the      *)
(*      table; extension path = full state through recompose / decompose    *)
(*      and the tag added by an ALU add)                                    *)
(*                                                                         *)
(* One action per public method.  Values are symbolic: "o_j" is the j-th    *)
(* observed value, <<"p",k,i>> the i-th output limb of the k-th            *)
(* permutation, whose inputs are recorded in a table; two permutations are  *)
(* the same value iff their input tuples are.                               *)
(*                                                                         *)
(* Deviation the code allows and the ideal does not: a permutation row of   *)
(* another component (a Merkle hash) between two challenger rows.  In the   *)
(* base path the capacity is chained from "the previous row of the table"; *)
(* ForeignPerm models that row.                                             *)
(***************************************************************************)
EXTENDS Integers, Sequences, FiniteSets, TLC

CONSTANTS
    WIDTH, RATE,     \* sponge geometry
    D,               \* extension degree of the challenge field
    BasePath,        \* TRUE: compact D=1 permutation rows (capacity chained in the table)
    MaxOps,          \* history length
    ObsCounts,       \* sizes of the observe bursts in the alphabet
    SampCounts,      \* sizes of the sample bursts in the alphabet
    AllowForeign     \* explore foreign permutation rows between challenger rows

Zero == <<"z">>
Obs(j) == <<"o", j>>
Out(k, i) == <<"p", k, i>>
Tagged(t, n) == <<"t", t, n>>       \* t + n
Foreign(k, i) == <<"f", k, i>>      \* output of a foreign permutation row

VARIABLES
    nState, nIn, nOut,              \* native: sponge state, input buffer, output buffer
    cState, cIn, cOut,              \* circuit: same, as targets
    cInit, cOnce,                   \* circuit: initialized, duplexed_once
    perms,                          \* table: input tuple of every native permutation
    cperms,                         \* table: input tuple the circuit feeds its permutation rows
    cchain,                         \* base path: what the table chains into the next row's capacity
    nobs,                           \* observed symbols so far
    hist,                           \* the API calls made (for replay)
    samplesN, samplesC              \* every value handed out, in order

vars == <<nState, nIn, nOut, cState, cIn, cOut, cInit, cOnce, perms, cperms, cchain, nobs, hist, samplesN, samplesC>>

ZeroState == [i \in 1..WIDTH |-> Zero]

Init ==
    /\ nState = ZeroState /\ nIn = <<>> /\ nOut = <<>>
    /\ cState = <<>> /\ cIn = <<>> /\ cOut = <<>>
    /\ cInit = FALSE /\ cOnce = FALSE
    /\ perms = <<>> /\ cperms = <<>> /\ cchain = <<>>
    /\ nobs = 0 /\ hist = <<>>
    /\ samplesN = <<>> /\ samplesC = <<>>

(***************************************************************************)
(* Native duplexing.                                                       *)
(***************************************************************************)
NDuplex(st, inb, tab) ==
    LET n == Len(inb)
        s1 == [i \in 1..WIDTH |-> IF i <= n THEN inb[i]
                                  ELSE IF n > 0 /\ i <= RATE THEN Zero
                                  ELSE IF n > 0 /\ i = RATE + 1 THEN Tagged(st[i], n)
                                  ELSE st[i]]
        k == Len(tab) + 1
        s2 == [i \in 1..WIDTH |-> Out(k, i)]
    IN [st |-> s2, tab |-> Append(tab, s1), out |-> SubSeq(s2, 1, RATE)]

(***************************************************************************)
(* Circuit duplexing.  In the base path the permutation row receives the    *)
(* rate limbs only; its capacity is zero on a chain start (new_start) and   *)
(* the previous table row's output otherwise, and the table adds the        *)
(* absorbed length.  `chain` is that previous row's output.                 *)
(***************************************************************************)
CDuplex(st, inb, tab, once, chain) ==
    LET n == Len(inb)
        tagged(x) == IF n > 0 THEN Tagged(x, n) ELSE x
        rate(i) == IF i <= n THEN inb[i] ELSE IF n > 0 THEN Zero ELSE st[i]
        s1 == IF BasePath
              THEN [i \in 1..WIDTH |->
                      IF i <= RATE THEN rate(i)
                      ELSE LET cap == IF ~once THEN Zero ELSE chain[i] IN
                           IF i = RATE + 1 THEN tagged(cap) ELSE cap]
              ELSE [i \in 1..WIDTH |->
                      IF i <= RATE THEN rate(i)
                      ELSE IF i = RATE + 1 THEN tagged(st[i]) ELSE st[i]]
        k == Len(tab) + 1
        s2 == [i \in 1..WIDTH |-> Out(k, i)]
    IN [st |-> s2, tab |-> Append(tab, s1), out |-> SubSeq(s2, 1, RATE)]

\* ---- one observe / one sample on both machines, as functions of a state record ----
S0 == [nState |-> nState, nIn |-> nIn, nOut |-> nOut, cState |-> cState, cIn |-> cIn, cOut |-> cOut,
       cInit |-> cInit, cOnce |-> cOnce, perms |-> perms, cperms |-> cperms, cchain |-> cchain,
       nobs |-> nobs, sN |-> samplesN, sC |-> samplesC]

CEnsureInit(s) == IF s.cInit THEN s ELSE [s EXCEPT !.cState = ZeroState, !.cInit = TRUE]

Observe1(s0, v) ==
    LET s == CEnsureInit(s0)
        \* native
        nIn1 == Append(s.nIn, v)
        nd == NDuplex(s.nState, nIn1, s.perms)
        nfull == Len(nIn1) = RATE
        \* circuit
        cIn1 == Append(s.cIn, v)
        cd == CDuplex(s.cState, cIn1, s.cperms, s.cOnce, s.cchain)
        cfull == Len(cIn1) = RATE
    IN [s EXCEPT
          !.nState = IF nfull THEN nd.st ELSE @, !.nIn = IF nfull THEN <<>> ELSE nIn1,
          !.nOut = IF nfull THEN nd.out ELSE <<>>, !.perms = IF nfull THEN nd.tab ELSE @,
          !.cState = IF cfull THEN cd.st ELSE @, !.cIn = IF cfull THEN <<>> ELSE cIn1,
          !.cOut = IF cfull THEN cd.out ELSE <<>>, !.cperms = IF cfull THEN cd.tab ELSE @,
          !.cOnce = IF cfull /\ BasePath THEN TRUE ELSE @, !.cchain = IF cfull THEN cd.st ELSE @]

Sample1(s0) ==
    LET s == CEnsureInit(s0)
        nneed == s.nIn # <<>> \/ s.nOut = <<>>
        nd == NDuplex(s.nState, s.nIn, s.perms)
        nOut1 == IF nneed THEN nd.out ELSE s.nOut
        cneed == s.cIn # <<>> \/ s.cOut = <<>>
        cd == CDuplex(s.cState, s.cIn, s.cperms, s.cOnce, s.cchain)
        cOut1 == IF cneed THEN cd.out ELSE s.cOut
    IN [s EXCEPT
          !.nState = IF nneed THEN nd.st ELSE @, !.nIn = IF nneed THEN <<>> ELSE @,
          !.perms = IF nneed THEN nd.tab ELSE @,
          !.nOut = SubSeq(nOut1, 1, Len(nOut1) - 1), !.sN = Append(@, nOut1[Len(nOut1)]),
          !.cState = IF cneed THEN cd.st ELSE @, !.cIn = IF cneed THEN <<>> ELSE @,
          !.cperms = IF cneed THEN cd.tab ELSE @, !.cOnce = IF cneed /\ BasePath THEN TRUE ELSE @,
          !.cchain = IF cneed THEN cd.st ELSE @,
          !.cOut = SubSeq(cOut1, 1, Len(cOut1) - 1), !.sC = Append(@, cOut1[Len(cOut1)])]

RECURSIVE ObserveN(_, _)
ObserveN(s, k) == IF k = 0 THEN s
                  ELSE ObserveN([Observe1(s, Obs(s.nobs + 1)) EXCEPT !.nobs = s.nobs + 1], k - 1)
RECURSIVE SampleN(_, _)
SampleN(s, k) == IF k = 0 THEN s ELSE SampleN(Sample1(s), k - 1)

Commit(s, h) ==
    /\ nState' = s.nState /\ nIn' = s.nIn /\ nOut' = s.nOut
    /\ cState' = s.cState /\ cIn' = s.cIn /\ cOut' = s.cOut
    /\ cInit' = s.cInit /\ cOnce' = s.cOnce
    /\ perms' = s.perms /\ cperms' = s.cperms /\ cchain' = s.cchain
    /\ nobs' = s.nobs /\ samplesN' = s.sN /\ samplesC' = s.sC
    /\ hist' = Append(hist, h)

More == Len(hist) < MaxOps

ObserveA    == More /\ \E k \in ObsCounts : Commit(ObserveN(S0, k), [op |-> "obs", n |-> k])
SampleA     == More /\ \E k \in SampCounts : Commit(SampleN(S0, k), [op |-> "sample", n |-> k])
\* observe_ext: decompose into D coefficients, observe each (native observe_algebra_element)
ObserveExtA == More /\ D > 1 /\ Commit(ObserveN(S0, D), [op |-> "obs_ext", n |-> 1])
\* sample_ext: D samples, recomposed (native sample_algebra_element)
SampleExtA  == More /\ D > 1 /\ Commit(SampleN(S0, D), [op |-> "sample_ext", n |-> 1])
\* sample_bits(n): one base sample, decomposed to bits of which n are returned - also for n = 0 (native sample_bits(0)
\* draws and discards a sample: the transcript position advances although nothing is returned)
SampleBitsA == More /\ \E nb \in {0, 3} : Commit(SampleN(S0, 1), [op |-> "bits", n |-> nb])
\* check_pow_witness(bits > 0): observe the witness, sample bits; with 0 bits: no effect at all
PowA        == More /\ \E b \in {0, 2} :
                  Commit(IF b = 0 THEN S0 ELSE SampleN(ObserveN(S0, 1), 1), [op |-> "pow", n |-> b])
\* clear: a fresh transcript.  Native: a new DuplexChallenger.
ClearA ==
    /\ More
    /\ Commit([S0 EXCEPT !.nState = ZeroState, !.nIn = <<>>, !.nOut = <<>>,
                         !.cState = ZeroState, !.cIn = <<>>, !.cOut = <<>>,
                         !.cInit = TRUE, !.cOnce = FALSE], [op |-> "clear", n |-> 0])
\* a permutation row of another component lands in the table between two challenger rows
ForeignPermA ==
    /\ More /\ AllowForeign
    /\ Commit([S0 EXCEPT !.cchain = [i \in 1..WIDTH |-> Foreign(Len(hist), i)]], [op |-> "foreign", n |-> 0])

Next == ObserveA \/ SampleA \/ ObserveExtA \/ SampleExtA \/ SampleBitsA \/ PowA \/ ClearA \/ ForeignPermA
Spec == Init /\ [][Next]_vars

(***************************************************************************)
(* Properties.                                                             *)
(***************************************************************************)
\* C05: same values handed out, same buffers, same number of permutations with equal inputs
OutputsEqual  == samplesN = samplesC
BuffersEqual  == nIn = cIn /\ nOut = cOut
PermsEqual    == perms = cperms
\* the tag lands on the first capacity limb exactly on absorbing permutations
TagPlacement  ==
    \A k \in 1..Len(perms) :
        LET t == perms[k][RATE + 1] IN
        \A i \in 1..WIDTH : i # RATE + 1 => perms[k][i][1] # "t"
TranscriptAgrees == OutputsEqual /\ BuffersEqual /\ PermsEqual

\* C06 (design level): every value handed out depends on every value observed since the last
\* clear, through permutation inputs only
RECURSIVE Cone(_, _)
Cone(t, tab) ==
    CASE t[1] = "o" -> {t[2]}
      [] t[1] = "t" -> Cone(t[2], tab)
      [] t[1] = "p" -> UNION { Cone(tab[t[2]][i], tab) : i \in 1..WIDTH }
      [] OTHER -> {}

TypeOK ==
    /\ Len(nIn) < RATE /\ Len(nOut) <= RATE
    /\ Len(samplesN) = Len(samplesC)
=============================================================================
