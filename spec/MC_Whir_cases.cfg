SPECIFICATION Spec
CONSTANTS
  DropIdentity = FALSE
  Configs <- CfgReal
INVARIANTS
  FaultRefused
  HonestAccepted
  EveryKindRead
  ObservedBeforeUse
  PolyBeforeChallenge
  Emit
CHECK_DEADLOCK FALSE
