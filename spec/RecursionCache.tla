--------------------------- MODULE RecursionCache ---------------------------
(***************************************************************************)
(* The cache-slot rules of recursion/src/recursion.rs, shared by the       *)
(* design model (Recursion.tla, keys are circuit terms) and the trace      *)
(* specification (Trace_Recursion.tla, keys are what the real code         *)
(* produced).                                                              *)
(*   slot = [filled |-> FALSE]  or  [filled |-> TRUE, key, cnt]            *)
(*   key  : identity of (verification circuit, proving parameters)         *)
(*   cnt  : AggregationCircuitFingerprint {witness_count, public_flat_len, *)
(*          private_flat_len, ops.len()} - what the code compares          *)
(***************************************************************************)
CONSTANT Policy        \* "code" | "keyed"

EmptySlot == [filled |-> FALSE]

\* prove_next_layer(prep = Some(..)): recursion.rs:431 `if let Some(cached) = prep` - no comparison at all
NextUses(sl, key) == sl.filled /\ (Policy = "keyed" => sl.key = key)
NextSlotAfter(sl, key, cnt) == IF NextUses(sl, key) THEN sl ELSE [filled |-> TRUE, key |-> key, cnt |-> cnt]

\* prove_aggregation_layer: recursion.rs:684-687 `cached.circuit_fingerprint == current_fp`, else recompute and
\* (recursion.rs:753) replace the slot
AggHits(sl, key, cnt) == sl.filled /\ (IF Policy = "code" THEN sl.cnt = cnt ELSE sl.key = key)
AggSlotAfter(sl, key, cnt) == IF AggHits(sl, key, cnt) THEN sl ELSE [filled |-> TRUE, key |-> key, cnt |-> cnt]

\* a use is stale when the slot was prepared for another key
StaleUse(sl, key) == sl.filled /\ sl.key # key
=============================================================================
