"""Shared machinery of the /verif checks: TLC runs (cached by content hash), harness build,
known-finding matching, evidence files, exit codes.

Exit codes of a check: 0 property held on everything explored (KNOWN-FINDING lines allowed),
1 with a line `VIOLATION property=<id> replay=<path>`, 2 tool error / time-out (never a violation).
"""
import hashlib, json, os, re, subprocess, sys, time

VERIF = os.path.dirname(os.path.dirname(os.path.abspath(__file__)))
# the tree under test: /repo; background exploration runs on a snapshot point VERIF_REPO (and the harness manifest) elsewhere
REPO = os.environ.get("VERIF_REPO", "/repo")
SPEC = os.path.join(VERIF, "spec")
HARNESS = os.path.join(VERIF, "harness")
CACHE = os.path.join(VERIF, ".cache")
EVID = os.path.join(VERIF, "evidence")
REPLAYS = os.path.join(VERIF, "replays")
P3R = os.path.join(HARNESS, "target", "release", "p3r")


class ToolError(Exception):
    pass


def seed():
    try:
        return int(os.environ.get("VERIF_SEED", "1"))
    except ValueError:
        return 1


def sh(cmd, timeout=None, cwd=None, env=None, capture=True):
    e = dict(os.environ)
    e.setdefault("CARGO_NET_OFFLINE", "true")
    if env:
        e.update(env)
    return subprocess.run(cmd, cwd=cwd, env=e, timeout=timeout, text=True,
                          stdout=subprocess.PIPE if capture else None,
                          stderr=subprocess.STDOUT if capture else None)


def build_harness(profile="release"):
    """Rebuild the harness (and through its path dependencies, /repo's current tree)."""
    t0 = time.time()
    args = ["cargo", "build", "--offline", "--bin", "p3r"] + (["--release"] if profile == "release" else [])
    r = sh(args, cwd=HARNESS, timeout=3600)
    if r.returncode != 0:
        raise ToolError("harness build failed (the tree under /repo does not compile against the harness):\n" + r.stdout[-4000:])
    return time.time() - t0


def file_hash(paths, extra=""):
    h = hashlib.sha256()
    for p in paths:
        with open(p, "rb") as f:
            h.update(f.read())
        h.update(b"\0")
    h.update(extra.encode())
    return h.hexdigest()[:24]


TLC_STATS = re.compile(r"(\d+) states generated, (\d+) distinct states found")
TLC_DEPTH = re.compile(r"depth of the complete state graph search is (\d+)")


def run_tlc(module, cfg, deps, workers=16, timeout=3600, simulate=None, extra_java=None):
    """Run TLC on spec/<module>.tla with spec/<cfg>; returns dict(meta) and the path of the
    NDJSON file with the replay records it printed.  Results are cached by the content of the
    specification files and the configuration: TLC's exploration does not depend on /repo."""
    os.makedirs(os.path.join(CACHE, "tlc"), exist_ok=True)
    files = [os.path.join(SPEC, f) for f in [module + ".tla", cfg] + deps]
    key = file_hash(files, json.dumps([simulate, module, cfg]))
    nd = os.path.join(CACHE, "tlc", key + ".ndjson")
    meta_p = os.path.join(CACHE, "tlc", key + ".meta.json")
    if os.path.exists(nd) and os.path.exists(meta_p):
        meta = json.load(open(meta_p))
        meta["cached"] = True
        return meta, nd
    work = os.path.join(CACHE, "tlc", key + ".work")
    out = os.path.join(CACHE, "tlc", key + ".out")
    cmd = ["tlc", "-workers", str(workers), "-metadir", work, "-cleanup", "-noGenerateSpecTE",
           "-config", cfg]
    if simulate:
        cmd += ["-simulate", simulate["arg"], "-depth", str(simulate["depth"])]
        if "seed" in simulate:
            cmd += ["-seed", str(simulate["seed"])]
    cmd.append(module + ".tla")
    t0 = time.time()
    env = {}
    if extra_java:
        env["JAVA_TOOL_OPTIONS"] = extra_java
    with open(out, "w") as f:
        try:
            p = subprocess.run(cmd, cwd=SPEC, stdout=f, stderr=subprocess.STDOUT, timeout=timeout,
                               env={**os.environ, **env})
        except subprocess.TimeoutExpired:
            raise ToolError(f"TLC timed out after {timeout}s on {cfg}")
    wall = time.time() - t0
    subprocess.run(["rm", "-rf", work])
    text = open(out, errors="replace").read()
    head = "\n".join(l for l in text.splitlines() if not l.startswith('<<"REPLAY"'))
    violated = re.search(r"Error: Invariant (\w+) is violated", head)
    if "Error:" in head and not violated:
        raise ToolError(f"TLC failed on {cfg}:\n" + head[-3000:])
    if p.returncode != 0 and not violated:
        raise ToolError(f"TLC exit {p.returncode} on {cfg}:\n" + head[-3000:])
    sys.path.insert(0, os.path.dirname(os.path.abspath(__file__)))
    import tlc_extract
    n = tlc_extract.extract(out, nd)
    m = TLC_STATS.findall(head)
    d = TLC_DEPTH.findall(head)
    meta = {
        "module": module, "cfg": cfg, "wall_s": round(wall, 1),
        "states_generated": int(m[-1][0]) if m else 0, "distinct_states": int(m[-1][1]) if m else 0,
        "depth": int(d[-1]) if d else None, "replay_records": n,
        "invariant_violated": violated.group(1) if violated else None,
        "mode": "simulate" if simulate else "exhaustive-bfs", "cached": False,
    }
    if violated:
        meta["counterexample_tail"] = head[-6000:]
    json.dump(meta, open(meta_p, "w"))
    os.remove(out)
    return meta, nd


def load_known():
    p = os.path.join(VERIF, "KNOWN_FINDINGS.json")
    if not os.path.exists(p):
        return []
    return json.load(open(p))["findings"]


def split_sig(signature):
    kind, _, shapes = signature.partition("@")
    return kind, [s for s in shapes.split("+") if s]


def kind_matches(entry, kind):
    if "kind" in entry:
        return entry["kind"] == kind
    return re.fullmatch(entry["kind_regex"], kind) is not None


def shape_matches(entry, shapes):
    """`shape`: that shape is present; `shapes`: all of them are; a shape ending in `*` is a prefix."""
    need = entry["shapes"] if "shapes" in entry else [entry["shape"]]

    def has(n):
        return any(s.startswith(n[:-1]) for s in shapes) if n.endswith("*") else n in shapes
    return all(has(n) for n in need)


def classify(prop, groups):
    """Split finding groups of one property into (known, new).  A group matches a known entry
    when property and kind agree and the entry's shape is one of the group's shapes; entries with
    status "fixed" suppress nothing."""
    known_entries = [k for k in load_known() if k["property"] == prop and k.get("status") == "known"]
    known, new = [], []
    for g in groups:
        if g["property"] != prop:
            continue
        kind, shapes = split_sig(g["signature"])
        hit = next((k for k in known_entries if kind_matches(k, kind) and shape_matches(k, shapes)), None)
        (known if hit else new).append((g, hit))
    return known, new


def write_replay(prop, group):
    os.makedirs(REPLAYS, exist_ok=True)
    h = hashlib.sha256(group["signature"].encode()).hexdigest()[:10]
    path = os.path.join(REPLAYS, f"{prop}-{h}.json")
    json.dump({"property": prop, "kind": group["kind"], "signature": group["signature"],
               "count": group["count"], "example": group["example"]}, open(path, "w"), indent=1)
    return path


def write_evidence(prop, tier, level, coverage, wall, violations, assumptions):
    os.makedirs(EVID, exist_ok=True)
    ev = {"property_id": prop, "tier": tier, "seed": seed(), "level": level, "coverage": coverage,
          "assumptions": assumptions, "wall_s": round(wall, 2), "violations": violations}
    json.dump(ev, open(os.path.join(EVID, prop + ".json"), "w"), indent=1)


def finish(prop, known, new, extra_violation_lines=()):
    """Print KNOWN-FINDING / VIOLATION lines and return the exit code."""
    seen = set()
    for g, k in known:
        key = (k.get("kind", k.get("kind_regex")), k.get("shape") or "+".join(k["shapes"]))
        if key in seen:
            continue
        seen.add(key)
        print(f"KNOWN-FINDING: property={prop} {g['kind']} [{k.get('shape') or '+'.join(k['shapes'])}] {k['what']}")
    # --replay <file>: only the violation recorded in that file counts (the whole check is re-run from the current tree)
    want = os.environ.get("VERIF_REPLAY_SIGNATURE")
    if want:
        new = [(g, k) for g, k in new if g["signature"] == want]
        extra_violation_lines = [l for l in extra_violation_lines if want in l]
    code = 0
    # every new group gets a replay file; the console shows the 12 largest groups and a count of the rest
    ranked = sorted(new, key=lambda gk: -gk[0]["count"])
    for i, (g, _) in enumerate(ranked):
        path = write_replay(prop, g)
        if i < 12:
            print(f"VIOLATION property={prop} replay={path}")
            print(f"  {g['kind']} @ {g['signature']} ({g['count']} cases)")
        code = 1
    if len(ranked) > 12:
        print(f"  ... and {len(ranked) - 12} further violation groups of {prop}; replay files are in {REPLAYS}")
    for line in extra_violation_lines:
        print(line)
        code = 1
    return code
