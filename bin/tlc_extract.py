#!/usr/bin/env python3
"""Extract the JSON replay records TLC printed with PrintT(<<"REPLAY", ToJson(..)>>) into NDJSON."""
import json, sys

def extract(inp, out):
    n = 0
    with open(inp, errors="replace") as f, open(out, "w") as g:
        for line in f:
            if not line.startswith('<<"REPLAY", '):
                continue
            body = line.rstrip()[len('<<"REPLAY", '):]
            if not body.endswith(">>"):
                continue
            body = body[:-2]
            try:
                g.write(json.dumps(json.loads(json.loads(body)), separators=(",", ":")) + "\n")
                n += 1
            except Exception as e:  # a torn line (interleaved workers) is a tool error, reported by the caller
                print(f"BAD-REPLAY-LINE {e}", file=sys.stderr)
    return n

if __name__ == "__main__":
    print(extract(sys.argv[1], sys.argv[2]))
