#!/usr/bin/env python3
"""Split a recorded NDJSON event file into per-specification traces.
challenger events: grouped per instance (thread id, object address), instances concatenated with
`reset` lines; one output file per (width, rate, base-path) class."""
import json, sys, collections

def prep_challenger(inp, out_prefix):
    inst = collections.OrderedDict()
    for line in open(inp):
        try:
            d = json.loads(line)
        except Exception:
            continue
        if d.get("ev") in ("observe", "sample", "clear"):
            inst.setdefault((d.get("pid", 0), d["tid"], d["id"]), []).append(d)
    classes = collections.defaultdict(list)
    for key, evs in inst.items():
        base = any(e["once"] for e in evs)
        classes[(evs[0]["width"], evs[0]["rate"], base)].append(evs)
    outs = []
    for (w, r, base), groups in classes.items():
        path = f"{out_prefix}.w{w}r{r}{'b' if base else 'e'}.ndjson"
        n = 0
        with open(path, "w") as f:
            for evs in groups:
                f.write(json.dumps({"ev": "reset", "in": 0, "out": 0, "init": False, "once": False}) + "\n")
                n += 1
                for e in evs:
                    f.write(json.dumps({"ev": e["ev"], "in": e["in"], "out": e["out"], "init": e["init"], "once": e["once"]}) + "\n")
                    n += 1
        outs.append({"path": path, "width": w, "rate": r, "base": base, "events": n, "instances": len(groups)})
    return outs

if __name__ == "__main__":
    print(json.dumps(prep_challenger(sys.argv[1], sys.argv[2])))


def prep_optimizer(inp, out):
    """optimizer events, one compile after the other per thread (a thread runs one test at a time)."""
    per = collections.OrderedDict()
    for line in open(inp):
        try:
            d = json.loads(line)
        except Exception:
            continue
        if d.get("ev") in ("optimize_begin", "dedup_remove", "dedup_keep", "fuse_candidate"):
            per.setdefault((d.get("pid", 0), d["tid"]), []).append(d)
    n = 0
    with open(out, "w") as f:
        for tid, evs in per.items():
            # a thread's stream may start in the middle of nothing: always begins with optimize_begin
            for e in evs:
                f.write(json.dumps({k: v for k, v in e.items() if k not in ("seq", "tid", "pid")}) + "\n")
                n += 1
    return n


RUNNER_EVENTS = ("r_new", "r_run", "r_get", "r_set", "r_op", "r_fail", "r_inputs", "r_ext", "r_end")


def prep_runner(inp, out, max_events=60000):
    """runner events grouped per runner instance (rid), instances one after the other, each starting with r_new."""
    per = collections.OrderedDict()
    for line in open(inp):
        try:
            d = json.loads(line)
        except Exception:
            continue
        if d.get("ev") in RUNNER_EVENTS:
            # instance ids restart in every process (the test binaries of one `cargo test` append to one file)
            per.setdefault((d.get("pid", 0), d["rid"]), []).append(d)
    n = inst = 0
    outcomes = collections.Counter()
    with open(out, "w") as f:
        for rid, evs in per.items():
            if not evs or evs[0]["ev"] != "r_new" or n + len(evs) > max_events:
                continue
            evs.sort(key=lambda e: e["seq"])
            inst += 1
            for e in evs:
                if e["ev"] == "r_end":
                    outcomes[e["res"]] += 1
                f.write(json.dumps({k: v for k, v in e.items() if k not in ("seq", "tid", "rid", "pid")}) + "\n")
                n += 1
    return {"events": n, "instances": inst, "outcomes": dict(outcomes)}
