#!/bin/sh
# Run the thorough tier of every check, one after the other; keep a copy of each evidence file and a summary.
cd "$(dirname "$0")/.."
mkdir -p findings/thorough
for p in "$@"; do
  s=$(date +%s)
  bin/check $p --tier thorough > findings/thorough/$p.log 2>&1
  rc=$?
  e=$(date +%s)
  cp evidence/$p.json findings/thorough/$p.json 2>/dev/null
  echo "$p exit=$rc wall=$((e-s))s violations=$(grep -c '^VIOLATION' findings/thorough/$p.log) known=$(grep -c '^KNOWN-FINDING' findings/thorough/$p.log)" >> findings/thorough/SUMMARY.txt
done
