//! C12, extension-degree side: `decompose_to_bits` in a circuit over a degree-4 extension.  A bit is an extension
//! element; "boolean" means base-field 0 / 1, i.e. the lowest coefficient is a bit AND every higher coefficient is zero.
//! The scenarios swap the hint executor of the real circuit for one that emits bits with non-zero higher coefficients
//! chosen so that everything else stays consistent (the recomposition sum still equals x, the exposed value follows the
//! forged bit); the REAL runner, prover and verifier decide.  One scenario per shape of the higher coefficients:
//!   single        one higher coefficient of one bit is non-zero (and x deviates with it)
//!   cancel-in-x   two bits carry higher coefficients that cancel in the recomposition sum (x is the honest base value)
//!   zero-sum      as cancel-in-x and additionally the higher coefficients of EVERY bit sum to zero
//!                 (a constraint that aggregates the higher coefficients of a value instead of pinning each one)
use std::panic::{AssertUnwindSafe, catch_unwind};

use p3_baby_bear::BabyBear;
use p3_batch_stark::ProverData;
use p3_circuit::ops::HintExecutor;
use p3_circuit::{CircuitBuilder, CircuitError, Op, WitnessId};
use p3_circuit_prover::common::get_airs_and_degrees_with_prep;
use p3_circuit_prover::config::{self, BabyBearConfig};
use p3_circuit_prover::{BatchStarkProver, CircuitProverData, ConstraintProfile, TablePacking};
use p3_field::extension::BinomialExtensionField;
use p3_field::{BasedVectorSpace, PrimeCharacteristicRing};

type F = BabyBear;
type EF = BinomialExtensionField<F, 4>;

#[derive(Debug, Clone)]
struct FixedExtHint {
    values: Vec<EF>,
}
impl HintExecutor<EF> for FixedExtHint {
    fn execute(&self, _inputs: &[WitnessId], outputs: &[WitnessId], witness: &mut [Option<EF>]) -> Result<(), CircuitError> {
        for (o, v) in outputs.iter().zip(&self.values) {
            witness[o.0 as usize] = Some(*v);
        }
        Ok(())
    }
    fn boxed(&self) -> Box<dyn HintExecutor<EF>> {
        Box::new(self.clone())
    }
}

fn ext(c: [i64; 4]) -> EF {
    let lift = |v: i64| if v >= 0 { F::from_u64(v as u64) } else { -F::from_u64((-v) as u64) };
    EF::from_basis_coefficients_slice(&[lift(c[0]), lift(c[1]), lift(c[2]), lift(c[3])]).unwrap()
}

pub const SHAPES: [&str; 3] = ["single", "cancel-in-x", "zero-sum"];

/// (honest proof verifies, forged outcome: accepted?, description of the forged outcome)
pub fn run(shape: &str, nbits: usize, packing: TablePacking) -> Result<(bool, bool, String), String> {
    let mut b = CircuitBuilder::<EF>::new();
    let x = b.public_input();
    let bits = b.decompose_to_bits::<F>(x, nbits).map_err(|e| format!("decompose: {e:?}"))?;
    // expose 5 * bit_0 so that the forged bit reaches a public value
    let five = b.define_const(EF::from_u64(5));
    let y = b.mul(bits[0], five);
    let yp = b.public_input();
    b.connect(y, yp);
    let circuit = b.build().map_err(|e| format!("build: {e:?}"))?;
    let cfg = config::baby_bear();
    let (airs_degrees, pc, npc) = get_airs_and_degrees_with_prep::<BabyBearConfig, _, 4>(&circuit, &packing, &[], &[], ConstraintProfile::Standard)
        .map_err(|e| format!("airs: {e:?}"))?;
    let (airs, degs): (Vec<_>, Vec<usize>) = airs_degrees.into_iter().unzip();
    let cpd = CircuitProverData::new(ProverData::from_airs_and_degrees(&cfg, &airs, &degs), pc, npc);
    let prover = BatchStarkProver::new(cfg).with_table_packing(packing);
    let prove_verify = |c: &p3_circuit::Circuit<EF>, pubs: &[EF]| -> Result<(), String> {
        let mut runner = c.runner();
        runner.set_public_inputs(pubs).map_err(|e| format!("runner refuses: {e:?}"))?;
        let traces = runner.run().map_err(|e| format!("runner refuses: {e:?}"))?;
        match catch_unwind(AssertUnwindSafe(|| {
            let proof = prover.prove_all_tables(&traces, &cpd).map_err(|e| format!("prover refuses: {e:?}"))?;
            prover.verify_all_tables::<EF>(&proof).map_err(|e| format!("verifier refuses: {e:?}"))
        })) {
            Ok(r) => r,
            Err(_) => Err("prover / verifier panicked".into()),
        }
    };
    // honest: x = 5 (bits 1, 0, 1, 0..), y = 5
    let honest = prove_verify(&circuit, &[EF::from_u64(5), EF::from_u64(5)]);
    // forged bit vectors (x = b0 + 2 b1 + 4 b2 + ..)
    let k = 7i64;
    let mut fb: Vec<EF> = (0..nbits).map(|j| ext([((5u64 >> j) & 1) as i64, 0, 0, 0])).collect();
    match shape {
        "single" => fb[0] = ext([1, k, 0, 0]),
        "cancel-in-x" => {
            fb[0] = ext([1, 2 * k, 0, 0]);
            fb[1] = ext([0, -k, 0, 0]);
        }
        "zero-sum" => {
            fb[0] = ext([1, 2 * k, -2 * k, 0]);
            fb[1] = ext([0, -k, k, 0]);
        }
        other => return Err(format!("unknown shape {other}")),
    }
    let mut xv = EF::ZERO;
    for (j, v) in fb.iter().enumerate() {
        xv += *v * EF::from_u64(1u64 << j);
    }
    let yv = fb[0] * EF::from_u64(5);
    let mut forged = circuit.clone();
    for op in forged.ops.iter_mut() {
        if let Op::Hint { executor, .. } = op {
            *executor = Box::new(FixedExtHint { values: fb.clone() });
        }
    }
    let fr = prove_verify(&forged, &[xv, yv]);
    Ok((honest.is_ok(), fr.is_ok(), match fr {
        Ok(()) => "accepted".into(),
        Err(e) => e.chars().take(160).collect(),
    }))
}

// ---------------------------------------------------------------------------------------------
// Coefficients of `decompose_ext_to_base_coeffs` (ALU recomposition path) that reach ordinary ALU consumers: every row that
// mentions a coefficient must carry the value the decomposition fixed (the hint output is created on the bus by the first
// ALU row that uses it and read by every later one).  Forgery: ONE consumer row reads another value than the slot holds
// (its operand is redirected to another coefficient's slot in a clone of the circuit, the real runner propagates, the row's
// index is restored), everything else is consistent; proven with the prover data of the original circuit.
// ---------------------------------------------------------------------------------------------
/// (honest proof verifies, forged statement accepted?, description)
pub fn coeff_consumer(which: usize, packing: TablePacking) -> Result<(bool, bool, String), String> {
    use p3_circuit::AluOpKind;
    let ks = [3u64, 4, 5, 6];
    let mut b = CircuitBuilder::<EF>::new();
    let x = b.public_input();
    let coeffs = b.decompose_ext_to_base_coeffs::<F>(x).map_err(|e| format!("decompose_ext: {e:?}"))?;
    let mut y = None;
    for (c, k) in coeffs.iter().zip(ks) {
        let kc = b.define_const(EF::from_u64(1000 + k));
        let t = b.mul(*c, kc);
        y = Some(match y {
            None => t,
            Some(acc) => b.add(acc, t),
        });
    }
    let yp = b.public_input();
    b.connect(y.unwrap(), yp);
    let circuit = b.build().map_err(|e| format!("build: {e:?}"))?;
    let cfg = config::baby_bear();
    let (airs_degrees, pc, npc) = get_airs_and_degrees_with_prep::<BabyBearConfig, _, 4>(&circuit, &packing, &[], &[], ConstraintProfile::Standard).map_err(|e| format!("airs: {e:?}"))?;
    let (airs, degs): (Vec<_>, Vec<usize>) = airs_degrees.into_iter().unzip();
    let cpd = CircuitProverData::new(ProverData::from_airs_and_degrees(&cfg, &airs, &degs), pc, npc);
    let prover = BatchStarkProver::new(cfg).with_table_packing(packing);
    let xs = [11u64, 22, 33, 44];
    let xv = EF::from_basis_coefficients_slice(&xs.map(F::from_u64)).unwrap();
    let yv = |cs: [u64; 4]| -> EF { (0..4).fold(EF::ZERO, |a, i| a + EF::from_u64(cs[i]) * EF::from_u64(1000 + ks[i])) };
    let prove = |traces: &p3_circuit::Traces<EF>| -> Result<(), String> {
        match catch_unwind(AssertUnwindSafe(|| {
            let proof = prover.prove_all_tables(traces, &cpd).map_err(|e| format!("prover refuses: {e:?}"))?;
            prover.verify_all_tables::<EF>(&proof).map_err(|e| format!("verifier refuses: {e:?}"))
        })) {
            Ok(r) => r,
            Err(_) => Err("prover / verifier panicked".into()),
        }
    };
    let run = |c: &p3_circuit::Circuit<EF>, pubs: &[EF]| -> Result<p3_circuit::Traces<EF>, String> {
        let mut runner = c.runner();
        runner.set_public_inputs(pubs).map_err(|e| format!("runner refuses: {e:?}"))?;
        runner.run().map_err(|e| format!("runner refuses: {e:?}"))
    };
    let honest = run(&circuit, &[xv, yv(xs)]).and_then(|t| prove(&t));
    // the consumer rows: Mul ops whose b operand is one of the constants 1000 + k
    let const_slot = |k: u64| circuit.ops.iter().find_map(|op| match op {
        Op::Const { out, val } if *val == EF::from_u64(1000 + k) => Some(*out),
        _ => None,
    });
    let kslots: Vec<WitnessId> = ks.iter().map(|k| const_slot(*k).ok_or("constant not found")).collect::<Result<_, _>>()?;
    let consumer_a = |c: &p3_circuit::Circuit<EF>, i: usize| c.ops.iter().position(|op| matches!(op, Op::Alu { kind: AluOpKind::Mul, b, .. } if *b == kslots[i]));
    let (ci, cj) = (consumer_a(&circuit, which).ok_or("consumer op not found")?, consumer_a(&circuit, (which + 1) % 4).ok_or("consumer op not found")?);
    let slot_of = |idx: usize| match &circuit.ops[idx] {
        Op::Alu { a, .. } => *a,
        _ => unreachable!(),
    };
    let (slot_i, slot_j) = (slot_of(ci), slot_of(cj));
    let mut forged = circuit.clone();
    if let Op::Alu { a, .. } = &mut forged.ops[ci] {
        *a = slot_j;
    }
    // the consumer of coefficient `which` now reads the next coefficient: y follows
    let mut cs = xs;
    cs[which] = xs[(which + 1) % 4];
    let fr = run(&forged, &[xv, yv(cs)]).and_then(|mut t| {
        let row = t.alu_trace.indices.iter().position(|ix| ix[0] == slot_j && ix[1] == kslots[which]).ok_or("forged consumer row not found in the ALU trace")?;
        t.alu_trace.indices[row][0] = slot_i;
        prove(&t)
    });
    Ok((honest.is_ok(), fr.is_ok(), match fr {
        Ok(()) => "accepted".into(),
        Err(e) => e.chars().take(160).collect(),
    }))
}
