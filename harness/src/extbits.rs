//! C12, extension-degree side: `decompose_to_bits` in a circuit over a degree-4 extension.  A bit is an extension
//! element; "boolean" means base-field 0 / 1, i.e. the lowest coefficient is a bit AND every higher coefficient is zero.
//! The scenarios swap the hint executor of the real circuit for one that emits bits with non-zero higher coefficients
//! chosen so that everything else stays consistent (the recomposition sum still equals x, the exposed value follows the
//! forged bit); the REAL runner, prover and verifier decide.  One scenario per shape of the higher coefficients:
//!   single        one higher coefficient of one bit is non-zero (and x deviates with it)
//!   cancel-in-x   two bits carry higher coefficients that cancel in the recomposition sum (x is the honest base value)
//!   zero-sum      as cancel-in-x and additionally the higher coefficients of EVERY bit sum to zero
//!                 (a constraint that aggregates the higher coefficients of a value instead of pinning each one)
use std::panic::{AssertUnwindSafe, catch_unwind};

use p3_baby_bear::BabyBear;
use p3_batch_stark::ProverData;
use p3_circuit::ops::HintExecutor;
use p3_circuit::{CircuitBuilder, CircuitError, Op, WitnessId};
use p3_circuit_prover::common::get_airs_and_degrees_with_prep;
use p3_circuit_prover::config::{self, BabyBearConfig};
use p3_circuit_prover::{BatchStarkProver, CircuitProverData, ConstraintProfile, TablePacking};
use p3_field::extension::BinomialExtensionField;
use p3_field::{BasedVectorSpace, PrimeCharacteristicRing};

type F = BabyBear;
type EF = BinomialExtensionField<F, 4>;

#[derive(Debug, Clone)]
struct FixedExtHint {
    values: Vec<EF>,
}
impl HintExecutor<EF> for FixedExtHint {
    fn execute(&self, _inputs: &[WitnessId], outputs: &[WitnessId], witness: &mut [Option<EF>]) -> Result<(), CircuitError> {
        for (o, v) in outputs.iter().zip(&self.values) {
            witness[o.0 as usize] = Some(*v);
        }
        Ok(())
    }
    fn boxed(&self) -> Box<dyn HintExecutor<EF>> {
        Box::new(self.clone())
    }
}

fn ext(c: [i64; 4]) -> EF {
    let lift = |v: i64| if v >= 0 { F::from_u64(v as u64) } else { -F::from_u64((-v) as u64) };
    EF::from_basis_coefficients_slice(&[lift(c[0]), lift(c[1]), lift(c[2]), lift(c[3])]).unwrap()
}

pub const SHAPES: [&str; 3] = ["single", "cancel-in-x", "zero-sum"];

/// (honest proof verifies, forged outcome: accepted?, description of the forged outcome)
pub fn run(shape: &str, nbits: usize, packing: TablePacking) -> Result<(bool, bool, String), String> {
    let mut b = CircuitBuilder::<EF>::new();
    let x = b.public_input();
    let bits = b.decompose_to_bits::<F>(x, nbits).map_err(|e| format!("decompose: {e:?}"))?;
    // expose 5 * bit_0 so that the forged bit reaches a public value
    let five = b.define_const(EF::from_u64(5));
    let y = b.mul(bits[0], five);
    let yp = b.public_input();
    b.connect(y, yp);
    let circuit = b.build().map_err(|e| format!("build: {e:?}"))?;
    let cfg = config::baby_bear();
    let (airs_degrees, pc, npc) = get_airs_and_degrees_with_prep::<BabyBearConfig, _, 4>(&circuit, &packing, &[], &[], ConstraintProfile::Standard)
        .map_err(|e| format!("airs: {e:?}"))?;
    let (airs, degs): (Vec<_>, Vec<usize>) = airs_degrees.into_iter().unzip();
    let cpd = CircuitProverData::new(ProverData::from_airs_and_degrees(&cfg, &airs, &degs), pc, npc);
    let prover = BatchStarkProver::new(cfg).with_table_packing(packing);
    let prove_verify = |c: &p3_circuit::Circuit<EF>, pubs: &[EF]| -> Result<(), String> {
        let mut runner = c.runner();
        runner.set_public_inputs(pubs).map_err(|e| format!("runner refuses: {e:?}"))?;
        let traces = runner.run().map_err(|e| format!("runner refuses: {e:?}"))?;
        match catch_unwind(AssertUnwindSafe(|| {
            let proof = prover.prove_all_tables(&traces, &cpd).map_err(|e| format!("prover refuses: {e:?}"))?;
            prover.verify_all_tables::<EF>(&proof).map_err(|e| format!("verifier refuses: {e:?}"))
        })) {
            Ok(r) => r,
            Err(_) => Err("prover / verifier panicked".into()),
        }
    };
    // honest: x = 5 (bits 1, 0, 1, 0..), y = 5
    let honest = prove_verify(&circuit, &[EF::from_u64(5), EF::from_u64(5)]);
    // forged bit vectors (x = b0 + 2 b1 + 4 b2 + ..)
    let k = 7i64;
    let mut fb: Vec<EF> = (0..nbits).map(|j| ext([((5u64 >> j) & 1) as i64, 0, 0, 0])).collect();
    match shape {
        "single" => fb[0] = ext([1, k, 0, 0]),
        "cancel-in-x" => {
            fb[0] = ext([1, 2 * k, 0, 0]);
            fb[1] = ext([0, -k, 0, 0]);
        }
        "zero-sum" => {
            fb[0] = ext([1, 2 * k, -2 * k, 0]);
            fb[1] = ext([0, -k, k, 0]);
        }
        other => return Err(format!("unknown shape {other}")),
    }
    let mut xv = EF::ZERO;
    for (j, v) in fb.iter().enumerate() {
        xv += *v * EF::from_u64(1u64 << j);
    }
    let yv = fb[0] * EF::from_u64(5);
    let mut forged = circuit.clone();
    for op in forged.ops.iter_mut() {
        if let Op::Hint { executor, .. } = op {
            *executor = Box::new(FixedExtHint { values: fb.clone() });
        }
    }
    let fr = prove_verify(&forged, &[xv, yv]);
    Ok((honest.is_ok(), fr.is_ok(), match fr {
        Ok(()) => "accepted".into(),
        Err(e) => e.chars().take(160).collect(),
    }))
}
