//! C09 / C10 for programs with non-primitive tables: honest executions of small circuits that use the Poseidon2 table the way
//! the repository's examples do (a Merkle path whose index accumulator `mmcs_index_sum` is exposed to a public input; the
//! path length is a parameter, so that the table has 2, 3, 4, 5, 8 rows - with and without padding rows) must be proven and
//! verified: the creator multiplicities the preprocessing derives must equal the reads the AIR performs.
use std::panic::{AssertUnwindSafe, catch_unwind};

use p3_batch_stark::ProverData;
use p3_circuit::ops::{NpoPrivateData, Poseidon2Config, Poseidon2PermCall, Poseidon2PermPrivateData, generate_poseidon2_trace, generate_recompose_trace};
use p3_circuit::{CircuitBuilder, ExprId};
use p3_circuit_prover::batch_stark_prover::{poseidon2_air_builders, recompose_air_builders};
use p3_circuit_prover::common::{NpoPreprocessor, get_airs_and_degrees_with_prep};
use p3_circuit_prover::config::{self, KoalaBearConfig};
use p3_circuit_prover::{BatchStarkProver, CircuitProverData, ConstraintProfile, Poseidon2Preprocessor, RecomposePreprocessor, TablePacking};
use p3_field::extension::BinomialExtensionField;
use p3_field::{BasedVectorSpace, PrimeCharacteristicRing};
use p3_koala_bear::{KoalaBear, default_koalabear_poseidon2_16};
use p3_poseidon2_circuit_air::KoalaBearD4Width16;
use p3_symmetric::Permutation;
use serde_json::{Value, json};

type KB = KoalaBear;
type E4 = BinomialExtensionField<KB, 4>;

fn limb(start: u64) -> E4 {
    let c: Vec<KB> = (0..4).map(|i| KB::from_u64(start + i)).collect();
    E4::from_basis_coefficients_slice(&c).unwrap()
}
fn flat(l: &[E4]) -> Vec<KB> {
    l.iter().flat_map(|x| x.as_basis_coefficients_slice().to_vec()).collect()
}

/// Merkle path of `rows` compression rows (row 0 hashes leaf || sibling 0), direction bits `bits`, final digest and index
/// accumulator public.  Returns Ok(()) iff the honest execution proves and verifies.
pub fn merkle_path(rows: usize, bits_pattern: u64, packing: TablePacking) -> Result<(), String> {
    merkle_path_inner(rows, bits_pattern, packing, 0)
}

/// With `start_sum = S != 0` the statement is FALSE: the public index is claimed to be `S * 2^(rows-1) + (index of the path)`,
/// and the prover's trace starts the accumulator of the chain at S instead of 0 (a cell of the chain-start row that no
/// constraint of the Poseidon2 AIR fixes, PoseidonRows.tla `ChainStartSumFixed`).  Ok(()) = the verifier accepts.
pub fn merkle_path_inner(rows: usize, bits_pattern: u64, packing: TablePacking, start_sum: u64) -> Result<(), String> {
    let perm = default_koalabear_poseidon2_16();
    let bits: Vec<bool> = (0..rows).map(|i| i > 0 && (bits_pattern >> i) & 1 == 1).collect();
    let index_sum = KB::from_u64(bits.iter().fold(0u64, |a, &b| 2 * a + u64::from(b)) + (start_sum << (rows - 1)));
    let leaf = [limb(1), limb(5)];
    let sibs: Vec<[E4; 2]> = (0..rows).map(|i| [limb(9 + 8 * i as u64), limb(13 + 8 * i as u64)]).collect();
    let mut state: [KB; 16] = flat(&[leaf[0], leaf[1], sibs[0][0], sibs[0][1]]).try_into().unwrap();
    state = perm.permute(state);
    for i in 1..rows {
        let s = flat(&sibs[i]);
        let mut nx = [KB::ZERO; 16];
        if bits[i] {
            nx[..8].copy_from_slice(&s);
            nx[8..].copy_from_slice(&state[..8]);
        } else {
            nx[..8].copy_from_slice(&state[..8]);
            nx[8..].copy_from_slice(&s);
        }
        state = perm.permute(nx);
    }
    let digest = [E4::from_basis_coefficients_slice(&state[..4]).unwrap(), E4::from_basis_coefficients_slice(&state[4..8]).unwrap()];

    let mut b = CircuitBuilder::<E4>::new();
    b.enable_poseidon2_perm::<KoalaBearD4Width16, _>(generate_poseidon2_trace::<E4, KoalaBearD4Width16>, perm);
    b.enable_recompose::<KB>(generate_recompose_trace::<KB, E4>);
    let (out0, out1, idx) = (b.public_input(), b.public_input(), b.public_input());
    let bit0 = b.alloc_const(E4::ZERO, "mmcs_bit_row0");
    let in0: Vec<Option<ExprId>> = [leaf[0], leaf[1], sibs[0][0], sibs[0][1]].iter().map(|&v| Some(b.alloc_const(v, "row0_in"))).collect();
    let single = rows == 1;
    let (_, o0) = b
        .add_poseidon2_perm(&Poseidon2PermCall { config: Poseidon2Config::KOALA_BEAR_D4_W16, new_start: true, merkle_path: true, mmcs_bit: Some(bit0), mmcs_bit2: None, inputs: in0,
            out_ctl: vec![single, single], return_all_outputs: false, mmcs_index_sum: if single { Some(idx) } else { None } })
        .map_err(|e| format!("row 0: {e:?}"))?;
    let mut last_out = o0;
    let mut ids = Vec::new();
    for i in 1..rows {
        let last = i + 1 == rows;
        let bit = b.alloc_const(if bits[i] { E4::ONE } else { E4::ZERO }, "mmcs_bit");
        let (id, outs) = b
            .add_poseidon2_perm(&Poseidon2PermCall { config: Poseidon2Config::KOALA_BEAR_D4_W16, new_start: false, merkle_path: true, mmcs_bit: Some(bit), mmcs_bit2: None, inputs: vec![None; 4],
                out_ctl: vec![last, last], return_all_outputs: false, mmcs_index_sum: if last { Some(idx) } else { None } })
            .map_err(|e| format!("row {i}: {e:?}"))?;
        ids.push(id);
        last_out = outs;
    }
    b.connect(last_out[0].ok_or("no output 0")?, out0);
    b.connect(last_out[1].ok_or("no output 1")?, out1);
    let circuit = b.build().map_err(|e| format!("build: {e:?}"))?;
    let npo_prep: Vec<Box<dyn NpoPreprocessor<KB>>> = vec![Box::new(Poseidon2Preprocessor), Box::new(RecomposePreprocessor::default())];
    let mut air_builders = poseidon2_air_builders::<_, 4>();
    air_builders.extend(recompose_air_builders(1, false));
    let (ad, pc, npc) = get_airs_and_degrees_with_prep::<KoalaBearConfig, _, 4>(&circuit, &packing, &npo_prep, &air_builders, ConstraintProfile::Standard).map_err(|e| format!("airs: {e:?}"))?;
    let (airs, degs): (Vec<_>, Vec<usize>) = ad.into_iter().unzip();
    let mut runner = circuit.runner();
    runner.set_public_inputs(&[digest[0], digest[1], E4::from(index_sum)]).map_err(|e| format!("public inputs: {e:?}"))?;
    for (k, id) in ids.iter().enumerate() {
        runner.set_private_data(*id, NpoPrivateData::new(Poseidon2PermPrivateData { sibling: vec![sibs[k + 1][0], sibs[k + 1][1]] })).map_err(|e| format!("private data: {e:?}"))?;
    }
    let mut traces = runner.run().map_err(|e| format!("run: {e:?}"))?;
    if start_sum != 0 {
        let id = p3_circuit::ops::NpoTypeId::poseidon2_perm(Poseidon2Config::KOALA_BEAR_D4_W16);
        let mut tr = traces.non_primitive_trace::<p3_circuit::ops::Poseidon2Trace<KB>>(&id).cloned().ok_or("no Poseidon2 trace")?;
        tr.operations[0].mmcs_index_sum = KB::from_u64(start_sum);
        traces.non_primitive_traces.insert(id, Box::new(tr));
    }
    let cpd = CircuitProverData::new(ProverData::from_airs_and_degrees(&config::koala_bear(), &airs, &degs), pc, npc);
    let mut prover = BatchStarkProver::new(config::koala_bear()).with_table_packing(packing);
    prover.register_poseidon2_table::<4>(Poseidon2Config::KOALA_BEAR_D4_W16);
    prover.register_recompose_table::<4>(false);
    match catch_unwind(AssertUnwindSafe(|| {
        let proof = prover.prove_all_tables(&traces, &cpd).map_err(|e| format!("prove: {e:?}"))?;
        prover.verify_all_tables::<E4>(&proof).map_err(|e| format!("verify: {e:?}"))
    })) {
        Ok(r) => r,
        Err(p) => Err(format!("panic: {}", p.downcast_ref::<String>().cloned().or_else(|| p.downcast_ref::<&str>().map(|s| s.to_string())).unwrap_or_default().chars().take(200).collect::<String>())),
    }
}

// ---------------------------------------------------------------------------------------------
// PoseidonPrep.tla replay: a table whose rows follow a pattern (mf = the row exposes the index accumulator, ns = the row
// starts a new Merkle chain), proven under a minimum trace height.
// ---------------------------------------------------------------------------------------------
/// Returns Ok(()) iff the honest execution proves and verifies.
pub fn pattern_program(pattern: &[(bool, bool)], min_height: usize) -> Result<(), String> {
    pattern_program_dup(pattern, min_height, false)
}

/// `dup`: every chain hashes the SAME leaf and siblings, and the digests of all chains are connected to ONE pair of public
/// inputs: the exposed outputs of the later chains are duplicate creators of a slot (`dup_npo_outputs`: readers on the bus).
pub fn pattern_program_dup(pattern: &[(bool, bool)], min_height: usize, dup: bool) -> Result<(), String> {
    let perm = default_koalabear_poseidon2_16();
    let rows = pattern.len();
    let packing = TablePacking::new(1, 1).with_min_trace_height(min_height);
    let bit_of = |i: usize| (i * 7 + 3) % 3 == 1;
    let mut b = CircuitBuilder::<E4>::new();
    b.enable_poseidon2_perm::<KoalaBearD4Width16, _>(generate_poseidon2_trace::<E4, KoalaBearD4Width16>, perm.clone());
    b.enable_recompose::<KB>(generate_recompose_trace::<KB, E4>);
    let mut pubs: Vec<E4> = Vec::new();
    let mut private: Vec<(p3_circuit::NonPrimitiveOpId, [E4; 2])> = Vec::new();
    let mut state = [KB::ZERO; 16];
    let mut acc = 0u64;
    let mut shared_out: [Option<ExprId>; 2] = [None, None];
    for (i, &(mf, ns)) in pattern.iter().enumerate() {
        let chain_last = i + 1 == rows || pattern[i + 1].1;
        let k = if dup { 0 } else { i as u64 };
        let sib = [limb(9 + 8 * k), limb(13 + 8 * k)];
        let bit = !ns && bit_of(if dup { 1 } else { i });
        if ns {
            let leaf = [limb(1 + k), limb(5 + k)];
            state = flat(&[leaf[0], leaf[1], sib[0], sib[1]]).try_into().unwrap();
            state = perm.permute(state);
            acc = 0;
        } else {
            let s = flat(&sib);
            let mut nx = [KB::ZERO; 16];
            if bit {
                nx[..8].copy_from_slice(&s);
                nx[8..].copy_from_slice(&state[..8]);
            } else {
                nx[..8].copy_from_slice(&state[..8]);
                nx[8..].copy_from_slice(&s);
            }
            state = perm.permute(nx);
            acc = 2 * acc + u64::from(bit);
        }
        let idx = if mf {
            pubs.push(E4::from(KB::from_u64(acc)));
            Some(b.public_input())
        } else {
            None
        };
        let bit_e = b.alloc_const(if bit { E4::ONE } else { E4::ZERO }, "mmcs_bit");
        let inputs: Vec<Option<ExprId>> = if ns {
            let leaf = [limb(1 + k), limb(5 + k)];
            [leaf[0], leaf[1], sib[0], sib[1]].iter().map(|&v| Some(b.alloc_const(v, "row_in"))).collect()
        } else {
            vec![None; 4]
        };
        let (id, outs) = b
            .add_poseidon2_perm(&Poseidon2PermCall { config: Poseidon2Config::KOALA_BEAR_D4_W16, new_start: ns, merkle_path: true, mmcs_bit: Some(bit_e), mmcs_bit2: None, inputs,
                out_ctl: vec![chain_last, chain_last], return_all_outputs: false, mmcs_index_sum: idx })
            .map_err(|e| format!("row {i}: {e:?}"))?;
        if !ns {
            private.push((id, sib));
        }
        if chain_last {
            let d = [E4::from_basis_coefficients_slice(&state[..4]).unwrap(), E4::from_basis_coefficients_slice(&state[4..8]).unwrap()];
            for (k, dv) in d.iter().enumerate() {
                let p = match (dup, shared_out[k]) {
                    (true, Some(p)) => p,
                    _ => {
                        let p = b.public_input();
                        pubs.push(*dv);
                        shared_out[k] = Some(p);
                        p
                    }
                };
                b.connect(outs[k].ok_or("no output")?, p);
            }
        }
    }
    let circuit = b.build().map_err(|e| format!("build: {e:?}"))?;
    let npo_prep: Vec<Box<dyn NpoPreprocessor<KB>>> = vec![Box::new(Poseidon2Preprocessor), Box::new(RecomposePreprocessor::default())];
    let mut air_builders = poseidon2_air_builders::<_, 4>();
    air_builders.extend(recompose_air_builders(1, false));
    let (ad, pc, npc) = get_airs_and_degrees_with_prep::<KoalaBearConfig, _, 4>(&circuit, &packing, &npo_prep, &air_builders, ConstraintProfile::Standard).map_err(|e| format!("airs: {e:?}"))?;
    let (airs, degs): (Vec<_>, Vec<usize>) = ad.into_iter().unzip();
    let mut runner = circuit.runner();
    runner.set_public_inputs(&pubs).map_err(|e| format!("public inputs: {e:?}"))?;
    for (id, sib) in &private {
        runner.set_private_data(*id, NpoPrivateData::new(Poseidon2PermPrivateData { sibling: vec![sib[0], sib[1]] })).map_err(|e| format!("private data: {e:?}"))?;
    }
    let traces = runner.run().map_err(|e| format!("run: {e:?}"))?;
    let cpd = CircuitProverData::new(ProverData::from_airs_and_degrees(&config::koala_bear(), &airs, &degs), pc, npc);
    let mut prover = BatchStarkProver::new(config::koala_bear()).with_table_packing(packing);
    prover.register_poseidon2_table::<4>(Poseidon2Config::KOALA_BEAR_D4_W16);
    prover.register_recompose_table::<4>(false);
    match catch_unwind(AssertUnwindSafe(|| {
        let proof = prover.prove_all_tables(&traces, &cpd).map_err(|e| format!("prove: {e:?}"))?;
        prover.verify_all_tables::<E4>(&proof).map_err(|e| format!("verify: {e:?}"))
    })) {
        Ok(r) => r,
        Err(p) => Err(format!("panic: {}", p.downcast_ref::<String>().cloned().or_else(|| p.downcast_ref::<&str>().map(|s| s.to_string())).unwrap_or_default().chars().take(200).collect::<String>())),
    }
}

/// `p3r npo-pattern --cases <ndjson of PoseidonPrep.tla> [--stride n]`: one JSON line per case.
pub fn cmd_pattern(args: &[String]) -> i32 {
    use std::io::BufRead;
    let arg = |name: &str| args.iter().position(|a| a == name).and_then(|i| args.get(i + 1).cloned());
    let Some(cases) = arg("--cases") else { return 2 };
    let stride: usize = arg("--stride").and_then(|s| s.parse().ok()).unwrap_or(1);
    let lines: Vec<String> = std::io::BufReader::new(std::fs::File::open(cases).expect("cases")).lines().map(|l| l.unwrap()).filter(|l| !l.trim().is_empty()).collect();
    let lines: Vec<&String> = lines.iter().step_by(stride.max(1)).collect();
    let out: std::sync::Mutex<Vec<(usize, Value)>> = std::sync::Mutex::new(Vec::new());
    let nthreads = 16usize;
    std::thread::scope(|s| {
        for t in 0..nthreads {
            let (lines, out) = (&lines, &out);
            s.spawn(move || {
                for (i, l) in lines.iter().enumerate().filter(|(i, _)| i % nthreads == t) {
                    let c: Value = serde_json::from_str(l).expect("case");
                    let pattern: Vec<(bool, bool)> = c["rows"].as_array().unwrap().iter().map(|r| (r["mf"].as_bool().unwrap(), r["ns"].as_bool().unwrap())).collect();
                    let mh = c["min_height"].as_u64().unwrap() as usize;
                    let r = catch_unwind(AssertUnwindSafe(|| pattern_program(&pattern, mh))).unwrap_or_else(|_| Err("panic while building".into()));
                    let n = pattern.len();
                    let shape = format!("rows{}{}+last-row-{}+min-height-{}", if n.is_power_of_two() { "-power-of-two" } else { "-padded" }, if mh > n.next_power_of_two() { "+min-height-pads" } else { "" },
                        if pattern[n - 1].0 { "exposes-index" } else { "plain" }, mh);
                    out.lock().unwrap().push((i, json!({"case": c, "shape": shape, "accepted": r.is_ok(), "msg": r.err().map(|e| e.chars().take(200).collect::<String>())})));
                }
            });
        }
    });
    let mut v = out.into_inner().unwrap();
    v.sort_by_key(|x| x.0);
    for (_, o) in v {
        println!("{o}");
    }
    // duplicate non-primitive outputs: identical chains whose digests are tied to one pair of public inputs
    for (pattern, mh) in [(vec![(false, true), (false, true)], 1usize), (vec![(false, true), (false, false), (false, true), (false, false)], 1), (vec![(false, true), (false, true), (false, true)], 8)] {
        let r = catch_unwind(AssertUnwindSafe(|| pattern_program_dup(&pattern, mh, true))).unwrap_or_else(|_| Err("panic while building".into()));
        println!("{}", json!({"case": {"rows": pattern.iter().map(|p| json!({"mf": p.0, "ns": p.1})).collect::<Vec<_>>(), "min_height": mh, "dup": true},
            "shape": format!("duplicate-npo-outputs+chains{}", pattern.iter().filter(|p| p.1).count()), "accepted": r.is_ok(), "msg": r.err().map(|e| e.chars().take(200).collect::<String>())}));
    }
    0
}

/// `p3r npo-start-sum`: the false index claims of `merkle_path_inner` (one JSON line each); `accepted: true` is the finding.
pub fn cmd_start_sum(_args: &[String]) -> i32 {
    for rows in [2usize, 3, 5] {
        for s in [1u64, 3] {
            let r = catch_unwind(AssertUnwindSafe(|| merkle_path_inner(rows, 0b1010_1010, TablePacking::new(1, 1), s))).unwrap_or_else(|_| Err("panic while building".into()));
            println!("{}", json!({"program": "merkle-path-false-index-claim", "rows": rows, "start_sum": s, "accepted": r.is_ok(), "msg": r.err().map(|e| e.chars().take(160).collect::<String>())}));
        }
    }
    0
}

/// `p3r npo-honest`: one JSON line per honest program.
pub fn cmd(_args: &[String]) -> i32 {
    let mut out: Vec<Value> = Vec::new();
    for rows in [2usize, 3, 4, 5, 8] {
        for (pk, packing) in [("lanes1", TablePacking::new(1, 1)), ("lanes4", TablePacking::new(4, 4))] {
            for bits in [0b0000_0010u64, 0b1010_1010, 0] {
                let r = catch_unwind(AssertUnwindSafe(|| merkle_path(rows, bits, packing.clone()))).unwrap_or_else(|_| Err("panic while building".into()));
                out.push(json!({"program": format!("merkle-path-index-exposed-rows{rows}"), "rows": rows, "packing": pk, "bits": bits, "accepted": r.is_ok(), "msg": r.err()}));
            }
        }
    }
    for o in &out {
        println!("{o}");
    }
    0
}
