//! Replay of `Challenger.tla` histories into the real `CircuitChallenger` (a circuit is built
//! and executed) and the native `DuplexChallenger`, for every supported configuration.
//! Compared: every sampled value / bit, the proof-of-work verdict, the number of permutations.
use std::panic::{AssertUnwindSafe, catch_unwind};

use p3_challenger::{CanObserve, CanSample, CanSampleBits, DuplexChallenger, FieldChallenger};
use p3_circuit::ops::{Poseidon1Config, Poseidon2Config, generate_poseidon1_trace, generate_poseidon2_trace, generate_recompose_trace};
use p3_circuit::{Circuit, CircuitBuilder, ExprId, Op};
use p3_field::extension::BinomialExtensionField;
use p3_field::{BasedVectorSpace, ExtensionField, Field, PrimeCharacteristicRing, PrimeField64};
use p3_recursion::challenger::CircuitChallenger;
use p3_recursion::challenger_perm::ChallengerPermConfig;
use p3_recursion::traits::RecursiveChallenger;
use p3_symmetric::CryptographicPermutation;
use rand::rngs::StdRng;
use rand::{RngExt, SeedableRng};
use serde::{Deserialize, Serialize};
use serde_json::{Value, json};

#[derive(Clone, Debug, Serialize, Deserialize)]
pub struct HOp {
    pub op: String,
    pub n: usize,
}

#[derive(Clone, Debug, Serialize, Deserialize)]
pub struct ChRec {
    pub width: usize,
    pub rate: usize,
    pub d: usize,
    pub base: bool,
    pub hist: Vec<HOp>,
    pub nperms: usize,
    #[serde(default)]
    pub cperms: usize,
    #[serde(default)]
    pub nsamples: usize,
    #[serde(default)]
    pub agree: bool,
}

#[derive(Clone, Debug)]
pub struct ChOutcome {
    /// None = agreement; Some = what differs
    pub mismatch: Option<String>,
    pub native_perms: usize,
    pub circuit_perms: usize,
    pub samples: usize,
    pub pow_rejected: bool,
    pub detail: Value,
}

/// A permutation wrapper counting its invocations (the native side's permutation count).
#[derive(Clone)]
pub struct Counting<P> {
    pub inner: P,
    pub count: std::sync::Arc<std::sync::atomic::AtomicUsize>,
}
impl<T: Clone, P: p3_symmetric::Permutation<T>> p3_symmetric::Permutation<T> for Counting<P> {
    fn permute_mut(&self, input: &mut T) {
        self.count.fetch_add(1, std::sync::atomic::Ordering::SeqCst);
        self.inner.permute_mut(input)
    }
}
impl<T: Clone, P: CryptographicPermutation<T>> CryptographicPermutation<T> for Counting<P> {}

enum Expect<EF> {
    Value(ExprId, EF, String),
}

fn fcanon<BF: PrimeField64, EF: BasedVectorSpace<BF>>(x: &EF) -> Vec<u64> {
    x.as_basis_coefficients_slice().iter().map(|c| c.as_canonical_u64()).collect()
}

fn rand_bf<BF: PrimeField64>(rng: &mut StdRng) -> BF {
    BF::from_u64(rng.random::<u64>() % BF::ORDER_U64)
}

fn count_perm_ops<EF: Field>(c: &Circuit<EF>) -> usize {
    c.ops
        .iter()
        .filter(|op| matches!(op, Op::NonPrimitiveOpWithExecutor { executor, .. } if executor.op_type().as_str().contains("poseidon")))
        .count()
}

/// Drive both challengers through one history.
#[allow(clippy::too_many_arguments)]
pub fn replay<BF, EF, C, P, const W: usize, const R: usize>(
    hist: &[HOp],
    mut circuit: CircuitBuilder<EF>,
    mut cc: CircuitChallenger<W, R, C>,
    perm: P,
    foreign: &dyn Fn(&mut CircuitBuilder<EF>),
    rng: &mut StdRng,
) -> ChOutcome
where
    BF: PrimeField64,
    EF: ExtensionField<BF> + BasedVectorSpace<BF> + Eq + core::hash::Hash,
    C: ChallengerPermConfig,
    P: CryptographicPermutation<[BF; W]> + Clone,
{
    let counter = std::sync::Arc::new(std::sync::atomic::AtomicUsize::new(0));
    let cperm = Counting { inner: perm, count: counter.clone() };
    let mut native = DuplexChallenger::<BF, Counting<P>, W, R>::new(cperm.clone());
    let mut pubs: Vec<EF> = Vec::new();
    let mut expects: Vec<Expect<EF>> = Vec::new();
    let mut pow_rejected = false;
    let mut nsamples = 0usize;
    let mut log: Vec<Value> = Vec::new();
    let d = EF::DIMENSION;

    let built = catch_unwind(AssertUnwindSafe(|| -> Result<(), String> {
        for (step, h) in hist.iter().enumerate() {
            match h.op.as_str() {
                "obs" => {
                    for _ in 0..h.n {
                        let v: BF = rand_bf(rng);
                        native.observe(v);
                        let t = circuit.public_input();
                        pubs.push(EF::from(v));
                        RecursiveChallenger::<BF, EF>::observe(&mut cc, &mut circuit, t);
                    }
                }
                "sample" => {
                    for j in 0..h.n {
                        let v: BF = native.sample();
                        let t = RecursiveChallenger::<BF, EF>::sample(&mut cc, &mut circuit);
                        expects.push(Expect::Value(t, EF::from(v), format!("step {step} sample {j}")));
                        nsamples += 1;
                    }
                }
                "obs_ext" => {
                    let coeffs: Vec<BF> = (0..d).map(|_| rand_bf(rng)).collect();
                    let v = EF::from_basis_coefficients_slice(&coeffs).unwrap();
                    native.observe_algebra_element(v);
                    let t = circuit.public_input();
                    pubs.push(v);
                    RecursiveChallenger::<BF, EF>::observe_ext(&mut cc, &mut circuit, t);
                }
                "sample_ext" => {
                    let v: EF = native.sample_algebra_element();
                    let t = RecursiveChallenger::<BF, EF>::sample_ext(&mut cc, &mut circuit);
                    expects.push(Expect::Value(t, v, format!("step {step} sample_ext")));
                    nsamples += 1;
                }
                "bits" => {
                    let idx: usize = native.sample_bits(h.n);
                    let bits = RecursiveChallenger::<BF, EF>::sample_bits(&mut cc, &mut circuit, h.n).map_err(|e| format!("sample_bits: {e:?}"))?;
                    if bits.len() != h.n {
                        return Err(format!("sample_bits returned {} bits for {}", bits.len(), h.n));
                    }
                    for (k, b) in bits.iter().enumerate() {
                        let e = EF::from(BF::from_u64(((idx >> k) & 1) as u64));
                        expects.push(Expect::Value(*b, e, format!("step {step} bit {k}")));
                    }
                    nsamples += 1;
                }
                "pow" => {
                    let w: BF = rand_bf(rng);
                    // native check_witness: bits == 0 -> true without touching the transcript
                    let ok = if h.n == 0 {
                        true
                    } else {
                        native.observe(w);
                        native.sample_bits(h.n) == 0
                    };
                    let t = circuit.public_input();
                    pubs.push(EF::from(w));
                    RecursiveChallenger::<BF, EF>::check_pow_witness(&mut cc, &mut circuit, h.n, t).map_err(|e| format!("check_pow_witness: {e:?}"))?;
                    log.push(json!({"step": step, "pow_bits": h.n, "native_accepts": ok}));
                    if !ok {
                        pow_rejected = true;
                        break; // the circuit is now unsatisfiable; later steps cannot be compared
                    }
                }
                "clear" => {
                    native = DuplexChallenger::<BF, Counting<P>, W, R>::new(cperm.clone());
                    RecursiveChallenger::<BF, EF>::clear(&mut cc, &mut circuit);
                }
                "foreign" => foreign(&mut circuit),
                o => return Err(format!("unknown history op {o}")),
            }
        }
        Ok(())
    }));
    let native_perms = counter.load(std::sync::atomic::Ordering::SeqCst);
    let fail = |m: String, detail: Value| ChOutcome { mismatch: Some(m), native_perms, circuit_perms: 0, samples: nsamples, pow_rejected, detail };
    match built {
        Err(_) => return fail("panic while building the circuit transcript".into(), json!({"log": log})),
        Ok(Err(e)) => return fail(e, json!({"log": log})),
        Ok(Ok(())) => {}
    }
    for (i, e) in expects.iter().enumerate() {
        let Expect::Value(t, _, _) = e;
        if circuit.tag(*t, format!("s{i}")).is_err() {
            return fail("duplicate tag".into(), json!({}));
        }
    }
    let compiled = match catch_unwind(AssertUnwindSafe(|| circuit.build())) {
        Ok(Ok(c)) => c,
        Ok(Err(e)) => return fail(format!("circuit build error: {e:?}"), json!({"log": log})),
        Err(_) => return fail("panic in circuit build".into(), json!({"log": log})),
    };
    let circuit_perms = count_perm_ops(&compiled);
    let run = catch_unwind(AssertUnwindSafe(|| {
        let mut r = compiled.runner();
        r.set_public_inputs(&pubs).map_err(|e| format!("{e:?}"))?;
        r.run().map_err(|e| format!("{e:?}"))
    }));
    let mut out = ChOutcome { mismatch: None, native_perms, circuit_perms, samples: nsamples, pow_rejected, detail: json!({"log": log}) };
    match run {
        Err(_) => out.mismatch = Some("panic in runner".into()),
        Ok(Err(e)) => {
            if !pow_rejected {
                let short: String = e.chars().take(200).collect();
                out.mismatch = Some(format!("circuit run fails although the native transcript accepts: {short}"));
            }
        }
        Ok(Ok(traces)) => {
            if pow_rejected {
                out.mismatch = Some("native proof-of-work check rejects the witness but the circuit is satisfied".into());
            } else {
                for (i, e) in expects.iter().enumerate() {
                    let Expect::Value(_, want, what) = e;
                    let got = traces.probe(&format!("s{i}")).copied();
                    if got != Some(*want) {
                        out.mismatch = Some(format!("value handed out differs from native: {what}"));
                        out.detail = json!({"what": what, "native": fcanon::<BF, EF>(want), "circuit": got.map(|g| fcanon::<BF, EF>(&g)), "log": log});
                        break;
                    }
                }
            }
        }
    }
    if out.mismatch.is_none() && !pow_rejected && native_perms != circuit_perms {
        out.mismatch = Some(format!("permutation count differs: native {native_perms}, circuit rows {circuit_perms}"));
    }
    out
}

// ---------------------------------------------------------------------------------------------
// Concrete configurations (the ones the repository's own tests set up)
// ---------------------------------------------------------------------------------------------
pub const CONFIGS: &[&str] = &["bb_d4_p2", "kb_d4_p2", "kb_d1_p2", "bb_d1_p2", "kb_d1_p1", "gl_d2_p2"];

fn no_foreign<EF: Field>(_: &mut CircuitBuilder<EF>) {}

pub fn replay_config(cfg: &str, rec: &ChRec, seed: u64) -> Option<ChOutcome> {
    let mut rng = StdRng::seed_from_u64(seed);
    match cfg {
        "bb_d4_p2" if rec.width == 16 && rec.d == 4 && !rec.base => {
            use p3_baby_bear::{BabyBear, default_babybear_poseidon2_16};
            use p3_poseidon2_circuit_air::BabyBearD4Width16;
            type EF = BinomialExtensionField<BabyBear, 4>;
            let mut c = CircuitBuilder::<EF>::new();
            c.enable_poseidon2_perm::<BabyBearD4Width16, _>(generate_poseidon2_trace::<EF, BabyBearD4Width16>, default_babybear_poseidon2_16());
            c.enable_recompose::<BabyBear>(generate_recompose_trace::<BabyBear, EF>);
            let cc = CircuitChallenger::<16, 8, Poseidon2Config>::new_babybear();
            Some(replay::<BabyBear, EF, _, _, 16, 8>(&rec.hist, c, cc, default_babybear_poseidon2_16(), &no_foreign, &mut rng))
        }
        "kb_d4_p2" if rec.width == 16 && rec.d == 4 && !rec.base => {
            use p3_koala_bear::{KoalaBear, default_koalabear_poseidon2_16};
            use p3_poseidon2_circuit_air::KoalaBearD4Width16;
            type EF = BinomialExtensionField<KoalaBear, 4>;
            let mut c = CircuitBuilder::<EF>::new();
            c.enable_poseidon2_perm::<KoalaBearD4Width16, _>(generate_poseidon2_trace::<EF, KoalaBearD4Width16>, default_koalabear_poseidon2_16());
            c.enable_recompose::<KoalaBear>(generate_recompose_trace::<KoalaBear, EF>);
            let cc = CircuitChallenger::<16, 8, Poseidon2Config>::new_koalabear();
            Some(replay::<KoalaBear, EF, _, _, 16, 8>(&rec.hist, c, cc, default_koalabear_poseidon2_16(), &no_foreign, &mut rng))
        }
        "kb_d1_p2" if rec.width == 16 && rec.d == 1 && rec.base => {
            use p3_circuit::ops::KoalaBearD1Width16;
            use p3_koala_bear::{KoalaBear, default_koalabear_poseidon2_16};
            type EF = KoalaBear;
            let mut c = CircuitBuilder::<EF>::new();
            c.enable_poseidon2_perm_base::<KoalaBearD1Width16, _>(generate_poseidon2_trace::<EF, KoalaBearD1Width16>, default_koalabear_poseidon2_16());
            c.enable_recompose::<KoalaBear>(generate_recompose_trace::<KoalaBear, EF>);
            let cc = CircuitChallenger::<16, 8, Poseidon2Config>::new_koalabear_base();
            let foreign = |c: &mut CircuitBuilder<EF>| {
                // a permutation row that belongs to another component: a fresh sponge start
                let z = c.define_const(KoalaBear::ONE);
                let inputs: [Option<ExprId>; 16] = core::array::from_fn(|i| if i < 8 { Some(z) } else { None });
                let _ = c.add_poseidon2_perm_for_challenger_base(Poseidon2Config::KOALA_BEAR_D1_W16, true, inputs, 0);
            };
            let mut o = replay::<KoalaBear, EF, _, _, 16, 8>(&rec.hist, c, cc, default_koalabear_poseidon2_16(), &foreign, &mut rng);
            // foreign rows are permutations of the circuit that the native transcript does not have
            let nf = rec.hist.iter().filter(|h| h.op == "foreign").count();
            if nf > 0 {
                if let Some(m) = &o.mismatch {
                    if m.starts_with("permutation count differs") && o.circuit_perms == o.native_perms + nf {
                        o.mismatch = None;
                    }
                }
            }
            Some(o)
        }
        "bb_d1_p2" if rec.width == 16 && rec.d == 1 && rec.base && !rec.hist.iter().any(|h| h.op == "foreign") => {
            use p3_baby_bear::{BabyBear, default_babybear_poseidon2_16};
            use p3_circuit::ops::BabyBearD1Width16;
            type EF = BabyBear;
            let mut c = CircuitBuilder::<EF>::new();
            c.enable_poseidon2_perm_base::<BabyBearD1Width16, _>(generate_poseidon2_trace::<EF, BabyBearD1Width16>, default_babybear_poseidon2_16());
            c.enable_recompose::<BabyBear>(generate_recompose_trace::<BabyBear, EF>);
            let cc = CircuitChallenger::<16, 8, Poseidon2Config>::new_babybear_base();
            Some(replay::<BabyBear, EF, _, _, 16, 8>(&rec.hist, c, cc, default_babybear_poseidon2_16(), &no_foreign, &mut rng))
        }
        "kb_d1_p1" if rec.width == 16 && rec.d == 1 && rec.base => {
            use p3_circuit::ops::poseidon1_perm::KoalaBearD1Width16;
            use p3_koala_bear::{KoalaBear, default_koalabear_poseidon1_16};
            type EF = KoalaBear;
            if rec.hist.iter().any(|h| h.op == "foreign") {
                return None;
            }
            let mut c = CircuitBuilder::<EF>::new();
            c.enable_poseidon1_perm_base::<KoalaBearD1Width16, _>(generate_poseidon1_trace::<EF, KoalaBearD1Width16>, default_koalabear_poseidon1_16());
            c.enable_recompose::<KoalaBear>(generate_recompose_trace::<KoalaBear, EF>);
            let cc = CircuitChallenger::<16, 8, Poseidon1Config>::new_koalabear_poseidon1_base();
            Some(replay::<KoalaBear, EF, _, _, 16, 8>(&rec.hist, c, cc, default_koalabear_poseidon1_16(), &no_foreign, &mut rng))
        }
        "gl_d2_p2" if rec.width == 8 && rec.d == 2 && !rec.base => {
            use p3_circuit::ops::GoldilocksD2Width8;
            use p3_goldilocks::{Goldilocks, Poseidon2Goldilocks};
            use rand::rngs::SmallRng;
            type EF = BinomialExtensionField<Goldilocks, 2>;
            let mk = || {
                let mut r = SmallRng::seed_from_u64(1);
                Poseidon2Goldilocks::<8>::new_from_rng_128(&mut r)
            };
            let mut c = CircuitBuilder::<EF>::new();
            c.enable_poseidon2_perm_width_8::<GoldilocksD2Width8, _>(generate_poseidon2_trace::<EF, GoldilocksD2Width8>, mk());
            c.enable_recompose::<Goldilocks>(generate_recompose_trace::<Goldilocks, EF>);
            let cc = CircuitChallenger::<8, 4, Poseidon2Config>::new_goldilocks();
            Some(replay::<Goldilocks, EF, _, _, 8, 4>(&rec.hist, c, cc, mk(), &no_foreign, &mut rng))
        }
        _ => None,
    }
}
