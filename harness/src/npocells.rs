//! C04 for the non-primitive tables: every value cell of the Poseidon2 table of REAL Merkle-opening verification circuits
//! (the circuits of the MMCS family: KoalaBear D4, Poseidon2 W16, arity 2) is changed in an honest trace (+1), the trace is
//! proven with the honest prover data and judged by the real verifier.  Sponge rows and Merkle-path rows (direction bit,
//! index accumulator) are both present.  A cell that no constraint and no bus interaction reads (the index accumulator of
//! a row whose accumulator exposure is disabled) is reported separately.
use std::panic::{AssertUnwindSafe, catch_unwind};

use p3_batch_stark::ProverData;
use p3_circuit::ops::{NpoTypeId, Poseidon2Config, Poseidon2Trace};
use p3_circuit::{Circuit, Traces};
use p3_circuit_prover::batch_stark_prover::{poseidon2_air_builders, recompose_air_builders};
use p3_circuit_prover::common::{NpoPreprocessor, get_airs_and_degrees_with_prep};
use p3_circuit_prover::config::{self, KoalaBearConfig};
use p3_circuit_prover::{BatchStarkProver, CircuitProverData, ConstraintProfile, Poseidon2Preprocessor, RecomposePreprocessor, TablePacking};
use p3_field::PrimeCharacteristicRing;
use p3_field::extension::BinomialExtensionField;
use p3_koala_bear::KoalaBear;
use serde_json::{Value, json};

use crate::mmcs::{Case, Dim, Fault};

type KB = KoalaBear;
type E4 = BinomialExtensionField<KB, 4>;

fn prove_verify(prover: &BatchStarkProver<KoalaBearConfig>, cpd: &CircuitProverData<KoalaBearConfig>, t: &Traces<E4>) -> &'static str {
    let r = catch_unwind(AssertUnwindSafe(|| match prover.prove_all_tables(t, cpd) {
        Ok(p) => match prover.verify_all_tables::<E4>(&p) {
            Ok(()) => "accepted",
            Err(_) => "rejected",
        },
        Err(_) => "prove-failed",
    }));
    r.unwrap_or("panic")
}

fn setup(c: &Circuit<E4>) -> Result<(BatchStarkProver<KoalaBearConfig>, CircuitProverData<KoalaBearConfig>), String> {
    let packing = TablePacking::new(1, 1);
    let npo_prep: Vec<Box<dyn NpoPreprocessor<KB>>> = vec![Box::new(Poseidon2Preprocessor), Box::new(RecomposePreprocessor::default())];
    let mut air_builders = poseidon2_air_builders::<_, 4>();
    air_builders.extend(recompose_air_builders(1, false));
    let (ad, pc, npc) = get_airs_and_degrees_with_prep::<KoalaBearConfig, _, 4>(c, &packing, &npo_prep, &air_builders, ConstraintProfile::Standard).map_err(|e| format!("{e:?}"))?;
    let (airs, degs): (Vec<_>, Vec<usize>) = ad.into_iter().unzip();
    let pd = ProverData::from_airs_and_degrees(&config::koala_bear(), &airs, &degs);
    let mut prover = BatchStarkProver::new(config::koala_bear()).with_table_packing(packing);
    prover.register_poseidon2_table::<4>(Poseidon2Config::KOALA_BEAR_D4_W16);
    prover.register_recompose_table::<4>(false);
    Ok((prover, CircuitProverData::new(pd, pc, npc)))
}

/// The MMCS shapes swept: (heights x widths, index, cap height).
fn shapes() -> Vec<Case> {
    let mk = |dims: &[(usize, usize)], index: usize, cap: usize| Case {
        spec: "Mmcs".into(), cfg: "kb_p2".into(), arity: 2, cap_height: cap, hiding: false, ext: false,
        dims: dims.iter().map(|&(h, w)| Dim { h, w }).collect(), index, fault: Fault { kind: "none".into(), ..Default::default() },
    };
    vec![mk(&[(8, 3)], 5, 0), mk(&[(8, 3), (4, 9)], 6, 0), mk(&[(8, 9), (2, 3)], 3, 1), mk(&[(4, 17)], 2, 0)]
}

/// C18: digest lines of the Merkle-opening circuits (built twice each).
pub fn digest_lines() -> Vec<String> {
    let mut lines = Vec::new();
    for (si, case) in shapes().iter().enumerate() {
        let one = || -> Result<String, String> {
            let (c, _) = crate::mmcs::capture_kb4(case, 7 + si as u64).ok_or("no circuit captured")?;
            let packing = TablePacking::new(1, 1);
            let npo_prep: Vec<Box<dyn NpoPreprocessor<KB>>> = vec![Box::new(Poseidon2Preprocessor), Box::new(RecomposePreprocessor::default())];
            let mut air_builders = poseidon2_air_builders::<_, 4>();
            air_builders.extend(recompose_air_builders(1, false));
            let (ad, pc, npc) = get_airs_and_degrees_with_prep::<KoalaBearConfig, _, 4>(&c, &packing, &npo_prep, &air_builders, ConstraintProfile::Standard).map_err(|e| format!("{e:?}"))?;
            let (airs, degs): (Vec<_>, Vec<usize>) = ad.into_iter().unzip();
            let pd = ProverData::from_airs_and_degrees(&config::koala_bear(), &airs, &degs);
            Ok(crate::npodigest::line(&format!("merkle-opening-shape{si}"), &c, &pc, &npc, &airs, &degs, &pd))
        };
        let a = catch_unwind(AssertUnwindSafe(one)).unwrap_or_else(|_| Err("panic".into()));
        let b = catch_unwind(AssertUnwindSafe(one)).unwrap_or_else(|_| Err("panic".into()));
        match (a, b) {
            (Ok(a), Ok(b)) => lines.push(format!("{a} same_process_rebuild={}", a == b)),
            (a, b) => lines.push(format!("npo merkle-opening-shape{si} ERROR {:?} {:?}", a.err(), b.err())),
        }
    }
    lines
}

pub fn sweep(seed: u64) -> Value {
    let mut out = Vec::new();
    let (mut cells, mut rejected, mut accepted_bound, mut accepted_unread) = (0u64, 0u64, Vec::<Value>::new(), 0u64);
    let mut errors = Vec::<String>::new();
    let mut classes = Vec::<String>::new();
    for (si, case) in shapes().iter().enumerate() {
        let Some((circuit, honest)) = crate::mmcs::capture_kb4(case, seed + si as u64) else {
            errors.push(format!("shape {si}: no honest run captured"));
            continue;
        };
        let (prover, cpd) = match setup(&circuit) {
            Ok(x) => x,
            Err(e) => {
                errors.push(format!("shape {si}: {e}"));
                continue;
            }
        };
        let hv = prove_verify(&prover, &cpd, &honest);
        if hv != "accepted" {
            errors.push(format!("shape {si}: honest proof {hv}"));
            continue;
        }
        let id = NpoTypeId::poseidon2_perm(Poseidon2Config::KOALA_BEAR_D4_W16);
        let Some(tr0) = honest.non_primitive_trace::<Poseidon2Trace<KB>>(&id).cloned() else {
            errors.push(format!("shape {si}: no Poseidon2 trace"));
            continue;
        };
        if std::env::var("P3R_NPO_DEBUG").is_ok() {
            for (r, row) in tr0.operations.iter().enumerate() {
                eprintln!("shape {si} row {r}: new_start={} merkle={} bit={} in_ctl={:?} in_idx={:?} out_ctl={:?} out_idx={:?} mmcs_ctl={} inputs={:?}", row.new_start, row.merkle_path, row.mmcs_bit,
                    row.in_ctl, row.input_indices, row.out_ctl, row.output_indices, row.mmcs_ctl_enabled, row.input_values.iter().map(|v| p3_field::PrimeField64::as_canonical_u64(v) % 1000).collect::<Vec<_>>());
            }
        }
        let mut rows_kinds = (0u64, 0u64);
        for (r, row) in tr0.operations.iter().enumerate() {
            if row.merkle_path { rows_kinds.1 += 1 } else { rows_kinds.0 += 1 }
            let ncell = row.input_values.len();
            for j in 0..=ncell {
                let mut tr = tr0.clone();
                let name = if j == ncell {
                    tr.operations[r].mmcs_index_sum += KB::ONE;
                    "mmcs_index_sum".to_string()
                } else {
                    tr.operations[r].input_values[j] += KB::ONE;
                    format!("input[{j}]")
                };
                let mut t = honest.clone();
                t.non_primitive_traces.insert(id.clone(), Box::new(tr));
                cells += 1;
                match prove_verify(&prover, &cpd, &t) {
                    "accepted" => {
                        // an index accumulator nobody reads: exposure disabled and the row does not chain into a Merkle row
                        let unread = j == ncell && !row.mmcs_ctl_enabled && !row.merkle_path;
                        if unread {
                            accepted_unread += 1;
                        } else {
                            let rowkind = if row.merkle_path { "merkle-row" } else if row.new_start { "sponge-new-start-row" } else { "sponge-chained-row" };
                            let d = 4usize;
                            let cellclass = if j == ncell { "index-accumulator-exposure-disabled" } else if row.in_ctl.get(j / d).copied().unwrap_or(false) { "exposed-input-limb" } else { "unexposed-input-limb" };
                            classes.push(format!("{rowkind}+{cellclass}"));
                            accepted_bound.push(json!({"shape": si, "row": r, "cell": name, "merkle_path": row.merkle_path, "new_start": row.new_start,
                                "in_ctl": row.in_ctl, "out_ctl": row.out_ctl, "rows": tr0.operations.len(),
                                "next_new_start": tr0.operations.get(r + 1).map(|n| n.new_start), "next_merkle": tr0.operations.get(r + 1).map(|n| n.merkle_path),
                                "mmcs_ctl_enabled": row.mmcs_ctl_enabled, "dims": case.dims.iter().map(|d| [d.h, d.w]).collect::<Vec<_>>()}));
                        }
                    }
                    _ => rejected += 1,
                }
            }
        }
        out.push(json!({"shape": si, "dims": case.dims.iter().map(|d| [d.h, d.w]).collect::<Vec<_>>(), "poseidon2_rows": tr0.operations.len(),
            "sponge_rows": rows_kinds.0, "merkle_rows": rows_kinds.1}));
    }
    json!({"shapes": out, "cells": cells, "rejected": rejected, "accepted_unread_accumulator": accepted_unread, "accepted": accepted_bound, "accepted_classes": classes, "errors": errors})
}

/// Decisive experiment: claim a WRONG opened value.  The leaf-hash row (sponge, new_start) gets the wrong leaf value in its
/// bus-bound limb and in the Public table (so the bus balances), its permutation is recomputed by the trace generator; the
/// Merkle-path rows are left as they are (they still start from the digest of the TRUE leaf).
pub fn wrong_opening(seed: u64) -> Value {
    let case = &shapes()[0];
    let Some((circuit, honest)) = crate::mmcs::capture_kb4(case, seed) else { return json!({"error": "no capture"}) };
    let Ok((prover, cpd)) = setup(&circuit) else { return json!({"error": "setup"}) };
    let id = NpoTypeId::poseidon2_perm(Poseidon2Config::KOALA_BEAR_D4_W16);
    let tr0 = honest.non_primitive_trace::<Poseidon2Trace<KB>>(&id).cloned().unwrap();
    let mut t = honest.clone();
    let mut tr = tr0.clone();
    // leaf limb 0 of row 0 holds the opened base values (v0, v1, v2, 0): change v0
    tr.operations[0].input_values[0] += KB::ONE;
    t.non_primitive_traces.insert(id.clone(), Box::new(tr));
    // the same slot in the Public table: the opened values are the first public inputs (one ext element per base value)
    let before = t.public_trace.values[0];
    t.public_trace.values[0] += E4::ONE;
    let v = prove_verify(&prover, &cpd, &t);
    json!({"honest": prove_verify(&prover, &cpd, &honest), "forged_wrong_opened_value": v, "public0_before": format!("{before:?}"), "note": "leaf value v0 + 1 claimed as opened value; Merkle rows untouched"})
}

/// Splice experiment: execution A (matrix M_A, root R_A) and execution B (another random matrix, same shape, same index).
/// The forged trace is A's, except that everything UPSTREAM of the leaf digest (the opened-value public inputs, the ALU /
/// recompose rows that pack them, the sponge rows that hash them) is taken from B.  It claims "R_A opens to B's row".
/// Both executions are honest; the only inconsistency is between the leaf digest the sponge row produces (B's) and the
/// digest the first Merkle row starts from (A's).
pub fn splice(seed: u64, shape: usize) -> Value {
    use p3_circuit::ops::recompose::RecomposeTrace;
    let case = &shapes()[shape];
    let Some((circuit, a)) = crate::mmcs::capture_kb4(case, seed) else { return json!({"error": "no capture A"}) };
    let Some((_c2, b)) = crate::mmcs::capture_kb4(case, seed + 1000) else { return json!({"error": "no capture B"}) };
    let Ok((prover, cpd)) = setup(&circuit) else { return json!({"error": "setup"}) };
    let id = NpoTypeId::poseidon2_perm(Poseidon2Config::KOALA_BEAR_D4_W16);
    let (pa, pb) = (a.non_primitive_trace::<Poseidon2Trace<KB>>(&id).cloned().unwrap(), b.non_primitive_trace::<Poseidon2Trace<KB>>(&id).cloned().unwrap());
    let mut f = a.clone();
    let w: usize = case.dims.iter().map(|d| d.w).sum();
    for i in 0..w.min(f.public_trace.values.len()) {
        f.public_trace.values[i] = b.public_trace.values[i];
    }
    f.alu_trace = b.alu_trace.clone();
    let rid = NpoTypeId::recompose();
    if let Some(rb) = b.non_primitive_trace::<RecomposeTrace<KB>>(&rid).cloned() {
        f.non_primitive_traces.insert(rid, Box::new(rb));
    }
    let mut pf = pa.clone();
    let mut sponge_rows = 0;
    for (r, row) in pb.operations.iter().enumerate() {
        if !row.merkle_path {
            pf.operations[r] = row.clone();
            sponge_rows += 1;
        }
    }
    f.non_primitive_traces.insert(id, Box::new(pf));
    json!({"shape": shape, "dims": case.dims.iter().map(|d| [d.h, d.w]).collect::<Vec<_>>(), "honest_a": prove_verify(&prover, &cpd, &a), "honest_b_under_a_prover_data": prove_verify(&prover, &cpd, &b),
           "spliced": prove_verify(&prover, &cpd, &f), "sponge_rows_taken_from_b": sponge_rows, "opened_values_differ": a.public_trace.values[..w] != b.public_trace.values[..w]})
}

/// Index experiment: the SAME commitment opened at index i (execution A) and at index j (execution B).  The forged trace
/// is B's, except for the public index bits, which are A's: it claims "index i opens to the row at index j".
pub fn splice_index(seed: u64, shape: usize) -> Value {
    let mut ci = shapes()[shape].clone();
    let mut cj = ci.clone();
    ci.index = 5 % ci.dims[0].h;
    cj.index = 2 % cj.dims[0].h;
    let Some((circuit, a)) = crate::mmcs::capture_kb4(&ci, seed) else { return json!({"error": "no capture A"}) };
    let Some((_c2, b)) = crate::mmcs::capture_kb4(&cj, seed) else { return json!({"error": "no capture B"}) };
    let Ok((prover, cpd)) = setup(&circuit) else { return json!({"error": "setup"}) };
    let w: usize = ci.dims.iter().map(|d| d.w).sum();
    let nbits = ci.dims.iter().map(|d| d.h).max().unwrap().trailing_zeros() as usize;
    let same_cap = a.public_trace.values[w + nbits..] == b.public_trace.values[w + nbits..];
    let mut f = b.clone();
    for k in 0..nbits {
        f.public_trace.values[w + k] = a.public_trace.values[w + k];
    }
    json!({"shape": shape, "index_claimed": ci.index, "index_opened": cj.index, "same_commitment": same_cap, "honest_a": prove_verify(&prover, &cpd, &a), "honest_b": prove_verify(&prover, &cpd, &b),
           "forged_index_bits": prove_verify(&prover, &cpd, &f), "bits_differ": a.public_trace.values[w..w + nbits] != b.public_trace.values[w..w + nbits]})
}

pub fn cmd(args: &[String]) -> i32 {
    let arg = |n: &str| args.iter().position(|a| a == n).and_then(|i| args.get(i + 1).cloned());
    let seed: u64 = arg("--seed").and_then(|s| s.parse().ok()).unwrap_or(1);
    let out = arg("--out").expect("--out");
    std::panic::set_hook(Box::new(|_| {}));
    if args.iter().any(|a| a == "--wrong-opening") {
        println!("{}", wrong_opening(seed));
        return 0;
    }
    let sw = sweep(seed);
    let n = shapes().len();
    let sp: Vec<Value> = (0..n).map(|s| splice(seed, s)).collect();
    let si: Vec<Value> = (0..n).map(|s| splice_index(seed, s)).collect();
    // findings (property C04)
    let mut groups: std::collections::BTreeMap<(String, String), (u64, Value)> = std::collections::BTreeMap::new();
    let mut add = |kind: &str, shape: String, ex: Value| {
        let e = groups.entry((kind.to_string(), format!("{kind}@poseidon2-d4-w16+arity2+{shape}"))).or_insert((0, ex));
        e.0 += 1;
    };
    for (cl, ex) in sw["accepted_classes"].as_array().unwrap().iter().zip(sw["accepted"].as_array().unwrap()) {
        add("npo-cell-deviation-accepted", cl.as_str().unwrap_or("").to_string(), ex.clone());
    }
    for v in &sp {
        if v["spliced"] == "accepted" {
            add("opened-row-not-bound-to-commitment", "leaf-digest-enters-first-merkle-row".into(), v.clone());
        }
    }
    for v in &si {
        if v["forged_index_bits"] == "accepted" {
            add("opening-index-not-bound", "direction-bits".into(), v.clone());
        }
    }
    let findings: Vec<Value> = groups.into_iter().map(|((k, s), (n, ex))| json!({"property": "C04", "kind": k, "signature": s, "count": n, "example": ex})).collect();
    let mut errors: Vec<Value> = sw["errors"].as_array().cloned().unwrap_or_default();
    for v in sp.iter().chain(si.iter()) {
        if v.get("error").is_some() || v["honest_a"] != "accepted" {
            errors.push(json!(format!("experiment set-up failed: {v}")));
        }
    }
    let res = json!({"stats": {"cells": sw["cells"], "cells_rejected": sw["rejected"], "cells_accepted_unread_accumulator": sw["accepted_unread_accumulator"],
        "shapes": sw["shapes"], "splice_experiments": sp.len(), "index_experiments": si.len()}, "findings": findings, "splice": sp, "splice_index": si, "errors": errors});
    std::fs::write(out, serde_json::to_string_pretty(&res).unwrap()).unwrap();
    0
}
