//! C06 for the POSEIDON1 base-field challenger (KoalaBear D1 rows in a quintic circuit): the twin of `capchain.rs`, plus the
//! initial capacity of the FIRST permutation of the transcript (row 0 of the table, which only the cyclic wrap-around
//! window of the AIR reaches).  A deviating prover (permutation executor) changes ONE capacity element
//!   between   of the first permutation's OUTPUT (violates the row-to-row capacity chain), or
//!   initial   of the first permutation's INPUT (violates the fresh-capacity constraint of a chain start; the table row is
//!             patched to show the input the executor actually used),
//! computes everything downstream honestly, and claims the resulting challenges.  Real prover, real verifier.
use std::panic::{AssertUnwindSafe, catch_unwind};

use p3_batch_stark::ProverData;
use p3_challenger::{CanObserve, CanSample, DuplexChallenger};
use p3_circuit::CircuitBuilder;
use p3_circuit::ops::poseidon1_perm::KoalaBearD1Width16;
use p3_circuit::ops::{NpoTypeId, Poseidon1Config, Poseidon1Trace, generate_poseidon1_trace};
use p3_circuit_prover::batch_stark_prover::{Poseidon1Preprocessor, poseidon1_air_builders_d5, poseidon1_table_provers_d5};
use p3_circuit_prover::common::{NpoPreprocessor, get_airs_and_degrees_with_prep};
use p3_circuit_prover::config::{self, KoalaBearConfig};
use p3_circuit_prover::{BatchStarkProver, CircuitProverData, ConstraintProfile, TablePacking};
use p3_field::extension::QuinticTrinomialExtensionField;
use p3_field::{BasedVectorSpace, PrimeCharacteristicRing};
use p3_koala_bear::{KoalaBear, Poseidon1KoalaBear, default_koalabear_poseidon1_16};
use p3_recursion::challenger::CircuitChallenger;
use p3_recursion::traits::RecursiveChallenger;
use p3_symmetric::Permutation;

type F = KoalaBear;
type EF5 = QuinticTrinomialExtensionField<F>;
const WIDTH: usize = 16;
const RATE: usize = 8;

fn lift(b: F) -> EF5 {
    EF5::new([b, F::ZERO, F::ZERO, F::ZERO, F::ZERO])
}
fn low(e: &EF5) -> F {
    <EF5 as BasedVectorSpace<F>>::as_basis_coefficients_slice(e)[0]
}
fn block1() -> [F; RATE] {
    core::array::from_fn(|i| F::from_u64(i as u64 + 1))
}
fn block2() -> [F; RATE] {
    core::array::from_fn(|i| F::from_u64(100 + i as u64))
}
fn first_perm_input() -> [F; WIDTH] {
    let mut s = [F::ZERO; WIDTH];
    s[..RATE].copy_from_slice(&block1());
    s[RATE] = F::from_u64(RATE as u64);
    s
}

#[derive(Clone, Copy, PartialEq)]
pub enum Where {
    Between,
    Initial,
}

#[derive(Clone)]
struct ProverPerm {
    inner: Poseidon1KoalaBear<WIDTH>,
    deviate: Option<(Where, usize, F)>,
}
impl Permutation<[EF5; WIDTH]> for ProverPerm {
    fn permute(&self, input: [EF5; WIDTH]) -> [EF5; WIDTH] {
        let mut bases: [F; WIDTH] = core::array::from_fn(|i| low(&input[i]));
        let first = bases == first_perm_input();
        if let Some((Where::Initial, slot, delta)) = self.deviate
            && first
        {
            bases[slot] += delta;
        }
        let mut out = self.inner.permute(bases);
        if let Some((Where::Between, slot, delta)) = self.deviate
            && first
        {
            out[slot] += delta;
        }
        core::array::from_fn(|i| lift(out[i]))
    }
}

fn samples_with_deviation(deviate: Option<(Where, usize, F)>) -> (F, F) {
    let perm = default_koalabear_poseidon1_16();
    let mut s0 = first_perm_input();
    if let Some((Where::Initial, slot, delta)) = deviate {
        s0[slot] += delta;
    }
    let out1 = perm.permute(s0);
    let c1 = out1[RATE - 1];
    let mut s = out1;
    if let Some((Where::Between, slot, delta)) = deviate {
        s[slot] += delta;
    }
    s[..RATE].copy_from_slice(&block2());
    s[RATE] += F::from_u64(RATE as u64);
    let out2 = perm.permute(s);
    (c1, out2[RATE - 1])
}

fn native_samples() -> (F, F) {
    let mut native = DuplexChallenger::<F, _, WIDTH, RATE>::new(default_koalabear_poseidon1_16());
    for v in block1() {
        native.observe(v);
    }
    let c1: F = native.sample();
    for v in block2() {
        native.observe(v);
    }
    let c2: F = native.sample();
    (c1, c2)
}

fn prove_and_verify(deviate: Option<(Where, usize, F)>, claimed: (F, F)) -> Result<(), String> {
    const D: usize = 5;
    let mut builder = CircuitBuilder::<EF5>::new();
    builder.enable_poseidon1_perm_base::<KoalaBearD1Width16, _>(generate_poseidon1_trace::<EF5, KoalaBearD1Width16>, ProverPerm { inner: default_koalabear_poseidon1_16(), deviate });
    let mut cc: CircuitChallenger<WIDTH, RATE, Poseidon1Config> = CircuitChallenger::new_koalabear_poseidon1_base();
    for v in block1() {
        let t = builder.define_const(lift(v));
        RecursiveChallenger::<F, EF5>::observe(&mut cc, &mut builder, t);
    }
    let c1 = RecursiveChallenger::<F, EF5>::sample(&mut cc, &mut builder);
    for v in block2() {
        let t = builder.define_const(lift(v));
        RecursiveChallenger::<F, EF5>::observe(&mut cc, &mut builder, t);
    }
    let c2 = RecursiveChallenger::<F, EF5>::sample(&mut cc, &mut builder);
    let e1 = builder.public_input();
    let e2 = builder.public_input();
    let d1 = builder.sub(c1, e1);
    let d2 = builder.sub(c2, e2);
    builder.assert_zero(d1);
    builder.assert_zero(d2);
    let circuit = builder.build().map_err(|e| format!("build: {e:?}"))?;
    let cfg = config::koala_bear();
    let npo_prep: Vec<Box<dyn NpoPreprocessor<F>>> = vec![Box::new(Poseidon1Preprocessor)];
    let air_builders = poseidon1_air_builders_d5::<KoalaBearConfig>();
    let (airs_degrees, pc, npc) = get_airs_and_degrees_with_prep::<KoalaBearConfig, _, D>(&circuit, &TablePacking::default(), &npo_prep, &air_builders, ConstraintProfile::Standard).map_err(|e| format!("airs: {e:?}"))?;
    let (airs, degrees): (Vec<_>, Vec<usize>) = airs_degrees.into_iter().unzip();
    let mut runner = circuit.runner();
    runner.set_public_inputs(&[lift(claimed.0), lift(claimed.1)]).map_err(|e| format!("public inputs: {e:?}"))?;
    let mut traces = runner.run().map_err(|e| format!("run: {e:?}"))?;
    if let Some((Where::Initial, slot, delta)) = deviate {
        // the row of the first permutation shows the input the executor actually permuted
        let id = NpoTypeId::poseidon1_perm(Poseidon1Config::KOALA_BEAR_D1_W16);
        let mut tr = traces.non_primitive_trace::<Poseidon1Trace<F>>(&id).cloned().ok_or("no Poseidon1 trace")?;
        tr.operations[0].input_values[slot] += delta;
        traces.non_primitive_traces.insert(id, Box::new(tr));
    }
    let cpd = CircuitProverData::new(ProverData::from_airs_and_degrees(&cfg, &airs, &degrees), pc, npc);
    let mut prover = BatchStarkProver::new(cfg);
    for p in poseidon1_table_provers_d5(Poseidon1Config::KOALA_BEAR_D1_W16) {
        prover.register_table_prover(p);
    }
    match catch_unwind(AssertUnwindSafe(|| {
        let proof = prover.prove_all_tables(&traces, &cpd).map_err(|e| format!("prove: {e:?}"))?;
        prover.verify_all_tables::<EF5>(&proof).map_err(|e| format!("verify: {e:?}"))
    })) {
        Ok(r) => r,
        Err(_) => Err("panicked while proving/verifying".to_string()),
    }
}

/// (honest proof verifies, deviating proof accepted, a challenge differs from the native one)
pub fn run_slot(wh: Where, slot: usize) -> (bool, bool, bool, String) {
    let native = native_samples();
    let honest = prove_and_verify(None, native);
    let honest_ok = samples_with_deviation(None) == native && honest.is_ok();
    let dev = Some((wh, slot, F::from_u64(777 + slot as u64)));
    let forged = samples_with_deviation(dev);
    let accepted = prove_and_verify(dev, forged).is_ok();
    (honest_ok, accepted, forged != native, honest.err().unwrap_or_default())
}
pub const SLOTS: core::ops::Range<usize> = RATE..WIDTH;
