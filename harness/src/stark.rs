//! C01 / C14 / C15 — replay of `Stark` cases into the real native STARK verifiers (`p3_uni_stark::verify*`,
//! `p3_batch_stark::verify_batch`, `BatchStarkProver::verify_all_tables`) and the real in-circuit verifiers
//! (`verify_p3_uni_proof_circuit`, `verify_batch_circuit`, `verify_p3_batch_proof_circuit`), using the repository's own
//! allocation + packing code (`StarkVerifierInputsBuilder` / `BatchStarkVerifierInputsBuilder`).
//!
//! One *statement* (proof + public values + verifying data + FRI verifier params) is altered and then handed to BOTH sides.
//!   mode fault     (C01): +1 on one field element / digest word / degree_bits  -> native accept == circuit satisfied ?
//!   mode marker    (C14): every field element replaced by a distinct marker, packed with the repo code; lengths and
//!                          (leaf target -> input position -> packed value) are checked
//!   mode malformed (C15): one list / count altered; the circuit is constructed from the altered shape under catch_unwind
#![allow(clippy::type_complexity)]
use std::collections::BTreeMap;
use std::io::{BufRead, BufReader};
use std::panic::{AssertUnwindSafe, catch_unwind};
use std::sync::Mutex;

use p3_batch_stark::proof::OpenedValuesWithLookups;
use p3_batch_stark::{BatchCommitments, BatchOpenedValues, CommonData};
use p3_circuit::Circuit;
use p3_commit::{BatchOpening, Mmcs};
use p3_field::{ExtensionField, Field};
use p3_fri::FriProof;
use p3_lookup::LookupTerminal;
use p3_recursion::pcs::fri::{FriProofTargets, InputProofTargets, MerkleCapTargets, MmcsProofTargets, Witness};
use p3_recursion::types::{OpenedValuesTargets, OpenedValuesTargetsWithLookups};
use p3_recursion::{RecursiveExtensionMmcs, RecursiveMmcs, Target};
use p3_symmetric::MerkleCap;
use p3_uni_stark::{OpenedValues, StarkGenericConfig};
use serde::{Deserialize, Serialize};
use serde_json::{Value, json};

#[path = "/repo/recursion/tests/common/mod.rs"]
#[allow(dead_code, unused_imports)]
mod common;

#[derive(Clone, Debug, Serialize, Deserialize)]
pub struct Case {
    #[serde(default)]
    pub spec: String,
    pub config: String,
    pub mode: String,
    #[serde(default)]
    pub fault: Value,
    #[serde(default)]
    pub alter: Value,
}

#[derive(Clone, Debug, Default, Serialize)]
pub struct Verdict {
    pub ok: bool,
    pub panicked: bool,
    /// circuit only: Err before `run()` (verify_*_circuit / build / set inputs / MMCS private data)
    pub build_error: bool,
    /// circuit only: which stage produced the error
    pub stage: String,
    pub msg: String,
    /// circuit only: number of ops of the built circuit (0 when not built)
    pub ops: usize,
}

/// Outcome of one case, already in the shape the aggregator needs.
#[derive(Clone, Debug, Default, Serialize)]
pub struct Outcome {
    pub not_applicable: Option<String>,
    pub native: Verdict,
    pub circuit: Verdict,
    pub site: Value,
    /// marker mode: list of problems ({"kind", ...}); malformed mode: honest op count
    pub problems: Vec<Value>,
    pub info: Value,
}

thread_local! {
    static LAST_PANIC_LOC: std::cell::RefCell<String> = const { std::cell::RefCell::new(String::new()) };
}
fn panic_msg(p: Box<dyn std::any::Any + Send>) -> String {
    let loc = LAST_PANIC_LOC.with(|l| l.borrow().clone());
    format!("{} [at {}]", panic_text(p), loc)
}
fn panic_text(p: Box<dyn std::any::Any + Send>) -> String {
    if let Some(s) = p.downcast_ref::<&str>() {
        s.to_string()
    } else if let Some(s) = p.downcast_ref::<String>() {
        s.clone()
    } else {
        "panic (non-string payload)".into()
    }
}
fn short(s: String) -> String {
    s.chars().take(300).collect()
}
fn verdict_of(r: std::thread::Result<Result<usize, (bool, &'static str, String, usize)>>) -> Verdict {
    match r {
        Ok(Ok(ops)) => Verdict { ok: true, ops, ..Default::default() },
        Ok(Err((be, stage, e, ops))) => Verdict { ok: false, build_error: be, stage: stage.into(), msg: short(e), ops, ..Default::default() },
        Err(p) => Verdict { ok: false, panicked: true, stage: "panic".into(), msg: short(panic_msg(p)), ..Default::default() },
    }
}
fn native_of<E: std::fmt::Debug>(r: std::thread::Result<Result<(), E>>) -> Verdict {
    match r {
        Ok(Ok(())) => Verdict { ok: true, ..Default::default() },
        Ok(Err(e)) => Verdict { ok: false, msg: short(format!("{e:?}")), ..Default::default() },
        Err(p) => Verdict { ok: false, panicked: true, msg: short(panic_msg(p)), ..Default::default() },
    }
}
fn dup<T: Serialize + serde::de::DeserializeOwned>(t: &T) -> T {
    serde_json::from_value(serde_json::to_value(t).expect("serialize")).expect("deserialize")
}
fn clone_common<SC: StarkGenericConfig>(c: &CommonData<SC>) -> CommonData<SC>
where
    <SC::Pcs as p3_commit::Pcs<SC::Challenge, SC::Challenger>>::Commitment: Clone,
{
    CommonData {
        preprocessed: c.preprocessed.as_ref().map(|g| p3_batch_stark::common::GlobalPreprocessed {
            commitment: g.commitment.clone(),
            instances: g.instances.clone(),
            matrix_to_instance: g.matrix_to_instance.clone(),
        }),
        lookups: c.lookups.clone(),
    }
}

// ---------------------------------------------------------------------------------------------------------------
// Walks over the field elements of a statement (element side) and over the typed target structures (target side).
// Both walks label every leaf with the same `kind` and visit the leaves of one kind in the same order.
// ---------------------------------------------------------------------------------------------------------------

/// Where the element travels: public input vector, private input vector, or outside both (Merkle siblings: NPO private data).
#[derive(Clone, Copy, PartialEq, Eq, Debug)]
pub enum Loc {
    Pub,
    Priv,
    Aux,
}
pub enum Slot<'a, F, EF> {
    /// base element, packed as `EF::from(x)`
    B(&'a mut F),
    /// extension element, packed as is
    E(&'a mut EF),
    /// extension element, packed as its D base coefficients (one input each)
    C(&'a mut EF),
}
pub type V<'a, F, EF> = dyn for<'s> FnMut(&'static str, Loc, Slot<'s, F, EF>) + 'a;
pub type TV<'a> = dyn FnMut(&'static str, Loc, Target) + 'a;

pub trait PathLike<F, const N: usize> {
    fn parts(&mut self) -> (Option<&mut Vec<Vec<F>>>, &mut Vec<[F; N]>);
}
impl<F, const N: usize> PathLike<F, N> for Vec<[F; N]> {
    fn parts(&mut self) -> (Option<&mut Vec<Vec<F>>>, &mut Vec<[F; N]>) {
        (None, self)
    }
}
impl<F, const N: usize> PathLike<F, N> for (Vec<Vec<F>>, Vec<[F; N]>) {
    fn parts(&mut self) -> (Option<&mut Vec<Vec<F>>>, &mut Vec<[F; N]>) {
        (Some(&mut self.0), &mut self.1)
    }
}

fn v_cap<F: Field, EF, const N: usize>(cap: &mut MerkleCap<F, [F; N]>, kind: &'static str, v: &mut V<F, EF>) {
    let mut roots = cap.roots().to_vec();
    for r in roots.iter_mut() {
        for w in r.iter_mut() {
            v(kind, Loc::Pub, Slot::B(w));
        }
    }
    *cap = MerkleCap::new(roots);
}
fn t_cap<F, const N: usize>(cap: &MerkleCapTargets<F, N>, kind: &'static str, v: &mut TV) {
    for r in &cap.cap_targets {
        for w in r {
            v(kind, Loc::Pub, *w);
        }
    }
}
fn v_path<F: Field, EF, P: PathLike<F, N>, const N: usize>(p: &mut P, v: &mut V<F, EF>) {
    let (salts, path) = p.parts();
    if let Some(s) = salts {
        for x in s.iter_mut().flatten() {
            v("fri_query_salt", Loc::Priv, Slot::B(x));
        }
    }
    for w in path.iter_mut().flatten() {
        v("fri_merkle_sibling_word", Loc::Aux, Slot::B(w));
    }
}
fn t_path<P: MmcsProofTargets>(p: &P, v: &mut TV) {
    for t in p.salt_targets().iter().flatten() {
        v("fri_query_salt", Loc::Priv, *t);
    }
}

pub fn v_fri<F, EF, M, IM, const N: usize>(p: &mut FriProof<EF, M, F, Vec<BatchOpening<F, IM>>>, v: &mut V<F, EF>)
where
    F: Field,
    EF: ExtensionField<F>,
    M: Mmcs<EF, Commitment = MerkleCap<F, [F; N]>>,
    M::Proof: PathLike<F, N>,
    IM: Mmcs<F>,
    IM::Proof: PathLike<F, N>,
{
    for c in p.commit_phase_commits.iter_mut() {
        v_cap(c, "fri_commit_phase_word", v);
    }
    for w in p.commit_pow_witnesses.iter_mut() {
        v("fri_commit_pow_witness", Loc::Pub, Slot::B(w));
    }
    for q in p.query_proofs.iter_mut() {
        for bo in q.input_proof.iter_mut() {
            for x in bo.opened_values.iter_mut().flatten() {
                v("fri_query_opened_value", Loc::Priv, Slot::B(x));
            }
            v_path::<F, EF, _, N>(&mut bo.opening_proof, v);
        }
        for st in q.commit_phase_openings.iter_mut() {
            for x in st.sibling_values.iter_mut() {
                v("fri_query_sibling_value", Loc::Priv, Slot::C(x));
            }
            v_path::<F, EF, _, N>(&mut st.opening_proof, v);
        }
    }
    for x in p.final_poly.iter_mut() {
        v("fri_final_poly_coeff", Loc::Pub, Slot::E(x));
    }
    v("fri_pow_witness", Loc::Pub, Slot::B(&mut p.query_pow_witness));
}

pub fn t_fri<F, EF, R, I, const N: usize>(t: &FriProofTargets<F, EF, R, InputProofTargets<F, EF, I>, Witness<F>>, v: &mut TV)
where
    F: Field,
    EF: ExtensionField<F>,
    R: RecursiveExtensionMmcs<F, EF, Commitment = MerkleCapTargets<F, N>>,
    R::Proof: MmcsProofTargets,
    I: RecursiveMmcs<F, EF>,
    I::Proof: MmcsProofTargets,
{
    for c in &t.commit_phase_commits {
        t_cap(c, "fri_commit_phase_word", v);
    }
    for w in &t.commit_pow_witnesses {
        v("fri_commit_pow_witness", Loc::Pub, w.witness);
    }
    for q in &t.query_proofs {
        for bo in &q.input_proof {
            for x in bo.opened_values.iter().flatten() {
                v("fri_query_opened_value", Loc::Priv, *x);
            }
            t_path(&bo.opening_proof, v);
        }
        for st in &q.commit_phase_openings {
            for x in &st.sibling_coefficients {
                v("fri_query_sibling_value", Loc::Priv, *x);
            }
            t_path(&st.opening_proof, v);
        }
    }
    for x in &t.final_poly {
        v("fri_final_poly_coeff", Loc::Pub, *x);
    }
    v("fri_pow_witness", Loc::Pub, t.pow_witness.witness);
}

pub fn v_ov<F, EF>(o: &mut OpenedValues<EF>, v: &mut V<F, EF>) {
    let mut each = |k: &'static str, xs: &mut Vec<EF>| {
        for x in xs.iter_mut() {
            v(k, Loc::Priv, Slot::E(x));
        }
    };
    each("trace_local_opening", &mut o.trace_local);
    if let Some(x) = o.trace_next.as_mut() {
        each("trace_next_opening", x);
    }
    if let Some(x) = o.preprocessed_local.as_mut() {
        each("preprocessed_local_opening", x);
    }
    if let Some(x) = o.preprocessed_next.as_mut() {
        each("preprocessed_next_opening", x);
    }
    for c in o.quotient_chunks.iter_mut() {
        each("quotient_chunk_opening", c);
    }
    if let Some(x) = o.random.as_mut() {
        each("random_opening", x);
    }
}
pub fn t_ov<SC: StarkGenericConfig>(o: &OpenedValuesTargets<SC>, v: &mut TV) {
    let mut each = |k: &'static str, xs: &[Target]| {
        for x in xs {
            v(k, Loc::Priv, *x);
        }
    };
    each("trace_local_opening", &o.trace_local_targets);
    each("trace_next_opening", &o.trace_next_targets);
    if let Some(x) = &o.preprocessed_local_targets {
        each("preprocessed_local_opening", x);
    }
    if let Some(x) = &o.preprocessed_next_targets {
        each("preprocessed_next_opening", x);
    }
    for c in &o.quotient_chunks_targets {
        each("quotient_chunk_opening", c);
    }
    if let Some(x) = &o.random_targets {
        each("random_opening", x);
    }
}

/// Batch proof without its PCS opening proof.
pub fn v_batch<F: Field, EF, const N: usize>(
    c: &mut BatchCommitments<MerkleCap<F, [F; N]>>,
    o: &mut BatchOpenedValues<EF>,
    terminals: &mut [Option<LookupTerminal<EF>>],
    v: &mut V<F, EF>,
) {
    v_cap(&mut c.main, "trace_commitment_word", v);
    if let Some(p) = c.permutation.as_mut() {
        v_cap(p, "permutation_commitment_word", v);
    }
    v_cap(&mut c.quotient_chunks, "quotient_commitment_word", v);
    if let Some(r) = c.random.as_mut() {
        v_cap(r, "random_commitment_word", v);
    }
    for inst in o.instances.iter_mut() {
        let OpenedValuesWithLookups { base_opened_values, permutation_local, permutation_next } = inst;
        v_ov(base_opened_values, v);
        for x in permutation_local.iter_mut() {
            v("permutation_local_opening", Loc::Priv, Slot::E(x));
        }
        for x in permutation_next.iter_mut() {
            v("permutation_next_opening", Loc::Priv, Slot::E(x));
        }
    }
    for t in terminals.iter_mut().flatten() {
        v("lookup_terminal", Loc::Pub, Slot::E(&mut t.0));
    }
}
/// Target side of `v_batch`: the per-instance structure is crate-private, the public `flattened_opened_values_targets`
/// aggregates every kind in instance order — which is the order of the element walk within one kind.
pub fn t_batch_ov<SC: StarkGenericConfig>(o: &OpenedValuesTargetsWithLookups<SC>, v: &mut TV) {
    t_ov(&o.opened_values_no_lookups, v);
    for x in &o.permutation_local_targets {
        v("permutation_local_opening", Loc::Priv, *x);
    }
    for x in &o.permutation_next_targets {
        v("permutation_next_opening", Loc::Priv, *x);
    }
}

/// Does the case-level element name select this leaf kind?
fn kind_matches(element: &str, kind: &str) -> bool {
    match element {
        "preprocessed_opening" => kind == "preprocessed_local_opening" || kind == "preprocessed_next_opening",
        "permutation_opening" => kind == "permutation_local_opening" || kind == "permutation_next_opening",
        "lookup_cumulative_sum" | "global_lookup_data" => kind == "lookup_terminal",
        e => e == kind,
    }
}
pub const ELEMENTS: &[&str] = &[
    "trace_local_opening", "trace_next_opening", "preprocessed_opening", "quotient_chunk_opening", "random_opening", "permutation_opening",
    "trace_commitment_word", "quotient_commitment_word", "permutation_commitment_word", "random_commitment_word", "public_value", "degree_bits",
    "fri_final_poly_coeff", "fri_commit_phase_word", "fri_query_opened_value", "fri_query_sibling_value", "fri_merkle_sibling_word",
    "fri_pow_witness", "fri_commit_pow_witness", "fri_query_salt", "fri_random_opened_value", "lookup_cumulative_sum", "common_preprocessed_commitment_word",
];
pub const MALFORMED_TARGETS: &[&str] = &[
    "opened_values.trace_local", "opened_values.trace_next", "opened_values.preprocessed_local", "opened_values.preprocessed_next",
    "opened_values.quotient_chunks", "opened_values.quotient_chunks[0]", "opened_values.random", "opened_values.permutation_local",
    "fri.commit_phase_commits", "fri.commit_pow_witnesses", "fri.query_proofs", "fri.query_proofs[0].commit_phase_openings",
    "fri.query_proofs[0].input_proof", "fri.query_proofs[0].input_proof[0].opened_values", "fri.query_proofs[0].input_proof[0].opened_values[0]",
    "fri.query_proofs[0].input_proof[0].opening_proof", "fri.query_proofs[0].commit_phase_openings[0].sibling_values",
    "fri.query_proofs[0].commit_phase_openings[0].opening_proof", "fri.query_proofs[0].commit_phase_openings[0].log_arity", "fri.final_poly",
    "public_values", "degree_bits", "instances", "lookup_terminals", "commitments.permutation", "common.lookups", "common.preprocessed.instances",
    "random_opened.rounds", "random_opened[0]", "random_opened[0][0]", "random_opened[last][0]", "random_opened[0][0][0]",
    "params.log_blowup", "params.num_queries", "params.log_final_poly_len", "params.commit_pow_bits", "params.query_pow_bits",
];
pub const OPS: &[&str] = &["shorten", "lengthen", "empty", "inc", "dec", "toggle", "zero", "huge", "huger"];

fn pick(n: usize, pos: &Value) -> usize {
    match pos {
        Value::String(s) if s == "first" => 0,
        Value::String(s) if s == "middle" => n / 2,
        Value::String(s) if s == "last" => n - 1,
        Value::String(s) => s.parse::<usize>().unwrap_or(0) % n,
        v => (v.as_u64().unwrap_or(0) as usize) % n,
    }
}

/// Alter a list. `Err` = the alteration does not apply.
fn alter_vec<T: Clone>(v: &mut Vec<T>, op: &str) -> Result<Value, String> {
    alter_vec_by(v, op, |x| x.clone())
}
fn alter_vec_by<T>(v: &mut Vec<T>, op: &str, mk: impl Fn(&T) -> T) -> Result<Value, String> {
    let before = v.len();
    match op {
        "shorten" if before > 0 => {
            v.pop();
        }
        "lengthen" if before > 0 => {
            let x = mk(&v[before - 1]);
            v.push(x)
        }
        "empty" if before > 0 => v.clear(),
        "shorten" | "lengthen" | "empty" => return Err("list is empty in this proof shape".into()),
        _ => return Err(format!("op {op} does not apply to a list")),
    }
    Ok(json!({"len_before": before, "len_after": v.len()}))
}
fn alter_count(c: &mut usize, op: &str) -> Result<Value, String> {
    let before = *c;
    match op {
        "inc" => *c += 1,
        "dec" if before > 0 => *c -= 1,
        "dec" => return Err("count is already 0".into()),
        // out-of-range values of a parameter / count: the smallest and absurdly large ones
        "zero" if before > 0 => *c = 0,
        "zero" => return Err("count is already 0".into()),
        "huge" => *c = 63,
        "huger" => *c = usize::MAX / 2,
        _ => return Err(format!("op {op} does not apply to a count")),
    }
    Ok(json!({"before": before, "after": *c}))
}
fn alter_opt_vec<T: Clone>(v: &mut Option<Vec<T>>, op: &str) -> Result<Value, String> {
    alter_opt_vec_like(v, op, None)
}
/// `toggle`: an optional part is removed when present and added (as a copy of `like`) when absent.
fn alter_opt_vec_like<T: Clone>(v: &mut Option<Vec<T>>, op: &str, like: Option<&Vec<T>>) -> Result<Value, String> {
    if op == "toggle" {
        return match (v.is_some(), like) {
            (true, _) => {
                *v = None;
                Ok(json!({"optional": "removed"}))
            }
            (false, Some(l)) => {
                *v = Some(l.clone());
                Ok(json!({"optional": "added"}))
            }
            (false, None) => Err("nothing to model the added part on".into()),
        };
    }
    match v.as_mut() {
        Some(x) => alter_vec(x, op),
        None => Err("optional list is absent in this proof shape".into()),
    }
}
fn alter_ov<EF: Clone>(o: &mut OpenedValues<EF>, field: &str, op: &str) -> Option<Result<Value, String>> {
    Some(match field {
        "trace_local" => alter_vec(&mut o.trace_local, op),
        "trace_next" => {
            let like = o.trace_local.clone();
            alter_opt_vec_like(&mut o.trace_next, op, Some(&like))
        }
        "preprocessed_local" => {
            let like = o.trace_local.clone();
            alter_opt_vec_like(&mut o.preprocessed_local, op, Some(&like))
        }
        "preprocessed_next" => {
            let like = o.trace_local.clone();
            alter_opt_vec_like(&mut o.preprocessed_next, op, Some(&like))
        }
        "quotient_chunks" => alter_vec(&mut o.quotient_chunks, op),
        "quotient_chunks[0]" => match o.quotient_chunks.first_mut() {
            Some(c) => alter_vec(c, op),
            None => Err("no quotient chunk".into()),
        },
        "random" => {
            let like = o.quotient_chunks.first().cloned();
            alter_opt_vec_like(&mut o.random, op, like.as_ref())
        }
        _ => return None,
    })
}
/// `None` = the target does not name a part of the FRI proof.
pub fn alter_fri<F, EF, M, IM, const N: usize>(p: &mut FriProof<EF, M, F, Vec<BatchOpening<F, IM>>>, target: &str, op: &str) -> Option<Result<Value, String>>
where
    F: Field,
    EF: ExtensionField<F>,
    M: Mmcs<EF, Commitment = MerkleCap<F, [F; N]>>,
    M::Proof: PathLike<F, N>,
    IM: Mmcs<F>,
    IM::Proof: PathLike<F, N>,
{
    let t = target.strip_prefix("fri.")?;
    let noq = || Err("no query proof".to_string());
    Some(match t {
        "commit_phase_commits" => alter_vec(&mut p.commit_phase_commits, op),
        "commit_pow_witnesses" => alter_vec(&mut p.commit_pow_witnesses, op),
        "query_proofs" => alter_vec(&mut p.query_proofs, op),
        "final_poly" => alter_vec(&mut p.final_poly, op),
        _ => {
            let Some(q) = p.query_proofs.first_mut() else { return Some(noq()) };
            match t {
                "query_proofs[0].commit_phase_openings" => alter_vec(&mut q.commit_phase_openings, op),
                "query_proofs[0].input_proof" => alter_vec(&mut q.input_proof, op),
                _ => {
                    if let Some(r) = t.strip_prefix("query_proofs[0].input_proof[0].") {
                        let Some(bo) = q.input_proof.first_mut() else { return Some(Err("no input batch opening".into())) };
                        match r {
                            "opened_values" => alter_vec(&mut bo.opened_values, op),
                            "opened_values[0]" => match bo.opened_values.first_mut() {
                                Some(x) => alter_vec(x, op),
                                None => Err("no opened row".into()),
                            },
                            "opening_proof" => alter_vec(bo.opening_proof.parts().1, op),
                            _ => return None,
                        }
                    } else if let Some(r) = t.strip_prefix("query_proofs[0].commit_phase_openings[0].") {
                        let Some(st) = q.commit_phase_openings.first_mut() else { return Some(Err("no commit-phase opening".into())) };
                        match r {
                            "sibling_values" => alter_vec(&mut st.sibling_values, op),
                            "opening_proof" => alter_vec(st.opening_proof.parts().1, op),
                            "log_arity" => {
                                let mut c = st.log_arity as usize;
                                let r = alter_count(&mut c, op);
                                st.log_arity = c as u8;
                                r
                            }
                            _ => return None,
                        }
                    } else {
                        return None;
                    }
                }
            }
        }
    })
}

// ---------------------------------------------------------------------------------------------------------------
// Marker bookkeeping (C14)
// ---------------------------------------------------------------------------------------------------------------

/// kind -> expected packed values in walk order
pub type Expected<EF> = BTreeMap<&'static str, Vec<(Loc, EF)>>;
pub type Targets = BTreeMap<&'static str, Vec<(Loc, Target)>>;

/// Replace every slot by a distinct marker; returns the packed value expected for every leaf.
pub fn marker_visitor<F: Field, EF: ExtensionField<F>>(exp: &mut Expected<EF>) -> impl for<'s> FnMut(&'static str, Loc, Slot<'s, F, EF>) + '_ {
    let mut m: u32 = 1000;
    move |kind, loc, slot| {
        let d = <EF as p3_field::BasedVectorSpace<F>>::DIMENSION as u32;
        let e = exp.entry(kind).or_default();
        match slot {
            Slot::B(x) => {
                *x = F::from_u32(m);
                e.push((loc, EF::from(*x)));
                m += 1;
            }
            Slot::E(x) => {
                // second coefficient 7: never equal to an embedded base marker
                *x = <EF as p3_field::BasedVectorSpace<F>>::from_basis_coefficients_fn(|j| if j == 0 { F::from_u32(m) } else if j == 1 { F::from_u32(7) } else { F::ZERO });
                e.push((loc, *x));
                m += 1;
            }
            Slot::C(x) => {
                *x = <EF as p3_field::BasedVectorSpace<F>>::from_basis_coefficients_fn(|j| F::from_u32(m + j as u32));
                for j in 0..d {
                    e.push((loc, EF::from(F::from_u32(m + j))));
                }
                m += d;
            }
        }
    }
}

/// The C14 check proper. `weak`: kinds whose targets are crate-private (reason) — only "appears exactly once" is checked.
pub fn check_marker<EF: Field>(circuit: &Circuit<EF>, pubs: &[EF], privs: &[EF], exp: &Expected<EF>, tg: &Targets, weak: &[(&'static str, &'static str)]) -> (Vec<Value>, Value) {
    let mut problems = Vec::new();
    // self-test of the check only: P3R_STARK_SELFTEST=marker-swap exchanges two packed public values
    let mut swapped = pubs.to_vec();
    if std::env::var("P3R_STARK_SELFTEST").map(|v| v == "marker-swap").unwrap_or(false) && swapped.len() > 10 {
        swapped.swap(9, 10);
    }
    let pubs = &swapped[..];
    if pubs.len() != circuit.public_flat_len || privs.len() != circuit.private_flat_len {
        problems.push(json!({"kind": "packed-length-mismatch", "public": pubs.len(), "public_expected": circuit.public_flat_len,
            "private": privs.len(), "private_expected": circuit.private_flat_len}));
    }
    // witness id -> input positions
    let mut pub_pos: BTreeMap<u32, Vec<usize>> = BTreeMap::new();
    for (i, w) in circuit.public_rows.iter().enumerate() {
        pub_pos.entry(w.0).or_default().push(i);
    }
    let mut priv_pos: BTreeMap<u32, Vec<usize>> = BTreeMap::new();
    for (i, w) in circuit.private_input_rows.iter().enumerate() {
        priv_pos.entry(w.0).or_default().push(i);
    }
    let (mut checked, mut aliased, mut weak_checked) = (0usize, 0usize, 0usize);
    let mut used_pub = vec![false; pubs.len()];
    let mut used_priv = vec![false; privs.len()];
    for (kind, es) in exp {
        let es: Vec<&(Loc, EF)> = es.iter().filter(|e| e.0 != Loc::Aux).collect();
        if es.is_empty() {
            continue;
        }
        if let Some((_, why)) = weak.iter().find(|w| w.0 == *kind) {
            for (loc, val) in es {
                let hay = if *loc == Loc::Pub { pubs } else { privs };
                let n = hay.iter().filter(|x| *x == val).count();
                weak_checked += 1;
                if n != 1 {
                    problems.push(json!({"kind": "packed-value-on-wrong-input", "element": kind, "weak_check": why, "occurrences": n}));
                }
            }
            continue;
        }
        let ts = tg.get(kind).cloned().unwrap_or_default();
        if ts.len() != es.len() {
            problems.push(json!({"kind": "target-walk-mismatch", "element": kind, "elements": es.len(), "targets": ts.len()}));
            continue;
        }
        for (i, ((loc, val), (tloc, t))) in es.iter().zip(ts.iter()).enumerate() {
            checked += 1;
            let Some(w) = circuit.expr_to_widx.get(t) else {
                problems.push(json!({"kind": "input-target-without-witness", "element": kind, "index": i}));
                continue;
            };
            let (pos, hay, used) = if *tloc == Loc::Pub { (pub_pos.get(&w.0), pubs, &mut used_pub) } else { (priv_pos.get(&w.0), privs, &mut used_priv) };
            let pos = pos.cloned().unwrap_or_default();
            if pos.len() > 1 {
                aliased += 1;
            }
            let hit = pos.iter().find(|p| hay.get(**p) == Some(val));
            match hit {
                Some(p) => used[*p] = true,
                None => problems.push(json!({"kind": "packed-value-on-wrong-input", "element": kind, "index": i, "loc": format!("{loc:?}"), "target_loc": format!("{tloc:?}"),
                    "positions_of_target": pos, "found_at": hay.iter().position(|x| x == val)})),
            }
        }
    }
    // the order in which the REAL packing code lays out element kinds (run-length encoded), for Trace_Packing.tla
    let kind_of = |v: &EF, loc: Loc| -> &'static str {
        for (kind, es) in exp {
            if es.iter().any(|(l, x)| *l == loc && x == v) {
                return kind;
            }
        }
        "unknown"
    };
    let rle = |vals: &[EF], loc: Loc| -> Vec<Value> {
        let mut out: Vec<(&'static str, usize)> = Vec::new();
        for v in vals {
            let k = kind_of(v, loc);
            match out.last_mut() {
                Some((lk, n)) if *lk == k => *n += 1,
                _ => out.push((k, 1)),
            }
        }
        out.into_iter().map(|(k, n)| json!([k, n])).collect()
    };
    let (pub_kinds, priv_kinds) = (rle(pubs, Loc::Pub), rle(privs, Loc::Priv));
    // C18: digest of the verification circuit itself (op list with witness numbering, input rows)
    let ops_digest = {
        let mut h: u64 = 0xcbf29ce484222325;
        let mut eat = |t: &str| {
            for b in t.bytes() {
                h ^= b as u64;
                h = h.wrapping_mul(0x100000001b3);
            }
        };
        for op in &circuit.ops {
            match op {
                p3_circuit::Op::Const { out, val } => eat(&format!("C {} {val:?};", out.0)),
                p3_circuit::Op::Public { out, public_pos } => eat(&format!("P {} {public_pos};", out.0)),
                p3_circuit::Op::Alu { kind, a, b, c, out, intermediate_out } => eat(&format!("A {kind:?} {} {} {:?} {} {:?};", a.0, b.0, c.map(|x| x.0), out.0, intermediate_out.map(|x| x.0))),
                p3_circuit::Op::Hint { inputs, outputs, .. } => eat(&format!("H {:?} {:?};", inputs.iter().map(|x| x.0).collect::<Vec<_>>(), outputs.iter().map(|x| x.0).collect::<Vec<_>>())),
                p3_circuit::Op::NonPrimitiveOpWithExecutor { inputs, outputs, executor, op_id } => eat(&format!("N {} {:?} {:?} {:?};", executor.op_type().as_str(), op_id,
                    inputs.iter().map(|v| v.iter().map(|x| x.0).collect::<Vec<_>>()).collect::<Vec<_>>(), outputs.iter().map(|v| v.iter().map(|x| x.0).collect::<Vec<_>>()).collect::<Vec<_>>())),
            }
        }
        eat(&format!("{:?}|{:?}", circuit.public_rows.iter().map(|w| w.0).collect::<Vec<_>>(), circuit.private_input_rows.iter().map(|w| w.0).collect::<Vec<_>>()));
        h
    };
    let info = json!({"ops_digest": format!("{ops_digest:016x}"), "ops": circuit.ops.len(), "leaves_checked": checked, "weak_checked": weak_checked, "targets_sharing_a_witness": aliased,
        "public_kinds": pub_kinds, "private_kinds": priv_kinds,
        "public_len": pubs.len(), "private_len": privs.len(),
        "public_positions_not_reached_by_a_walked_target": used_pub.iter().filter(|u| !**u).count(),
        "private_positions_not_reached_by_a_walked_target": used_priv.iter().filter(|u| !**u).count()});
    (problems, info)
}

// ---------------------------------------------------------------------------------------------------------------
// Family: what a configuration has to provide; the three modes are generic over it.
// ---------------------------------------------------------------------------------------------------------------

pub trait Family {
    type F: Field;
    type EF: ExtensionField<Self::F>;
    type St;
    fn honest(&self) -> &Self::St;
    fn dup(&self, st: &Self::St) -> Self::St;
    fn native(&self, st: &Self::St) -> Verdict;
    /// Build the verification circuit for the shape of `st`, pack the values of `st`, run. With `marker`: no run, C14 check instead.
    fn circuit(&self, st: &Self::St, marker: Option<&Expected<Self::EF>>) -> (Verdict, Vec<Value>, Value);
    fn visit(&self, st: &mut Self::St, v: &mut V<Self::F, Self::EF>);
    fn degree_bits<'a>(&self, st: &'a mut Self::St) -> Vec<&'a mut usize>;
    fn alter(&self, st: &mut Self::St, target: &str, op: &str) -> Result<Value, String>;
    /// op count of the circuit built for the honest shape (cached)
    fn honest_ops(&self) -> usize;
}

pub trait Driver {
    fn run(&self, case: &Case) -> Outcome;
    /// number of leaves an element name selects (for dense case generation)
    fn count(&self, element: &str) -> usize;
}

impl<T: Family> Driver for T {
    fn count(&self, element: &str) -> usize {
        let mut st = self.dup(self.honest());
        if element == "degree_bits" {
            return self.degree_bits(&mut st).len();
        }
        let mut n = 0usize;
        self.visit(&mut st, &mut |k, _, _| {
            if kind_matches(element, k) {
                n += 1;
            }
        });
        n
    }
    fn run(&self, case: &Case) -> Outcome {
        let mut out = Outcome::default();
        match case.mode.as_str() {
            "fault" => {
                let element = case.fault.get("element").and_then(|v| v.as_str()).unwrap_or("none").to_string();
                let pos = case.fault.get("pos").cloned().unwrap_or(json!("first"));
                let mut st = self.dup(self.honest());
                if element == "degree_bits" {
                    let mut dbs = self.degree_bits(&mut st);
                    let i = pick(dbs.len(), &pos);
                    *dbs[i] += 1;
                    out.site = json!({"element": element, "index": i, "of": dbs.len()});
                } else if element != "none" {
                    let mut n = 0usize;
                    self.visit(&mut st, &mut |k, _, _| {
                        if kind_matches(&element, k) {
                            n += 1;
                        }
                    });
                    if n == 0 {
                        out.not_applicable = Some(format!("no {element} in this configuration"));
                        return out;
                    }
                    let idx = pick(n, &pos);
                    let mut i = 0usize;
                    let mut site = Value::Null;
                    self.visit(&mut st, &mut |k, loc, slot| {
                        if kind_matches(&element, k) {
                            if i == idx {
                                match slot {
                                    Slot::B(x) => *x += <T::F as p3_field::PrimeCharacteristicRing>::ONE,
                                    Slot::E(x) | Slot::C(x) => *x += <T::EF as p3_field::PrimeCharacteristicRing>::ONE,
                                }
                                site = json!({"element": element, "kind": k, "index": idx, "of": n, "travels": format!("{loc:?}")});
                            }
                            i += 1;
                        }
                    });
                    out.site = site;
                }
                out.native = self.native(&st);
                // self-test of the comparison only: the circuit gets the unaltered statement
                let selftest = std::env::var("P3R_STARK_SELFTEST").map(|v| v == "circuit-gets-honest").unwrap_or(false);
                out.circuit = self.circuit(if selftest { self.honest() } else { &st }, None).0;
            }
            "marker" => {
                let mut st = self.dup(self.honest());
                let mut exp: Expected<T::EF> = BTreeMap::new();
                {
                    let mut mv = marker_visitor::<T::F, T::EF>(&mut exp);
                    self.visit(&mut st, &mut mv);
                }
                let (v, problems, info) = self.circuit(&st, Some(&exp));
                out.circuit = v;
                out.problems = problems;
                out.info = info;
            }
            "malformed" => {
                let target = case.alter.get("target").and_then(|v| v.as_str()).unwrap_or("");
                let op = case.alter.get("op").and_then(|v| v.as_str()).unwrap_or("");
                let mut st = self.dup(self.honest());
                let altered = catch_unwind(AssertUnwindSafe(|| self.alter(&mut st, target, op)));
                match altered {
                    Ok(Ok(site)) => out.site = site,
                    Ok(Err(why)) => {
                        out.not_applicable = Some(why);
                        return out;
                    }
                    Err(p) => {
                        out.not_applicable = Some(format!("driver: alteration panicked: {}", short(panic_msg(p))));
                        return out;
                    }
                }
                out.circuit = self.circuit(&st, None).0;
                out.native = self.native(&st);
                out.info = json!({"honest_ops": self.honest_ops()});
            }
            other => out.not_applicable = Some(format!("driver: unknown mode {other}")),
        }
        out
    }
}

fn alter_params(p: &mut p3_recursion::FriVerifierParams, target: &str, op: &str) -> Option<Result<Value, String>> {
    Some(match target {
        "params.log_blowup" => alter_count(&mut p.log_blowup, op),
        "params.log_final_poly_len" => alter_count(&mut p.log_final_poly_len, op),
        "params.commit_pow_bits" => alter_count(&mut p.commit_pow_bits, op),
        "params.query_pow_bits" => alter_count(&mut p.query_pow_bits, op),
        "params.num_queries" => Err("FriVerifierParams has no num_queries: the in-circuit query count is the length of proof.query_proofs (see fri.query_proofs)".into()),
        _ => return None,
    })
}

// ---------------------------------------------------------------------------------------------------------------
// uni-STARK family. The invoking module provides: `use ..._params::*`, `type AirT`, `const P2`, `fn enable(&mut CircuitBuilder)`,
// `fn make_config() -> MyConfig`, `fn make_air_trace() -> (AirT, RowMajorMatrix<F>, Vec<F>)`, `fn fri_params() -> FriVerifierParams`.
// ---------------------------------------------------------------------------------------------------------------
macro_rules! uni_body {
    () => {
        use std::cell::OnceCell;

        use p3_circuit::CircuitBuilder;
        use p3_matrix::Matrix;
        use p3_recursion::pcs::fri::{InputProofTargets, MerkleCapTargets, RecValMmcs};
        use p3_recursion::pcs::set_fri_mmcs_private_data;
        use p3_recursion::public_inputs::StarkVerifierInputsBuilder;
        use p3_recursion::{FriVerifierParams, verify_p3_uni_proof_circuit};
        use p3_uni_stark::{PreprocessedVerifierKey, Proof, prove_with_preprocessed, setup_preprocessed, verify_with_preprocessed};

        use super::*;

        type InnerFri = common::InnerFriGeneric<MyConfig, MyHash, MyCompress, DIGEST_ELEMS>;
        type CapT = MerkleCapTargets<F, DIGEST_ELEMS>;
        type InP = InputProofTargets<F, Challenge, RecValMmcs<F, DIGEST_ELEMS, MyHash, MyCompress>>;

        pub struct St {
            proof: Proof<MyConfig>,
            pis: Vec<F>,
            vk: Option<PreprocessedVerifierKey<MyConfig>>,
            params: FriVerifierParams,
        }
        pub struct Ctx {
            config: MyConfig,
            air: AirT,
            honest: St,
            ops: OnceCell<usize>,
        }
        pub fn new() -> Box<dyn Driver> {
            let config = make_config();
            let (air, trace, pis) = make_air_trace();
            let (pd, vk) = setup_preprocessed(&config, &air, p3_util::log2_ceil_usize(trace.height())).unzip();
            let proof = prove_with_preprocessed(&config, &air, trace, &pis, pd.as_ref());
            Box::new(Ctx { config, air, honest: St { proof, pis, vk, params: fri_params() }, ops: OnceCell::new() })
        }
        impl Family for Ctx {
            type F = F;
            type EF = Challenge;
            type St = St;
            fn honest(&self) -> &St {
                &self.honest
            }
            fn honest_ops(&self) -> usize {
                *self.ops.get_or_init(|| self.circuit(&self.honest, None).0.ops)
            }
            fn dup(&self, st: &St) -> St {
                St { proof: dup(&st.proof), pis: st.pis.clone(), vk: st.vk.clone(), params: st.params }
            }
            fn native(&self, st: &St) -> Verdict {
                native_of(catch_unwind(AssertUnwindSafe(|| verify_with_preprocessed(&self.config, &self.air, &st.proof, &st.pis, st.vk.as_ref()))))
            }
            fn circuit(&self, st: &St, marker: Option<&Expected<Challenge>>) -> (Verdict, Vec<Value>, Value) {
                let mut problems = Vec::new();
                let mut info = Value::Null;
                let r = catch_unwind(AssertUnwindSafe(|| -> Result<usize, (bool, &'static str, String, usize)> {
                    let mut b = CircuitBuilder::<Challenge>::new();
                    enable(&mut b);
                    let vi = StarkVerifierInputsBuilder::<MyConfig, CapT, InnerFri>::allocate(&mut b, &st.proof, st.vk.as_ref().map(|v| &v.commitment), st.pis.len());
                    let op_ids = verify_p3_uni_proof_circuit::<AirT, MyConfig, CapT, InP, InnerFri, _, WIDTH, RATE>(
                        &self.config, &self.air, &mut b, &vi.proof_targets, &vi.air_public_targets, &vi.preprocessed_commit, &st.params, P2,
                    )
                    .map_err(|e| (true, "verify_circuit", format!("{e:?}"), 0))?;
                    let circuit = b.build().map_err(|e| (true, "build", format!("{e:?}"), 0))?;
                    let ops = circuit.ops.len();
                    let (pubs, privs) = vi.pack_values(&st.pis, &st.proof, &st.vk.as_ref().map(|v| v.commitment.clone()));
                    if let Some(exp) = marker {
                        let mut tg = Targets::new();
                        {
                            let tv: &mut TV = &mut |k, l, t| tg.entry(k).or_default().push((l, t));
                            for t in &vi.air_public_targets {
                                tv("public_value", Loc::Pub, *t);
                            }
                            let ct = &vi.proof_targets.commitments_targets;
                            t_cap(&ct.trace_targets, "trace_commitment_word", tv);
                            t_cap(&ct.quotient_chunks_targets, "quotient_commitment_word", tv);
                            if let Some(r) = &ct.random_commit {
                                t_cap(r, "random_commitment_word", tv);
                            }
                            t_ov(&vi.proof_targets.opened_values_targets, tv);
                            t_fri(&vi.proof_targets.opening_proof, tv);
                            if let Some(c) = &vi.preprocessed_commit {
                                t_cap(c, "common_preprocessed_commitment_word", tv);
                            }
                        }
                        let (p, i) = check_marker(&circuit, &pubs, &privs, exp, &tg, &[]);
                        problems = p;
                        info = i;
                        return Ok(ops);
                    }
                    let mut r = circuit.runner();
                    r.set_public_inputs(&pubs).map_err(|e| (true, "set_public_inputs", format!("{e:?}"), ops))?;
                    r.set_private_inputs(&privs).map_err(|e| (true, "set_private_inputs", format!("{e:?}"), ops))?;
                    set_fri_mmcs_private_data::<F, Challenge, ChallengeMmcs, MyMmcs, MyHash, MyCompress, DIGEST_ELEMS>(&mut r, &op_ids, &st.proof.opening_proof, P2)
                        .map_err(|e| (true, "mmcs_private_data", e.to_string(), ops))?;
                    r.run().map(|_| ops).map_err(|e| (false, "run", format!("{e:?}"), ops))
                }));
                (verdict_of(r), problems, info)
            }
            fn visit(&self, st: &mut St, v: &mut V<F, Challenge>) {
                for x in st.pis.iter_mut() {
                    v("public_value", Loc::Pub, Slot::B(x));
                }
                v_cap(&mut st.proof.commitments.trace, "trace_commitment_word", v);
                v_cap(&mut st.proof.commitments.quotient_chunks, "quotient_commitment_word", v);
                if let Some(r) = st.proof.commitments.random.as_mut() {
                    v_cap(r, "random_commitment_word", v);
                }
                v_ov(&mut st.proof.opened_values, v);
                v_fri(&mut st.proof.opening_proof, v);
                if let Some(vk) = st.vk.as_mut() {
                    v_cap(&mut vk.commitment, "common_preprocessed_commitment_word", v);
                }
            }
            fn degree_bits<'a>(&self, st: &'a mut St) -> Vec<&'a mut usize> {
                vec![&mut st.proof.degree_bits]
            }
            fn alter(&self, st: &mut St, target: &str, op: &str) -> Result<Value, String> {
                if let Some(r) = alter_fri(&mut st.proof.opening_proof, target, op) {
                    return r;
                }
                if let Some(r) = alter_params(&mut st.params, target, op) {
                    return r;
                }
                if let Some(f) = target.strip_prefix("opened_values.") {
                    return alter_ov(&mut st.proof.opened_values, f, op).unwrap_or_else(|| Err(format!("no {target} in a uni-STARK proof")));
                }
                match target {
                    "public_values" if op == "lengthen" => {
                        st.pis.push(F::ZERO);
                        Ok(json!({"len_after": st.pis.len()}))
                    }
                    "public_values" => alter_vec(&mut st.pis, op),
                    "degree_bits" => alter_count(&mut st.proof.degree_bits, op),
                    _ => Err(format!("no {target} in a uni-STARK statement")),
                }
            }
        }
    };
}

macro_rules! std_glue {
    ($p2air:ident, $p2c:ident, $permfn:ident) => {
        const P2: p3_recursion::Poseidon2Config = p3_recursion::Poseidon2Config::$p2c;
        fn enable(b: &mut p3_circuit::CircuitBuilder<Challenge>) {
            b.enable_poseidon2_perm::<p3_poseidon2_circuit_air::$p2air, _>(
                p3_circuit::ops::generate_poseidon2_trace::<Challenge, p3_poseidon2_circuit_air::$p2air>,
                $permfn(),
            );
            b.enable_recompose::<F>(p3_circuit::ops::generate_recompose_trace::<F, Challenge>);
        }
        fn make_config() -> MyConfig {
            make_test_config()
        }
        fn fri_params() -> p3_recursion::FriVerifierParams {
            let s = test_fri_scalars();
            p3_recursion::FriVerifierParams::with_mmcs(s.log_blowup, s.log_final_poly_len, s.commit_pow_bits, s.query_pow_bits, P2)
        }
    };
    // the same with a Merkle cap of height `$cap` (2^cap roots per commitment) in the MMCS of the proof being verified
    ($p2air:ident, $p2c:ident, $permfn:ident, cap = $cap:expr) => {
        const P2: p3_recursion::Poseidon2Config = p3_recursion::Poseidon2Config::$p2c;
        fn enable(b: &mut p3_circuit::CircuitBuilder<Challenge>) {
            b.enable_poseidon2_perm::<p3_poseidon2_circuit_air::$p2air, _>(
                p3_circuit::ops::generate_poseidon2_trace::<Challenge, p3_poseidon2_circuit_air::$p2air>,
                $permfn(),
            );
            b.enable_recompose::<F>(p3_circuit::ops::generate_recompose_trace::<F, Challenge>);
        }
        fn make_config() -> MyConfig {
            let perm = $permfn();
            let hash = MyHash::new(perm.clone());
            let compress = MyCompress::new(perm.clone());
            let val_mmcs = MyMmcs::new(hash, compress, $cap);
            let challenge_mmcs = ChallengeMmcs::new(val_mmcs.clone());
            let fri_params = p3_fri::FriParameters::new_testing(challenge_mmcs, 0);
            let pcs = MyPcs::new(Dft::default(), val_mmcs, fri_params);
            MyConfig::new(pcs, Challenger::new(perm))
        }
        fn fri_params() -> p3_recursion::FriVerifierParams {
            let s = test_fri_scalars();
            p3_recursion::FriVerifierParams::with_mmcs(s.log_blowup, s.log_final_poly_len, s.commit_pow_bits, s.query_pow_bits, P2)
        }
    };
}

fn fib_trace<F: p3_field::PrimeField64>(n: usize) -> (p3_matrix::dense::RowMajorMatrix<F>, Vec<F>) {
    let trace = p3_circuit::test_utils::generate_trace_rows::<F>(0, 1, n);
    let x = *trace.values.last().unwrap();
    (trace, vec![F::ZERO, F::ONE, x])
}

pub mod uni_fib_bb {
    use p3_test_utils::baby_bear_params::*;
    type AirT = p3_circuit::test_utils::FibonacciAir;
    std_glue!(BabyBearD4Width16, BABY_BEAR_D4_W16, default_babybear_poseidon2_16);
    fn make_air_trace() -> (AirT, p3_matrix::dense::RowMajorMatrix<F>, Vec<F>) {
        let (t, p) = super::fib_trace::<F>(16);
        (p3_circuit::test_utils::FibonacciAir {}, t, p)
    }
    uni_body!();
}

/// Fibonacci uni-STARK whose commitments are Merkle caps of height 1 (two roots each): every commitment contributes
/// 2 * DIGEST_ELEMS public inputs and the opening selects a cap entry with the top index bit.
pub mod uni_fib_bb_cap1 {
    use p3_test_utils::baby_bear_params::*;
    type AirT = p3_circuit::test_utils::FibonacciAir;
    std_glue!(BabyBearD4Width16, BABY_BEAR_D4_W16, default_babybear_poseidon2_16, cap = 1);
    fn make_air_trace() -> (AirT, p3_matrix::dense::RowMajorMatrix<F>, Vec<F>) {
        let (t, p) = super::fib_trace::<F>(32);
        (p3_circuit::test_utils::FibonacciAir {}, t, p)
    }
    uni_body!();
}

pub mod uni_mul_kb_prep {
    use p3_test_utils::koala_bear_params::*;
    type AirT = super::common::MulAir;
    std_glue!(KoalaBearD4Width16, KOALA_BEAR_D4_W16, default_koalabear_poseidon2_16);
    fn make_air_trace() -> (AirT, p3_matrix::dense::RowMajorMatrix<F>, Vec<F>) {
        let air = super::common::MulAir { degree: 2, rows: 8 };
        let (t, _) = air.random_valid_trace::<F>(true);
        (air, t, vec![])
    }
    uni_body!();
}

pub mod uni_gl_d2 {
    use p3_test_utils::goldilocks_params::*;
    use rand::SeedableRng;
    type AirT = p3_circuit::test_utils::FibonacciAir;
    const P2: p3_recursion::Poseidon2Config = p3_recursion::Poseidon2Config::GOLDILOCKS_D2_W8;
    fn perm() -> Perm {
        let mut rng = rand::rngs::SmallRng::seed_from_u64(1);
        p3_goldilocks::Poseidon2Goldilocks::<8>::new_from_rng_128(&mut rng)
    }
    fn enable(b: &mut p3_circuit::CircuitBuilder<Challenge>) {
        b.enable_poseidon2_perm_width_8::<p3_circuit::ops::GoldilocksD2Width8, _>(
            p3_circuit::ops::generate_poseidon2_trace::<Challenge, p3_circuit::ops::GoldilocksD2Width8>,
            perm(),
        );
        b.enable_recompose::<F>(p3_circuit::ops::generate_recompose_trace::<F, Challenge>);
    }
    fn make_config() -> MyConfig {
        let perm = perm();
        let val_mmcs = MyMmcs::new(MyHash::new(perm.clone()), MyCompress::new(perm.clone()), 0);
        let fri = p3_fri::FriParameters::new_testing(ChallengeMmcs::new(val_mmcs.clone()), 0);
        MyConfig::new(MyPcs::new(Dft::default(), val_mmcs, fri), Challenger::new(perm))
    }
    fn fri_params() -> p3_recursion::FriVerifierParams {
        let s = test_fri_scalars();
        p3_recursion::FriVerifierParams::with_mmcs(s.log_blowup, s.log_final_poly_len, s.commit_pow_bits, s.query_pow_bits, P2)
    }
    fn make_air_trace() -> (AirT, p3_matrix::dense::RowMajorMatrix<F>, Vec<F>) {
        let (t, p) = super::fib_trace::<F>(8);
        (p3_circuit::test_utils::FibonacciAir {}, t, p)
    }
    uni_body!();
}

// ---------------------------------------------------------------------------------------------------------------
// batch-STARK family (plain `BatchProof` and circuit-prover `BatchStarkProof`). The invoking module provides the glue:
// params `use`, `P2`, `enable`, `fri_params`, `struct St { <path to BatchProof>, common, params, .. }`, `struct Aux`,
// `fn setup() -> (Aux, St)`, `fn dup_st`, `fn native_verify`, `fn attach` (allocate + verify_*_circuit), `fn pvs(&St)`,
// `fn pvs_mut(&mut St) -> Option<&mut Vec<Vec<F>>>`, `fn sync(&mut St)`, types `InnerFri`, and the FRI accessors
// `fri_mut` / `fri_t` / `set_mmcs` / `v_extra` / `t_extra`.
// ---------------------------------------------------------------------------------------------------------------
macro_rules! batch_body {
    ($($pp:ident).+) => {
        use std::cell::OnceCell;

        use p3_circuit::{CircuitBuilder, NonPrimitiveOpId};
        use p3_recursion::pcs::fri::MerkleCapTargets;
        use p3_recursion::{BatchStarkVerifierInputsBuilder, VerificationError};

        use super::*;

        type CapT = MerkleCapTargets<F, DIGEST_ELEMS>;
        type Attached = Result<(BatchStarkVerifierInputsBuilder<MyConfig, CapT, InnerFri>, Vec<NonPrimitiveOpId>), VerificationError>;

        pub struct Ctx {
            aux: Aux,
            honest: St,
            ops: OnceCell<usize>,
        }
        pub fn new() -> Box<dyn Driver> {
            let (aux, honest) = setup();
            Box::new(Ctx { aux, honest, ops: OnceCell::new() })
        }
        impl Family for Ctx {
            type F = F;
            type EF = Challenge;
            type St = St;
            fn honest(&self) -> &St {
                &self.honest
            }
            fn honest_ops(&self) -> usize {
                *self.ops.get_or_init(|| self.circuit(&self.honest, None).0.ops)
            }
            fn dup(&self, st: &St) -> St {
                dup_st(st)
            }
            fn native(&self, st: &St) -> Verdict {
                native_verify(&self.aux, st)
            }
            fn circuit(&self, st: &St, marker: Option<&Expected<Challenge>>) -> (Verdict, Vec<Value>, Value) {
                let mut problems = Vec::new();
                let mut info = Value::Null;
                let r = catch_unwind(AssertUnwindSafe(|| -> Result<usize, (bool, &'static str, String, usize)> {
                    let mut b = CircuitBuilder::<Challenge>::new();
                    enable(&mut b);
                    let (vi, op_ids) = attach(&self.aux, &mut b, st).map_err(|e| (true, "verify_circuit", format!("{e:?}"), 0))?;
                    let circuit = b.build().map_err(|e| (true, "build", format!("{e:?}"), 0))?;
                    let ops = circuit.ops.len();
                    let (pubs, privs) = vi.pack_values(&pvs(st), &st.$($pp).+, &st.common);
                    if let Some(exp) = marker {
                        let mut tg = Targets::new();
                        {
                            let tv: &mut TV = &mut |k, l, t| tg.entry(k).or_default().push((l, t));
                            for t in vi.air_public_targets.iter().flatten() {
                                tv("public_value", Loc::Pub, *t);
                            }
                            let pt = &vi.proof_targets;
                            let ct = &pt.commitments_targets;
                            t_cap(&ct.trace_targets, "trace_commitment_word", tv);
                            if let Some(p) = &ct.permutation_targets {
                                t_cap(p, "permutation_commitment_word", tv);
                            }
                            t_cap(&ct.quotient_chunks_targets, "quotient_commitment_word", tv);
                            if let Some(r) = &ct.random_commit {
                                t_cap(r, "random_commitment_word", tv);
                            }
                            t_batch_ov(&pt.flattened_opened_values_targets, tv);
                            t_extra(&pt.opening_proof, tv);
                            t_fri(fri_t(&pt.opening_proof), tv);
                            for t in pt.lookup_terminals.iter().flatten() {
                                tv("lookup_terminal", Loc::Pub, *t);
                            }
                        }
                        let weak = [("common_preprocessed_commitment_word", "CommonDataTargets::preprocessed and GlobalPreprocessedTargets are pub(crate): the targets of the global preprocessed commitment cannot be reached")];
                        let (p, i) = check_marker(&circuit, &pubs, &privs, exp, &tg, &weak);
                        problems = p;
                        info = i;
                        return Ok(ops);
                    }
                    let mut r = circuit.runner();
                    r.set_public_inputs(&pubs).map_err(|e| (true, "set_public_inputs", format!("{e:?}"), ops))?;
                    r.set_private_inputs(&privs).map_err(|e| (true, "set_private_inputs", format!("{e:?}"), ops))?;
                    set_mmcs(&mut r, &op_ids, &st.$($pp).+.opening_proof, st.params.permutation_config.is_some()).map_err(|e| (true, "mmcs_private_data", e.to_string(), ops))?;
                    r.run().map(|_| ops).map_err(|e| (false, "run", format!("{e:?}"), ops))
                }));
                (verdict_of(r), problems, info)
            }
            fn visit(&self, st: &mut St, v: &mut V<F, Challenge>) {
                if let Some(p) = pvs_mut(st) {
                    for x in p.iter_mut().flatten() {
                        v("public_value", Loc::Pub, Slot::B(x));
                    }
                }
                {
                    let bp = &mut st.$($pp).+;
                    v_batch(&mut bp.commitments, &mut bp.opened_values, &mut bp.lookup_terminals, v);
                    v_extra(&mut bp.opening_proof, v);
                    v_fri(fri_mut(&mut bp.opening_proof), v);
                }
                if let Some(g) = st.common.preprocessed.as_mut() {
                    v_cap(&mut g.commitment, "common_preprocessed_commitment_word", v);
                }
                sync(st);
            }
            fn degree_bits<'a>(&self, st: &'a mut St) -> Vec<&'a mut usize> {
                st.$($pp).+.degree_bits.iter_mut().collect()
            }
            fn alter(&self, st: &mut St, target: &str, op: &str) -> Result<Value, String> {
                let r = (|| {
                    if let Some(r) = alter_extra(&mut st.$($pp).+.opening_proof, target, op) {
                        return r;
                    }
                    if let Some(r) = alter_fri(fri_mut(&mut st.$($pp).+.opening_proof), target, op) {
                        return r;
                    }
                    if let Some(r) = alter_params(&mut st.params, target, op) {
                        return r;
                    }
                    let bp = &mut st.$($pp).+;
                    if let Some(f) = target.strip_prefix("opened_values.") {
                        let Some(inst) = bp.opened_values.instances.first_mut() else { return Err("no instance".into()) };
                        if f == "permutation_local" {
                            return alter_vec(&mut inst.permutation_local, op);
                        }
                        return alter_ov(&mut inst.base_opened_values, f, op).unwrap_or_else(|| Err(format!("no {target} in a batch-STARK proof")));
                    }
                    match target {
                        "instances" => alter_vec_by(&mut bp.opened_values.instances, op, |x| dup(x)),
                        "degree_bits" if op == "inc" || op == "dec" => match bp.degree_bits.first_mut() {
                            Some(d) => alter_count(d, op),
                            None => Err("no instance".into()),
                        },
                        "degree_bits" => alter_vec(&mut bp.degree_bits, op),
                        "lookup_terminals" => alter_vec(&mut bp.lookup_terminals, op),
                        "lookup_terminals[0]" | "lookup_terminals[last]" if op == "toggle" => {
                            let n = bp.lookup_terminals.len();
                            if n == 0 {
                                return Err("no lookup terminal list entry".into());
                            }
                            let i = if target.ends_with("[0]") { 0 } else { n - 1 };
                            let like = bp.lookup_terminals.iter().flatten().next().cloned();
                            match bp.lookup_terminals[i].take() {
                                Some(_) => Ok(json!({"terminal": "removed", "index": i})),
                                None => {
                                    bp.lookup_terminals[i] = Some(like.unwrap_or(p3_lookup::LookupTerminal(<Self as Family>::EF::ZERO)));
                                    Ok(json!({"terminal": "added", "index": i}))
                                }
                            }
                        }
                        "commitments.permutation" | "commitments.random" if op == "toggle" => {
                            let like = bp.commitments.main.clone();
                            let slot = if target.ends_with("permutation") { &mut bp.commitments.permutation } else { &mut bp.commitments.random };
                            match slot.take() {
                                Some(_) => Ok(json!({"commitment": "removed"})),
                                None => {
                                    *slot = Some(like);
                                    Ok(json!({"commitment": "added"}))
                                }
                            }
                        }
                        "commitments.permutation" if op == "empty" => match bp.commitments.permutation.take() {
                            Some(_) => Ok(json!({"permutation_commitment": "removed"})),
                            None => Err("no permutation commitment in this configuration".into()),
                        },
                        "common.lookups" => alter_vec(&mut st.common.lookups, op),
                        "common.preprocessed.instances" => match st.common.preprocessed.as_mut() {
                            Some(g) => alter_vec(&mut g.instances, op),
                            None => Err("no preprocessed data in this configuration".into()),
                        },
                        "public_values" => match pvs_mut(st) {
                            Some(p) => alter_vec(p, op),
                            None => Err("the public values of circuit tables are fixed by the entry point".into()),
                        },
                        _ => Err(format!("no {target} in a batch-STARK statement")),
                    }
                })();
                sync(st);
                r
            }
        }
    };
}

/// FRI accessors for a plain `TwoAdicFriPcs` proof.
macro_rules! plain_fri_glue {
    () => {
        type InnerFri = super::common::InnerFriGeneric<MyConfig, MyHash, MyCompress, DIGEST_ELEMS>;
        type InP = p3_recursion::pcs::fri::InputProofTargets<F, Challenge, p3_recursion::pcs::fri::RecValMmcs<F, DIGEST_ELEMS, MyHash, MyCompress>>;
        type PcsProofT = <MyPcs as p3_commit::Pcs<Challenge, Challenger>>::Proof;
        fn fri_mut(p: &mut PcsProofT) -> &mut PcsProofT {
            p
        }
        fn fri_t(t: &InnerFri) -> &InnerFri {
            t
        }
        fn v_extra(_p: &mut PcsProofT, _v: &mut super::V<F, Challenge>) {}
        fn t_extra(_t: &InnerFri, _v: &mut super::TV) {}
        #[allow(dead_code)]
        fn alter_extra(_p: &mut PcsProofT, _target: &str, _op: &str) -> Option<Result<Value, String>> {
            None
        }
        fn set_mmcs(r: &mut p3_circuit::CircuitRunner<'_, Challenge>, ops: &[p3_circuit::NonPrimitiveOpId], p: &PcsProofT, enabled: bool) -> Result<(), &'static str> {
            if !enabled {
                return Ok(());
            }
            p3_recursion::pcs::set_fri_mmcs_private_data::<F, Challenge, ChallengeMmcs, MyMmcs, MyHash, MyCompress, DIGEST_ELEMS>(r, ops, p, P2)
        }
    };
}

/// Glue of a plain batch-STARK configuration: `type AirT`, `fn make_instances()` come from the module.
macro_rules! plain_batch_glue {
    () => {
        pub struct St {
            proof: p3_batch_stark::BatchProof<MyConfig>,
            pvs: Vec<Vec<F>>,
            common: p3_batch_stark::CommonData<MyConfig>,
            params: p3_recursion::FriVerifierParams,
        }
        pub struct Aux {
            config: MyConfig,
            airs: Vec<AirT>,
        }
        fn setup() -> (Aux, St) {
            let config = make_config();
            let (airs, traces, pvs) = make_instances();
            let (proof, common) = {
                let instances: Vec<p3_batch_stark::StarkInstance<'_, MyConfig, AirT>> =
                    airs.iter().zip(traces.iter()).zip(pvs.iter()).map(|((air, trace), p)| p3_batch_stark::StarkInstance { air, trace, public_values: p.clone() }).collect();
                let pd = p3_batch_stark::ProverData::from_instances(&config, &instances);
                let proof = p3_batch_stark::prove_batch(&config, &instances, &pd);
                (proof, pd.common)
            };
            (Aux { config, airs }, St { proof, pvs, common, params: fri_params() })
        }
        fn dup_st(st: &St) -> St {
            St { proof: super::dup(&st.proof), pvs: st.pvs.clone(), common: super::clone_common(&st.common), params: st.params }
        }
        fn native_verify(aux: &Aux, st: &St) -> super::Verdict {
            super::native_of(std::panic::catch_unwind(std::panic::AssertUnwindSafe(|| p3_batch_stark::verify_batch(&aux.config, &aux.airs, &st.proof, &st.pvs, &st.common))))
        }
        fn pvs(st: &St) -> Vec<Vec<F>> {
            st.pvs.clone()
        }
        fn pvs_mut(st: &mut St) -> Option<&mut Vec<Vec<F>>> {
            Some(&mut st.pvs)
        }
        fn sync(_st: &mut St) {}
        fn attach(aux: &Aux, b: &mut p3_circuit::CircuitBuilder<Challenge>, st: &St) -> Attached {
            let counts: Vec<usize> = st.pvs.iter().map(|p| p.len()).collect();
            let vi = p3_recursion::BatchStarkVerifierInputsBuilder::<MyConfig, CapT, InnerFri>::allocate(b, &st.proof, &st.common, &counts);
            let ops = p3_recursion::verify_batch_circuit::<AirT, MyConfig, CapT, InP, InnerFri, p3_lookup::logup::LogUpGadget, _, WIDTH, RATE>(
                &aux.config, &aux.airs, b, &vi.proof_targets, &vi.air_public_targets, &st.params, &vi.common_data, &p3_lookup::logup::LogUpGadget::new(), P2,
            )?;
            Ok((vi, ops))
        }
    };
}

/// Two AIRs of different heights: `MulAir` (preprocessed columns, no public values) and `FibonacciAir` (3 public values).
#[allow(private_interfaces)]
pub enum TwoAir {
    Mul(common::MulAir),
    Fib(p3_circuit::test_utils::FibonacciAir),
}
impl Clone for TwoAir {
    fn clone(&self) -> Self {
        match self {
            Self::Mul(a) => Self::Mul(*a),
            Self::Fib(_) => Self::Fib(p3_circuit::test_utils::FibonacciAir {}),
        }
    }
}
impl<Val: Field> p3_air::BaseAir<Val> for TwoAir
where
    rand::distr::StandardUniform: rand::distr::Distribution<Val>,
{
    fn width(&self) -> usize {
        match self {
            Self::Mul(a) => p3_air::BaseAir::<Val>::width(a),
            Self::Fib(a) => p3_air::BaseAir::<Val>::width(a),
        }
    }
    fn preprocessed_width(&self) -> usize {
        match self {
            Self::Mul(a) => p3_air::BaseAir::<Val>::preprocessed_width(a),
            Self::Fib(a) => p3_air::BaseAir::<Val>::preprocessed_width(a),
        }
    }
    fn preprocessed_trace(&self) -> Option<p3_matrix::dense::RowMajorMatrix<Val>> {
        match self {
            Self::Mul(a) => p3_air::BaseAir::<Val>::preprocessed_trace(a),
            Self::Fib(a) => p3_air::BaseAir::<Val>::preprocessed_trace(a),
        }
    }
    fn num_public_values(&self) -> usize {
        match self {
            Self::Mul(a) => p3_air::BaseAir::<Val>::num_public_values(a),
            Self::Fib(a) => p3_air::BaseAir::<Val>::num_public_values(a),
        }
    }
}
impl<AB: p3_air::AirBuilder> p3_air::Air<AB> for TwoAir
where
    AB::F: Field,
    rand::distr::StandardUniform: rand::distr::Distribution<AB::F>,
{
    fn eval(&self, builder: &mut AB) {
        match self {
            Self::Mul(a) => p3_air::Air::<AB>::eval(a, builder),
            Self::Fib(a) => p3_air::Air::<AB>::eval(a, builder),
        }
    }
}

pub mod batch_two_airs_bb {
    use p3_test_utils::baby_bear_params::*;
    type AirT = super::TwoAir;
    std_glue!(BabyBearD4Width16, BABY_BEAR_D4_W16, default_babybear_poseidon2_16);
    plain_fri_glue!();
    fn make_instances() -> (Vec<AirT>, Vec<p3_matrix::dense::RowMajorMatrix<F>>, Vec<Vec<F>>) {
        let mul = super::common::MulAir { degree: 2, rows: 8 };
        let (mt, _) = mul.random_valid_trace::<F>(true);
        let (ft, fp) = super::fib_trace::<F>(16);
        (vec![super::TwoAir::Mul(mul), super::TwoAir::Fib(p3_circuit::test_utils::FibonacciAir {})], vec![mt, ft], vec![vec![], fp])
    }
    plain_batch_glue!();
    batch_body!(proof);
}

/// The same two AIRs with the instance WITHOUT preprocessed columns first and different heights: the preprocessed matrix 0
/// belongs to instance 1 (`matrix_to_instance = [1]`), so matrix index and instance index differ.
pub mod batch_two_airs_rev_bb {
    use p3_test_utils::baby_bear_params::*;
    type AirT = super::TwoAir;
    std_glue!(BabyBearD4Width16, BABY_BEAR_D4_W16, default_babybear_poseidon2_16);
    plain_fri_glue!();
    fn make_instances() -> (Vec<AirT>, Vec<p3_matrix::dense::RowMajorMatrix<F>>, Vec<Vec<F>>) {
        let mul = super::common::MulAir { degree: 2, rows: 8 };
        let (mt, _) = mul.random_valid_trace::<F>(true);
        let (ft, fp) = super::fib_trace::<F>(16);
        (vec![super::TwoAir::Fib(p3_circuit::test_utils::FibonacciAir {}), super::TwoAir::Mul(mul)], vec![ft, mt], vec![fp, vec![]])
    }
    plain_batch_glue!();
    batch_body!(proof);
}

/// The two-AIR batch with Merkle caps of height 2 (four roots per commitment, including the common preprocessed one).
pub mod batch_two_airs_bb_cap2 {
    use p3_test_utils::baby_bear_params::*;
    type AirT = super::TwoAir;
    std_glue!(BabyBearD4Width16, BABY_BEAR_D4_W16, default_babybear_poseidon2_16, cap = 2);
    plain_fri_glue!();
    fn make_instances() -> (Vec<AirT>, Vec<p3_matrix::dense::RowMajorMatrix<F>>, Vec<Vec<F>>) {
        let mul = super::common::MulAir { degree: 2, rows: 16 };
        let (mt, _) = mul.random_valid_trace::<F>(true);
        let (ft, fp) = super::fib_trace::<F>(32);
        (vec![super::TwoAir::Mul(mul), super::TwoAir::Fib(p3_circuit::test_utils::FibonacciAir {})], vec![mt, ft], vec![vec![], fp])
    }
    plain_batch_glue!();
    batch_body!(proof);
}

/// Glue of a circuit-prover configuration (`BatchStarkProof` of the Const / Public / Alu tables of a small base-field circuit).
/// The module provides `fn make_circuit() -> (CircuitBuilder<F>, Vec<F> /*public inputs*/, TablePacking)`.
macro_rules! tables_glue {
    () => {
        use p3_circuit_prover::{BatchStarkProof, BatchStarkProver, CircuitProverData, ConstraintProfile};
        const TRACE_D: usize = 1;
        pub struct St {
            bsp: BatchStarkProof<MyConfig>,
            common: p3_batch_stark::CommonData<MyConfig>,
            params: p3_recursion::FriVerifierParams,
            n_tables: usize,
        }
        pub struct Aux {
            config: MyConfig,
            prover: BatchStarkProver<MyConfig>,
        }
        fn setup() -> (Aux, St) {
            let (builder, inputs, packing) = make_circuit();
            let config_proving = make_config();
            let circuit = builder.build().unwrap();
            let (airs_degrees, prim, nonprim) =
                p3_circuit_prover::common::get_airs_and_degrees_with_prep::<MyConfig, F, 1>(&circuit, &packing, &[], &[], ConstraintProfile::Standard).unwrap();
            let (airs, degrees): (Vec<_>, Vec<usize>) = airs_degrees.into_iter().unzip();
            let mut runner = circuit.runner();
            runner.set_public_inputs(&inputs).unwrap();
            let traces = runner.run().unwrap();
            let pd = p3_batch_stark::ProverData::from_airs_and_degrees(&config_proving, &airs, &degrees);
            let cpd = CircuitProverData::new(pd, prim, nonprim);
            let prover = BatchStarkProver::new(config_proving).with_table_packing(packing);
            let bsp = prover.prove_all_tables(&traces, &cpd).unwrap();
            let common = super::clone_common(cpd.common_data());
            let n_tables = bsp.proof.opened_values.instances.len();
            (Aux { config: make_config(), prover }, St { bsp, common, params: fri_params(), n_tables })
        }
        fn dup_st(st: &St) -> St {
            let mut bsp: BatchStarkProof<MyConfig> = super::dup(&st.bsp);
            bsp.stark_common = super::clone_common(&st.common);
            St { bsp, common: super::clone_common(&st.common), params: st.params, n_tables: st.n_tables }
        }
        fn native_verify(aux: &Aux, st: &St) -> super::Verdict {
            super::native_of(std::panic::catch_unwind(std::panic::AssertUnwindSafe(|| aux.prover.verify_all_tables::<F>(&st.bsp))))
        }
        fn pvs(st: &St) -> Vec<Vec<F>> {
            vec![vec![]; st.n_tables]
        }
        fn pvs_mut(_st: &mut St) -> Option<&mut Vec<Vec<F>>> {
            None
        }
        /// the native side reads the verifying data from `bsp.stark_common`, the circuit side gets `common`: keep them one statement
        fn sync(st: &mut St) {
            st.bsp.stark_common = super::clone_common(&st.common);
        }
        fn attach(aux: &Aux, b: &mut p3_circuit::CircuitBuilder<Challenge>, st: &St) -> Attached {
            p3_recursion::verifier::verify_p3_batch_proof_circuit::<MyConfig, CapT, InP, InnerFri, p3_lookup::logup::LogUpGadget, _, WIDTH, RATE, TRACE_D>(
                &aux.config, b, &st.bsp, &st.params, &st.common, &p3_lookup::logup::LogUpGadget::new(), P2, &[],
            )
        }
    };
}

pub mod batch_lookups_bb {
    use p3_test_utils::baby_bear_params::*;
    std_glue!(BabyBearD4Width16, BABY_BEAR_D4_W16, default_babybear_poseidon2_16);
    plain_fri_glue!();
    /// tests/test_lookups.rs `get_circuit`: y = a*x + b, n times y = a*y + b, connected to a public expected result
    fn make_circuit() -> (p3_circuit::CircuitBuilder<F>, Vec<F>, p3_circuit_prover::TablePacking) {
        let n = 10;
        let mut builder = p3_circuit::CircuitBuilder::<F>::new();
        let x = builder.public_input();
        let a = builder.public_input();
        let b = builder.public_input();
        let expected = builder.public_input();
        let mut y = builder.mul(a, x);
        y = builder.add(b, y);
        for _ in 0..n {
            y = builder.mul(a, y);
            y = builder.add(b, y);
        }
        builder.connect(y, expected);
        let (av, bv, xv) = (F::from_u32(3), F::from_u32(5), F::from_u32(7));
        let mut yv = av * xv + bv;
        for _ in 0..n {
            yv = av * yv + bv;
        }
        (builder, vec![xv, av, bv, yv], p3_circuit_prover::TablePacking::new(4, 4))
    }
    tables_glue!();
    batch_body!(bsp.proof);
}

pub mod batch_circuit_tables_kb {
    use p3_test_utils::koala_bear_params::*;
    std_glue!(KoalaBearD4Width16, KOALA_BEAR_D4_W16, default_koalabear_poseidon2_16);
    plain_fri_glue!();
    /// tests/fibonacci_batch_stark_prover.rs: iterative Fibonacci, F(n) connected to a public input
    fn make_circuit() -> (p3_circuit::CircuitBuilder<F>, Vec<F>, p3_circuit_prover::TablePacking) {
        let n = 24;
        let mut builder = p3_circuit::CircuitBuilder::<F>::new();
        let expected = builder.alloc_public_input("expected_result");
        let mut a = builder.alloc_const(F::ZERO, "F(0)");
        let mut b = builder.alloc_const(F::ONE, "F(1)");
        let (mut av, mut bv) = (F::ZERO, F::ONE);
        for _ in 2..=n {
            let next = builder.add(a, b);
            a = b;
            b = next;
            let nv = av + bv;
            av = bv;
            bv = nv;
        }
        builder.connect(b, expected);
        (builder, vec![bv], p3_circuit_prover::TablePacking::new(2, 4))
    }
    tables_glue!();
    batch_body!(bsp.proof);
}

/// ZK: `HidingFriPcs` over the salted `MerkleTreeHidingMmcs` (tests/zk_hiding_mmcs.rs), one Fibonacci instance, batch-STARK entry point.
pub mod batch_fib_kb_zk {
    use p3_test_utils::koala_bear_params::*;
    use rand::SeedableRng;
    use rand::rngs::SmallRng;
    const SALT_ELEMS: usize = 4;
    type HidingValMmcs = p3_merkle_tree::MerkleTreeHidingMmcs<<F as Field>::Packing, <F as Field>::Packing, MyHash, MyCompress, SmallRng, 2, DIGEST_ELEMS, SALT_ELEMS>;
    type HidingChallengeMmcs = ExtensionMmcs<F, Challenge, HidingValMmcs>;
    type MyPcs = p3_fri::HidingFriPcs<F, Dft, HidingValMmcs, HidingChallengeMmcs, SmallRng>;
    type MyConfig = StarkConfig<MyPcs, Challenge, Challenger>;
    type RecHidingValMmcs = p3_recursion::pcs::fri::RecValHidingMmcs<F, DIGEST_ELEMS, SALT_ELEMS, MyHash, MyCompress, SmallRng>;
    type InP = p3_recursion::pcs::fri::InputProofTargets<F, Challenge, RecHidingValMmcs>;
    type InnerFri = p3_recursion::pcs::fri::HidingFriProofTargets<F, Challenge, p3_recursion::pcs::fri::RecExtensionValMmcs<F, Challenge, DIGEST_ELEMS, RecHidingValMmcs>, InP, p3_recursion::pcs::fri::Witness<F>>;
    type FriT = p3_recursion::pcs::fri::FriProofTargets<F, Challenge, p3_recursion::pcs::fri::RecExtensionValMmcs<F, Challenge, DIGEST_ELEMS, RecHidingValMmcs>, InP, p3_recursion::pcs::fri::Witness<F>>;
    type PcsProofT = <MyPcs as p3_commit::Pcs<Challenge, Challenger>>::Proof;
    type FriP = p3_fri::FriProof<Challenge, HidingChallengeMmcs, F, Vec<p3_commit::BatchOpening<F, HidingValMmcs>>>;
    type AirT = super::TwoAir;
    const P2: p3_recursion::Poseidon2Config = p3_recursion::Poseidon2Config::KOALA_BEAR_D4_W16;
    fn enable(b: &mut p3_circuit::CircuitBuilder<Challenge>) {
        b.enable_poseidon2_perm::<p3_poseidon2_circuit_air::KoalaBearD4Width16, _>(
            p3_circuit::ops::generate_poseidon2_trace::<Challenge, p3_poseidon2_circuit_air::KoalaBearD4Width16>,
            default_koalabear_poseidon2_16(),
        );
        b.enable_recompose::<F>(p3_circuit::ops::generate_recompose_trace::<F, Challenge>);
    }
    fn make_config() -> MyConfig {
        let perm = default_koalabear_poseidon2_16();
        let val_mmcs = HidingValMmcs::new(MyHash::new(perm.clone()), MyCompress::new(perm.clone()), 0, SmallRng::seed_from_u64(11));
        let fri = FriParameters::new_testing(HidingChallengeMmcs::new(val_mmcs.clone()), 0);
        MyConfig::new(MyPcs::new(Dft::default(), val_mmcs, fri, 2, SmallRng::seed_from_u64(1)), Challenger::new(perm))
    }
    fn fri_params() -> p3_recursion::FriVerifierParams {
        let s = test_fri_scalars();
        p3_recursion::FriVerifierParams::with_mmcs(s.log_blowup, s.log_final_poly_len, s.commit_pow_bits, s.query_pow_bits, P2)
    }
    fn fri_mut(p: &mut PcsProofT) -> &mut FriP {
        &mut p.1
    }
    fn fri_t(t: &InnerFri) -> &FriT {
        &t.inner_proof
    }
    fn v_extra(p: &mut PcsProofT, v: &mut super::V<F, Challenge>) {
        for x in p.0.iter_mut().flatten().flatten().flatten() {
            v("fri_random_opened_value", super::Loc::Priv, super::Slot::E(x));
        }
    }
    fn t_extra(t: &InnerFri, v: &mut super::TV) {
        for x in t.random_opened_values.rounds.iter().flatten().flatten().flatten() {
            v("fri_random_opened_value", super::Loc::Priv, *x);
        }
    }
    fn alter_extra(p: &mut PcsProofT, target: &str, op: &str) -> Option<Result<Value, String>> {
        let t = target.strip_prefix("random_opened")?;
        Some(match t {
            ".rounds" => super::alter_vec(&mut p.0, op),
            "[0]" => match p.0.first_mut() {
                Some(r) => super::alter_vec(r, op),
                None => Err("no round".into()),
            },
            "[0][0]" => match p.0.first_mut().and_then(|r| r.first_mut()) {
                Some(m) => super::alter_vec(m, op),
                None => Err("no matrix".into()),
            },
            "[last][0]" => match p.0.last_mut().and_then(|r| r.first_mut()) {
                Some(m) => super::alter_vec(m, op),
                None => Err("no matrix".into()),
            },
            "[0][0][0]" => match p.0.first_mut().and_then(|r| r.first_mut()).and_then(|m| m.first_mut()) {
                Some(v) => super::alter_vec(v, op),
                None => Err("no point".into()),
            },
            _ => return None,
        })
    }
    fn set_mmcs(r: &mut p3_circuit::CircuitRunner<'_, Challenge>, ops: &[p3_circuit::NonPrimitiveOpId], p: &PcsProofT, enabled: bool) -> Result<(), &'static str> {
        if !enabled {
            return Ok(());
        }
        p3_recursion::pcs::set_hiding_salted_fri_mmcs_private_data::<F, Challenge, HidingChallengeMmcs, HidingValMmcs, DIGEST_ELEMS>(r, ops, p, P2)
    }
    fn make_instances() -> (Vec<AirT>, Vec<p3_matrix::dense::RowMajorMatrix<F>>, Vec<Vec<F>>) {
        let (ft, fp) = super::fib_trace::<F>(16);
        (vec![super::TwoAir::Fib(p3_circuit::test_utils::FibonacciAir {})], vec![ft], vec![fp])
    }
    plain_batch_glue!();
    batch_body!(proof);
}

pub mod batch_fib_kb_zk_pow {
    use p3_test_utils::koala_bear_params::*;
    use rand::SeedableRng;
    use rand::rngs::SmallRng;
    const SALT_ELEMS: usize = 4;
    type HidingValMmcs = p3_merkle_tree::MerkleTreeHidingMmcs<<F as Field>::Packing, <F as Field>::Packing, MyHash, MyCompress, SmallRng, 2, DIGEST_ELEMS, SALT_ELEMS>;
    type HidingChallengeMmcs = ExtensionMmcs<F, Challenge, HidingValMmcs>;
    type MyPcs = p3_fri::HidingFriPcs<F, Dft, HidingValMmcs, HidingChallengeMmcs, SmallRng>;
    type MyConfig = StarkConfig<MyPcs, Challenge, Challenger>;
    type RecHidingValMmcs = p3_recursion::pcs::fri::RecValHidingMmcs<F, DIGEST_ELEMS, SALT_ELEMS, MyHash, MyCompress, SmallRng>;
    type InP = p3_recursion::pcs::fri::InputProofTargets<F, Challenge, RecHidingValMmcs>;
    type InnerFri = p3_recursion::pcs::fri::HidingFriProofTargets<F, Challenge, p3_recursion::pcs::fri::RecExtensionValMmcs<F, Challenge, DIGEST_ELEMS, RecHidingValMmcs>, InP, p3_recursion::pcs::fri::Witness<F>>;
    type FriT = p3_recursion::pcs::fri::FriProofTargets<F, Challenge, p3_recursion::pcs::fri::RecExtensionValMmcs<F, Challenge, DIGEST_ELEMS, RecHidingValMmcs>, InP, p3_recursion::pcs::fri::Witness<F>>;
    type PcsProofT = <MyPcs as p3_commit::Pcs<Challenge, Challenger>>::Proof;
    type FriP = p3_fri::FriProof<Challenge, HidingChallengeMmcs, F, Vec<p3_commit::BatchOpening<F, HidingValMmcs>>>;
    type AirT = super::TwoAir;
    const P2: p3_recursion::Poseidon2Config = p3_recursion::Poseidon2Config::KOALA_BEAR_D4_W16;
    fn enable(b: &mut p3_circuit::CircuitBuilder<Challenge>) {
        b.enable_poseidon2_perm::<p3_poseidon2_circuit_air::KoalaBearD4Width16, _>(
            p3_circuit::ops::generate_poseidon2_trace::<Challenge, p3_poseidon2_circuit_air::KoalaBearD4Width16>,
            default_koalabear_poseidon2_16(),
        );
        b.enable_recompose::<F>(p3_circuit::ops::generate_recompose_trace::<F, Challenge>);
    }
    fn make_config() -> MyConfig {
        let perm = default_koalabear_poseidon2_16();
        let val_mmcs = HidingValMmcs::new(MyHash::new(perm.clone()), MyCompress::new(perm.clone()), 0, SmallRng::seed_from_u64(11));
        // unequal proof-of-work bits (commit 0, query 3), as in recursion/examples (0 / 15): the two are easy to confuse
        let fri = FriParameters { log_blowup: 2, log_final_poly_len: 0, max_log_arity: 1, num_queries: 2, commit_proof_of_work_bits: 0,
            query_proof_of_work_bits: 3, mmcs: HidingChallengeMmcs::new(val_mmcs.clone()) };
        MyConfig::new(MyPcs::new(Dft::default(), val_mmcs, fri, 2, SmallRng::seed_from_u64(1)), Challenger::new(perm))
    }
    fn fri_params() -> p3_recursion::FriVerifierParams {
        p3_recursion::FriVerifierParams::with_mmcs(2, 0, 0, 3, P2)
    }
    fn fri_mut(p: &mut PcsProofT) -> &mut FriP {
        &mut p.1
    }
    fn fri_t(t: &InnerFri) -> &FriT {
        &t.inner_proof
    }
    fn v_extra(p: &mut PcsProofT, v: &mut super::V<F, Challenge>) {
        for x in p.0.iter_mut().flatten().flatten().flatten() {
            v("fri_random_opened_value", super::Loc::Priv, super::Slot::E(x));
        }
    }
    fn t_extra(t: &InnerFri, v: &mut super::TV) {
        for x in t.random_opened_values.rounds.iter().flatten().flatten().flatten() {
            v("fri_random_opened_value", super::Loc::Priv, *x);
        }
    }
    fn alter_extra(p: &mut PcsProofT, target: &str, op: &str) -> Option<Result<Value, String>> {
        let t = target.strip_prefix("random_opened")?;
        Some(match t {
            ".rounds" => super::alter_vec(&mut p.0, op),
            "[0]" => match p.0.first_mut() {
                Some(r) => super::alter_vec(r, op),
                None => Err("no round".into()),
            },
            "[0][0]" => match p.0.first_mut().and_then(|r| r.first_mut()) {
                Some(m) => super::alter_vec(m, op),
                None => Err("no matrix".into()),
            },
            "[last][0]" => match p.0.last_mut().and_then(|r| r.first_mut()) {
                Some(m) => super::alter_vec(m, op),
                None => Err("no matrix".into()),
            },
            "[0][0][0]" => match p.0.first_mut().and_then(|r| r.first_mut()).and_then(|m| m.first_mut()) {
                Some(v) => super::alter_vec(v, op),
                None => Err("no point".into()),
            },
            _ => return None,
        })
    }
    fn set_mmcs(r: &mut p3_circuit::CircuitRunner<'_, Challenge>, ops: &[p3_circuit::NonPrimitiveOpId], p: &PcsProofT, enabled: bool) -> Result<(), &'static str> {
        if !enabled {
            return Ok(());
        }
        p3_recursion::pcs::set_hiding_salted_fri_mmcs_private_data::<F, Challenge, HidingChallengeMmcs, HidingValMmcs, DIGEST_ELEMS>(r, ops, p, P2)
    }
    fn make_instances() -> (Vec<AirT>, Vec<p3_matrix::dense::RowMajorMatrix<F>>, Vec<Vec<F>>) {
        let (ft, fp) = super::fib_trace::<F>(16);
        (vec![super::TwoAir::Fib(p3_circuit::test_utils::FibonacciAir {})], vec![ft], vec![fp])
    }
    plain_batch_glue!();
    batch_body!(proof);
}

// ---------------------------------------------------------------------------------------------------------------
// Commands
// ---------------------------------------------------------------------------------------------------------------

pub const CONFIGS: &[&str] = &["uni_fib_bb", "uni_mul_kb_prep", "uni_gl_d2", "batch_two_airs_bb", "batch_lookups_bb", "batch_circuit_tables_kb", "batch_fib_kb_zk", "batch_fib_kb_zk_pow", "batch_two_airs_rev_bb", "uni_fib_bb_cap1", "batch_two_airs_bb_cap2"];

fn make_driver(config: &str) -> Option<Box<dyn Driver>> {
    Some(match config {
        "uni_fib_bb" => uni_fib_bb::new(),
        "uni_fib_bb_cap1" => uni_fib_bb_cap1::new(),
        "batch_two_airs_bb_cap2" => batch_two_airs_bb_cap2::new(),
        "uni_mul_kb_prep" => uni_mul_kb_prep::new(),
        "uni_gl_d2" => uni_gl_d2::new(),
        "batch_two_airs_bb" => batch_two_airs_bb::new(),
        "batch_two_airs_rev_bb" => batch_two_airs_rev_bb::new(),
        "batch_lookups_bb" => batch_lookups_bb::new(),
        "batch_fib_kb_zk" | "uni_fib_kb_zk" => batch_fib_kb_zk::new(),
        "batch_fib_kb_zk_pow" => batch_fib_kb_zk_pow::new(),
        "batch_circuit_tables_kb" | "batch_circuit_tables_bb" => batch_circuit_tables_kb::new(),
        _ => return None,
    })
}

/// `p3r digest-stark`: C18 for the recursion verifier circuits - one line per configuration with the digest of the verification
/// circuit built for the honest statement (twice in this process); the check compares the lines of several processes.
pub fn cmd_digest(_args: &[String]) -> i32 {
    for config in ["uni_fib_bb", "uni_mul_kb_prep", "batch_two_airs_bb", "batch_two_airs_rev_bb", "batch_two_airs_bb_cap2", "batch_lookups_bb", "batch_fib_kb_zk", "batch_circuit_tables_kb"] {
        let one = || -> Result<String, String> {
            let d = make_driver(config).ok_or("unknown configuration")?;
            let o = d.run(&Case { spec: String::new(), config: config.into(), mode: "marker".into(), fault: Value::Null, alter: Value::Null });
            let dg = o.info.get("ops_digest").and_then(|v| v.as_str()).ok_or_else(|| format!("no circuit: {}", o.circuit.msg))?.to_string();
            Ok(format!("{dg} ops={}", o.info.get("ops").and_then(|v| v.as_u64()).unwrap_or(0)))
        };
        let a = catch_unwind(AssertUnwindSafe(one)).unwrap_or_else(|_| Err("panic".into()));
        let b = catch_unwind(AssertUnwindSafe(one)).unwrap_or_else(|_| Err("panic".into()));
        match (a, b) {
            (Ok(a), Ok(b)) => println!("npo stark-verifier-{config} {a} same_process_rebuild={}", a == b),
            (a, b) => println!("npo stark-verifier-{config} ERROR {:?} {:?}", a.err(), b.err()),
        }
    }
    0
}

fn arg(args: &[String], name: &str) -> Option<String> {
    args.iter().position(|a| a == name).and_then(|i| args.get(i + 1).cloned())
}
fn vstr(v: &Value) -> String {
    match v {
        Value::String(s) => s.clone(),
        Value::Null => "none".into(),
        o => o.to_string(),
    }
}

/// p3r stark-gen --out cases.ndjson : driver self-test cases (NOT the TLA+ cases)
pub fn cmd_gen(args: &[String]) -> i32 {
    let out = arg(args, "--out").expect("--out");
    let mut lines = Vec::new();
    for c in CONFIGS {
        lines.push(json!({"spec": "Stark", "config": c, "mode": "fault", "fault": {"element": "none"}}));
        lines.push(json!({"spec": "Stark", "config": c, "mode": "marker"}));
        let dense = args.iter().any(|a| a == "--dense");
        let drv = if dense { make_driver(c) } else { None };
        for e in ELEMENTS {
            match &drv {
                Some(d) if d.count(e) > 0 => {
                    for i in 0..d.count(e) {
                        lines.push(json!({"spec": "Stark", "config": c, "mode": "fault", "fault": {"element": e, "pos": i}}));
                    }
                }
                _ => {
                    for p in ["first", "middle", "last"] {
                        lines.push(json!({"spec": "Stark", "config": c, "mode": "fault", "fault": {"element": e, "pos": p}}));
                    }
                }
            }
        }
        for t in MALFORMED_TARGETS {
            for o in OPS {
                lines.push(json!({"spec": "Stark", "config": c, "mode": "malformed", "alter": {"target": t, "op": o}}));
            }
        }
    }
    let txt: String = lines.iter().map(|l| format!("{l}\n")).collect();
    std::fs::write(out, txt).unwrap();
    0
}

/// p3r stark-expand --in cases.ndjson --out expanded.ndjson : a fault case with `"pos": "all"` becomes one case per
/// position of that kind in the honest statement of its configuration (the counts come from the real proof).
pub fn cmd_expand(args: &[String]) -> i32 {
    let input = arg(args, "--in").expect("--in");
    let out = arg(args, "--out").expect("--out");
    let f = std::fs::File::open(&input).expect("open input");
    let mut drivers: BTreeMap<String, Option<Box<dyn Driver>>> = BTreeMap::new();
    let mut lines = Vec::new();
    for l in BufReader::new(f).lines().map(|l| l.unwrap()).filter(|l| !l.trim().is_empty()) {
        let v: Value = serde_json::from_str(&l).expect("case line");
        if v["mode"] == "fault" && v["fault"]["pos"] == "all" {
            let cfg = v["config"].as_str().unwrap_or("").to_string();
            let el = v["fault"]["element"].as_str().unwrap_or("").to_string();
            let d = drivers.entry(cfg.clone()).or_insert_with(|| make_driver(&cfg));
            let n = d.as_ref().map(|d| d.count(&el)).unwrap_or(0);
            if el == "none" || n == 0 {
                let mut w = v.clone();
                w["fault"]["pos"] = json!("first");
                lines.push(w.to_string());
            }
            for i in 0..n {
                let mut w = v.clone();
                w["fault"]["pos"] = json!(i);
                lines.push(w.to_string());
            }
        } else {
            lines.push(v.to_string());
        }
    }
    let txt: String = lines.iter().map(|l| format!("{l}\n")).collect();
    std::fs::write(out, txt).unwrap();
    eprintln!("stark-expand: {} cases", lines.len());
    0
}

#[derive(Default)]
struct Agg {
    groups: BTreeMap<(String, String, String), (u64, Value)>,
    totals: BTreeMap<String, u64>,
    na: BTreeMap<String, (u64, Value)>,
    samples: Vec<Value>,
    errors: Vec<String>,
}

/// p3r stark --in cases.ndjson --seed N --out result.json [--threads N] [--verdicts file.ndjson]
pub fn cmd(args: &[String]) -> i32 {
    let input = arg(args, "--in").expect("--in");
    let _seed: u64 = arg(args, "--seed").and_then(|s| s.parse().ok()).unwrap_or(1);
    let out = arg(args, "--out").expect("--out");
    let threads: usize = arg(args, "--threads").and_then(|s| s.parse().ok()).unwrap_or(16);
    let verdicts_path = arg(args, "--verdicts");
    let want_verdicts = verdicts_path.is_some();
    let t0 = std::time::Instant::now();
    // panics of the code under test are data; keep them quiet but remember where they happened
    std::panic::set_hook(Box::new(|info| {
        let loc = info.location().map(|l| format!("{}:{}", l.file().rsplit("/.cargo/registry/src/").next().unwrap_or(l.file()), l.line())).unwrap_or_default();
        LAST_PANIC_LOC.with(|l| *l.borrow_mut() = loc);
    }));
    let f = std::fs::File::open(&input).expect("open input");
    let lines: Vec<String> = BufReader::new(f).lines().map(|l| l.unwrap()).filter(|l| !l.trim().is_empty()).collect();
    let nlines = lines.len();
    let agg = Mutex::new(Agg::default());
    let verdicts = Mutex::new(Vec::<(usize, Value)>::new());
    let next = std::sync::atomic::AtomicUsize::new(0);
    std::thread::scope(|sc| {
        for _ in 0..threads.max(1) {
            let (agg, verdicts, next, lines) = (&agg, &verdicts, &next, &lines);
            sc.spawn(move || {
                // honest proof + verifying data: once per worker thread per configuration
                let mut drivers: BTreeMap<String, Option<Box<dyn Driver>>> = BTreeMap::new();
                let mut local = Agg::default();
                let mut vlog = Vec::new();
                loop {
                    let gidx = next.fetch_add(1, std::sync::atomic::Ordering::SeqCst);
                    if gidx >= nlines {
                        break;
                    }
                    let case: Case = match serde_json::from_str(&lines[gidx]) {
                        Ok(c) => c,
                        Err(e) => {
                            *local.totals.entry("bad_lines".into()).or_default() += 1;
                            local.errors.push(format!("bad case line {gidx}: {e}"));
                            continue;
                        }
                    };
                    *local.totals.entry("cases".into()).or_default() += 1;
                    *local.totals.entry(format!("mode:{}", case.mode)).or_default() += 1;
                    let drv = drivers.entry(case.config.clone()).or_insert_with(|| match catch_unwind(AssertUnwindSafe(|| make_driver(&case.config))) {
                        Ok(d) => d,
                        Err(p) => {
                            local.errors.push(format!("config {}: honest set-up panicked: {}", case.config, short(panic_msg(p))));
                            None
                        }
                    });
                    let cv = serde_json::to_value(&case).unwrap();
                    let na = |local: &mut Agg, why: String| {
                        *local.totals.entry("not_applicable".into()).or_default() += 1;
                        *local.totals.entry(format!("{}:not_applicable", case.mode)).or_default() += 1;
                        let e = local.na.entry(why.chars().take(200).collect()).or_insert((0, cv.clone()));
                        e.0 += 1;
                    };
                    let Some(drv) = drv.as_ref() else {
                        na(&mut local, format!("driver: unknown or unavailable config {}", case.config));
                        continue;
                    };
                    let o = match catch_unwind(AssertUnwindSafe(|| drv.run(&case))) {
                        Ok(o) => o,
                        Err(p) => {
                            local.errors.push(format!("case {gidx}: driver panicked outside the code under test: {}", short(panic_msg(p))));
                            *local.totals.entry("driver_panics".into()).or_default() += 1;
                            continue;
                        }
                    };
                    if let Some(why) = o.not_applicable.clone() {
                        na(&mut local, why);
                        continue;
                    }
                    let nv = if o.native.panicked { "native-panics" } else if o.native.ok { "native-accepts" } else { "native-rejects" };
                    let cvd = if o.circuit.panicked { "circuit-panics" } else if o.circuit.build_error { "circuit-build-error" } else if o.circuit.ok { "circuit-satisfied" } else { "circuit-unsatisfied" };
                    let detail = json!({"case": cv, "site": o.site, "native": o.native, "circuit": o.circuit, "problems": o.problems, "info": o.info});
                    let push = |local: &mut Agg, prop: &str, kind: &str, shape: String| {
                        let e = local.groups.entry((prop.to_string(), kind.to_string(), format!("{kind}@{shape}"))).or_insert((0, detail.clone()));
                        e.0 += 1;
                    };
                    match case.mode.as_str() {
                        "fault" => {
                            let el = vstr(case.fault.get("element").unwrap_or(&Value::Null)).replace('_', "-");
                            let pos = vstr(case.fault.get("pos").unwrap_or(&Value::Null));
                            // the position stays in the example; the signature names the configuration and the kind only
                            let _ = &pos;
                            let shape = format!("{}+{}", case.config.replace('_', "-"), el);
                            *local.totals.entry(format!("fault:verdict:{nv}/{cvd}")).or_default() += 1;
                            *local.totals.entry(format!("fault:{el}:{nv}/{cvd}")).or_default() += 1;
                            // the honest statement: refused natively = the set-up is broken (driver error); refused by the circuit
                                // only = a disagreement like any other (reported below)
                            if el == "none" && !o.native.ok {
                                local.errors.push(format!("case {gidx}: honest statement of {} not accepted by both sides: {nv}/{cvd}: {} | {}", case.config, o.native.msg, o.circuit.msg));
                            }
                            if o.native.panicked {
                                push(&mut local, "C01", "native-panics", shape.clone());
                            }
                            if o.circuit.panicked {
                                // no circuit exists, so "satisfied iff accepted" (C01) is not contradicted; a panic while building
                                // from an altered count / degree is what C15 forbids
                                push(&mut local, "C15", "altered-statement-panics", shape.clone());
                            } else if o.circuit.build_error && o.native.ok {
                                push(&mut local, "C01", "circuit-build-error-native-accepts", shape.clone());
                            } else if o.circuit.ok && !o.native.ok && !o.native.panicked {
                                push(&mut local, "C01", "circuit-satisfied-native-rejects", shape.clone());
                            } else if !o.circuit.ok && o.native.ok {
                                push(&mut local, "C01", "circuit-unsatisfied-native-accepts", shape.clone());
                            }
                            let agree = o.native.ok == o.circuit.ok && !o.native.panicked && !o.circuit.panicked;
                            *local.totals.entry(if agree { "fault:agree" } else { "fault:disagree" }.into()).or_default() += 1;
                        }
                        "marker" => {
                            let shape = case.config.replace('_', "-");
                            if o.circuit.panicked || o.circuit.build_error {
                                local.errors.push(format!("case {gidx}: marker: circuit for the honest shape of {} not built: {}", case.config, o.circuit.msg));
                            }
                            *local.totals.entry(if o.problems.is_empty() { "marker:ok" } else { "marker:problems" }.into()).or_default() += 1;
                            let mut kinds: Vec<String> = o.problems.iter().map(|p| format!("{}|{}", vstr(&p["kind"]), vstr(&p["element"]))).collect();
                            kinds.sort();
                            kinds.dedup();
                            for k in kinds {
                                let (kind, el) = k.split_once('|').unwrap();
                                push(&mut local, "C14", kind, format!("{shape}+{}", el.replace('_', "-")));
                            }
                        }
                        "malformed" => {
                            let tg = vstr(case.alter.get("target").unwrap_or(&Value::Null));
                            let op = vstr(case.alter.get("op").unwrap_or(&Value::Null));
                            let shape = format!("{}+{}+{}", case.config.replace('_', "-"), tg.replace('_', "-"), op);
                            let honest_ops = o.info["honest_ops"].as_u64().unwrap_or(0) as usize;
                            let verdict = if o.circuit.panicked {
                                push(&mut local, "C15", "malformed-shape-panics", shape.clone());
                                "panics".to_string()
                            } else if o.circuit.build_error {
                                format!("error-at-{}", o.circuit.stage)
                            } else if tg.starts_with("params.") {
                                // an in-range verifier parameter is not a malformed shape: only panics / errors are of interest (the native
                                // configuration is not re-parameterised here, so the two verdicts are not comparable)
                                format!("params-accepted-{}", if o.circuit.ok { "satisfied" } else { "unsatisfied" })
                            } else {
                                let weaker = o.circuit.ops < honest_ops;
                                let kind = if o.circuit.ok && !o.native.ok { "malformed-shape-accepted-and-satisfied-native-rejects" } else { "malformed-shape-accepted" };
                                push(&mut local, "C15", kind, format!("{shape}+{}", if weaker { "fewer-ops" } else if o.circuit.ops == honest_ops { "same-ops" } else { "more-ops" }));
                                format!("accepted-{}", if o.circuit.ok { "satisfied" } else { "unsatisfied" })
                            };
                            *local.totals.entry(format!("malformed:{verdict}/{nv}")).or_default() += 1;
                        }
                        _ => {}
                    }
                    if want_verdicts {
                        vlog.push((gidx, json!({"idx": gidx, "case": serde_json::to_value(&case).unwrap(), "native": nv, "circuit": cvd, "stage": o.circuit.stage, "ops": o.circuit.ops, "msg": o.circuit.msg, "nmsg": o.native.msg, "site": o.site})));
                    }
                    if case.mode == "marker" || gidx % (nlines / 6).max(1) == 0 {
                        local.samples.push(detail);
                    }
                }
                let mut a = agg.lock().unwrap();
                for (k, (n, d)) in local.groups {
                    a.groups.entry(k).or_insert((0, d)).0 += n;
                }
                for (k, n) in local.totals {
                    *a.totals.entry(k).or_default() += n;
                }
                for (k, (n, d)) in local.na {
                    a.na.entry(k).or_insert((0, d)).0 += n;
                }
                a.samples.extend(local.samples);
                a.errors.extend(local.errors);
                verdicts.lock().unwrap().extend(vlog);
            });
        }
    });
    if let Some(vp) = verdicts_path {
        let mut v = verdicts.lock().unwrap();
        v.sort_by_key(|x| x.0);
        let txt: String = v.iter().map(|x| format!("{}\n", x.1)).collect();
        std::fs::write(vp, txt).unwrap();
    }
    let a = agg.lock().unwrap();
    let findings: Vec<Value> = a.groups.iter().map(|((p, k, s), (n, d))| json!({"property": p, "kind": k, "signature": s, "count": n, "example": d})).collect();
    let na: Vec<Value> = a.na.iter().map(|(k, (n, c))| json!({"reason": k, "count": n, "example": c})).collect();
    let mut stats = serde_json::to_value(&a.totals).unwrap();
    stats["not_applicable_reasons"] = json!(na);
    stats["time_s"] = json!(t0.elapsed().as_secs_f64());
    let result = json!({"stats": stats, "findings": findings, "samples": a.samples, "errors": a.errors});
    std::fs::write(&out, serde_json::to_string_pretty(&result).unwrap()).unwrap();
    0
}
