//! Binding of `spec/PoseidonRows.tla` to the real Poseidon2 circuit AIR in Merkle mode (arity 2: KoalaBear D4 width 16,
//! arity 4: KoalaBear D4 width 32).  One NDJSON case = (arity, position of the running digest, deviation class) with the
//! verdict of the transcribed constraints.  The driver builds a real chain of rows through the public API
//! (`Poseidon2CircuitRow` -> `extract_preprocessed_from_operations` -> `generate_trace_rows`): chain start, a
//! continuation, the row under test at the case's position, another continuation, a second chain start with one
//! continuation, fillers.  A deviation changes the row under test so that ONE relation of the window is violated and every
//! other constraint still holds (later accumulators follow the changed one, siblings are set equal to the digest where
//! the one-hot gates are no longer one-hot); the permutation columns are always those of the row's actual input.
//! Verdict of the code: `check_air_satisfies` on the real AIR.
use std::collections::BTreeMap;
use std::io::{BufRead, BufReader};
use std::panic::{AssertUnwindSafe, catch_unwind};

use p3_circuit::ops::Poseidon2CircuitRow;
use p3_field::PrimeCharacteristicRing;
use p3_field::extension::BinomialExtensionField;
use p3_koala_bear::{KoalaBear, default_koalabear_poseidon1_16, default_koalabear_poseidon2_16, default_koalabear_poseidon2_32};
use p3_poseidon1_circuit_air::{Poseidon1CircuitAirKoalaBearD4Width16, Poseidon1CircuitRow};
use p3_matrix::dense::RowMajorMatrix;
use p3_poseidon2_circuit_air::{
    ARITY4_BIT_X_BIT2_IDX, ARITY4_BIT2_IDX, ARITY4_EXTRA_COLS, KoalaBearD1Width16, KoalaBearD4Width16, KoalaBearD4Width32, Poseidon2CircuitAirKoalaBearD1Width16,
    Poseidon2CircuitAirKoalaBearD4Width16, Poseidon2CircuitAirKoalaBearD4Width32, extract_preprocessed_from_operations,
};
use p3_symmetric::Permutation;
use p3_test_utils::air_satisfaction::check_air_satisfies;
use rand::RngExt;
use rand::rngs::StdRng;
use serde_json::{Value, json};

use crate::pipeline::seeded;

type F = KoalaBear;
type EF = BinomialExtensionField<F, 4>;
const CHUNK: usize = 8; // CAPACITY_EXT * D cells
const HEIGHT: usize = 8;

struct Plan {
    /// per row: (new_start, position, all chunks carry the digest, chunk at the position is NOT the digest)
    rows: Vec<(bool, usize, bool, bool)>,
}

fn filler(w: usize, width_ext: usize, rate_ext: usize) -> Poseidon2CircuitRow<F> {
    Poseidon2CircuitRow {
        new_start: true,
        merkle_path: false,
        mmcs_bit: false,
        mmcs_bit2: false,
        mmcs_index_sum: F::ZERO,
        input_values: F::zero_vec(w),
        in_ctl: vec![false; width_ext],
        input_indices: vec![0; width_ext],
        out_ctl: vec![false; rate_ext],
        output_indices: vec![0; rate_ext],
        mmcs_index_sum_idx: 0,
        mmcs_ctl_enabled: false,
    }
}

/// The op rows of a plan; `permute` is the native permutation of the configuration.
fn op_rows(plan: &Plan, arity: usize, permute: &dyn Fn(&[F]) -> Vec<F>, rng: &mut StdRng) -> Vec<Poseidon2CircuitRow<F>> {
    let w = CHUNK * arity;
    let (width_ext, rate_ext) = if arity == 4 { (8, 6) } else { (4, 2) };
    let mut out = Vec::new();
    let mut digest: Vec<F> = vec![F::ZERO; CHUNK];
    for &(ns, pos, all_digest, wrong) in &plan.rows {
        let mut input: Vec<F> = (0..w).map(|_| F::from_u64(rng.random::<u64>() >> 1)).collect();
        if !ns {
            for k in 0..arity {
                if (k == pos && !wrong) || all_digest {
                    input[k * CHUNK..(k + 1) * CHUNK].copy_from_slice(&digest);
                }
            }
        }
        let o = permute(&input);
        digest = o[..CHUNK].to_vec();
        out.push(Poseidon2CircuitRow { new_start: ns, merkle_path: true, mmcs_bit: !ns && pos & 1 == 1, mmcs_bit2: !ns && pos & 2 == 2, input_values: input, ..filler(w, width_ext, rate_ext) });
    }
    out.resize(HEIGHT, filler(w, width_ext, rate_ext));
    out
}

fn build(arity: usize, variant: &str, rows: &[Poseidon2CircuitRow<F>]) -> Result<(RowMajorMatrix<F>, Box<dyn Fn(&RowMajorMatrix<F>) -> Result<(), String>>), String> {
    let short = |(r, e): (usize, String)| format!("row {r}: {}", e.chars().take(160).collect::<String>());
    if arity == 4 {
        let constants = KoalaBearD4Width32::round_constants();
        let prep = extract_preprocessed_from_operations::<8, 6, F, F>(rows, 4, 4);
        let air = Poseidon2CircuitAirKoalaBearD4Width32::new_with_preprocessed(constants.clone(), prep);
        let m = air.generate_trace_rows(rows, &constants, 0);
        Ok((m, Box::new(move |t| check_air_satisfies::<F, EF, _>(&air, t, &[]).map_err(short))))
    } else if variant == "p2d1" {
        // compact D = 1 layout: 16 one-element limbs, rate 8
        let rows: Vec<Poseidon2CircuitRow<F>> = rows
            .iter()
            .map(|r| if r.in_ctl.len() == 16 { r.clone() } else { Poseidon2CircuitRow { in_ctl: vec![false; 16], input_indices: vec![0; 16], out_ctl: vec![false; 8], output_indices: vec![0; 8], ..r.clone() } })
            .collect();
        let constants = KoalaBearD1Width16::round_constants();
        let prep = extract_preprocessed_from_operations::<16, 8, F, F>(&rows, 1, 1);
        let air = Poseidon2CircuitAirKoalaBearD1Width16::new_with_preprocessed(constants.clone(), prep);
        let m = air.generate_trace_rows(&rows, &constants, 0);
        Ok((m, Box::new(move |t| check_air_satisfies::<F, EF, _>(&air, t, &[]).map_err(short))))
    } else if variant == "p1d1" {
        let rows: Vec<Poseidon1CircuitRow<F>> = rows
            .iter()
            .map(|r| Poseidon1CircuitRow { new_start: r.new_start, merkle_path: r.merkle_path, mmcs_bit: r.mmcs_bit, mmcs_index_sum: r.mmcs_index_sum, input_values: r.input_values.clone(),
                in_ctl: r.in_ctl.clone(), input_indices: r.input_indices.clone(), out_ctl: r.out_ctl.clone(), output_indices: r.output_indices.clone(), mmcs_index_sum_idx: r.mmcs_index_sum_idx, mmcs_ctl_enabled: r.mmcs_ctl_enabled })
            .collect();
        let (full, partial) = p3_poseidon1_circuit_air::KoalaBearD1Width16::round_constants();
        let prep = p3_poseidon1_circuit_air::extract_preprocessed_from_operations::<16, 8, F, F>(&rows, 1, 1);
        let air = p3_poseidon1_circuit_air::Poseidon1CircuitAirKoalaBearD1Width16::new_with_preprocessed(full.clone(), partial.clone(), prep);
        let m = air.generate_trace_rows(&rows, &full, &partial, 0);
        Ok((m, Box::new(move |t| check_air_satisfies::<F, EF, _>(&air, t, &[]).map_err(short))))
    } else if variant == "p1d4" {
        let rows: Vec<Poseidon1CircuitRow<F>> = rows
            .iter()
            .map(|r| Poseidon1CircuitRow { new_start: r.new_start, merkle_path: r.merkle_path, mmcs_bit: r.mmcs_bit, mmcs_index_sum: r.mmcs_index_sum, input_values: r.input_values.clone(),
                in_ctl: r.in_ctl.clone(), input_indices: r.input_indices.clone(), out_ctl: r.out_ctl.clone(), output_indices: r.output_indices.clone(), mmcs_index_sum_idx: r.mmcs_index_sum_idx, mmcs_ctl_enabled: r.mmcs_ctl_enabled })
            .collect();
        let (full, partial) = p3_poseidon1_circuit_air::KoalaBearD4Width16::round_constants();
        let prep = p3_poseidon1_circuit_air::extract_preprocessed_from_operations::<4, 2, F, F>(&rows, 4, 4);
        let air = Poseidon1CircuitAirKoalaBearD4Width16::new_with_preprocessed(full.clone(), partial.clone(), prep);
        let m = air.generate_trace_rows(&rows, &full, &partial, 0);
        Ok((m, Box::new(move |t| check_air_satisfies::<F, EF, _>(&air, t, &[]).map_err(short))))
    } else {
        let constants = KoalaBearD4Width16::round_constants();
        let prep = extract_preprocessed_from_operations::<4, 2, F, F>(rows, 4, 4);
        let air = Poseidon2CircuitAirKoalaBearD4Width16::new_with_preprocessed(constants.clone(), prep);
        let m = air.generate_trace_rows(rows, &constants, 0);
        Ok((m, Box::new(move |t| check_air_satisfies::<F, EF, _>(&air, t, &[]).map_err(short))))
    }
}

/// (bit, bit2, prod, sum) column offsets inside a row of width `w`; bit2 / prod are `None` for arity 2.
fn cols(arity: usize, w: usize) -> (usize, Option<usize>, Option<usize>, usize) {
    if arity == 4 {
        let base = w - (2 + ARITY4_EXTRA_COLS);
        (base, Some(base + 1 + ARITY4_BIT2_IDX), Some(base + 1 + ARITY4_BIT_X_BIT2_IDX), base + 1 + ARITY4_EXTRA_COLS)
    } else {
        (w - 2, None, None, w - 1)
    }
}

/// Ok(None) = accepted, Ok(Some(msg)) = rejected
pub fn run_case(arity: usize, variant: &str, pos: usize, dev: &str, rng: &mut StdRng) -> Result<Option<String>, String> {
    const T: usize = 2; // the row under test
    let all_digest = matches!(dev, "bit-2" | "bit2-2" | "prod");
    let plan = Plan {
        rows: vec![(true, 0, false, false), (false, (pos + 1) % arity, false, false), (false, pos, all_digest, dev == "digest-chunk"), (false, 0, false, false), (true, 0, false, false), (false, (pos + 2) % arity, false, false)],
    };
    let p16 = default_koalabear_poseidon2_16();
    let p32 = default_koalabear_poseidon2_32();
    let q16 = default_koalabear_poseidon1_16();
    let permute: Box<dyn Fn(&[F]) -> Vec<F>> = if variant == "p1d4" {
        Box::new(move |x: &[F]| {
            let a: [F; 16] = x.try_into().unwrap();
            q16.permute(a).to_vec()
        })
    } else if arity == 4 {
        Box::new(move |x: &[F]| {
            let a: [F; 32] = x.try_into().unwrap();
            p32.permute(a).to_vec()
        })
    } else {
        Box::new(move |x: &[F]| {
            let a: [F; 16] = x.try_into().unwrap();
            p16.permute(a).to_vec()
        })
    };
    let rows = op_rows(&plan, arity, &*permute, rng);
    let (mut m, verdict) = build(arity, variant, &rows)?;
    let w = m.width;
    let (cb, cb2, cp, cs) = cols(arity, w);
    let a = F::from_u64(arity as u64);
    let get = |m: &RowMajorMatrix<F>, r: usize, c: usize| m.values[r * w + c];
    // follow-up accumulators of the chain of rows [from ..= to] after row `from` changed
    let follow = |m: &mut RowMajorMatrix<F>, from: usize, to: usize| {
        for r in from + 1..=to {
            let prev = m.values[(r - 1) * w + cs];
            let b = m.values[r * w + cb];
            let b2 = cb2.map_or(F::ZERO, |c| m.values[r * w + c]);
            m.values[r * w + cs] = a * prev + b + b2.double();
        }
    };
    match dev {
        "none" | "digest-chunk" => {}
        "sum" => {
            m.values[T * w + cs] += F::ONE;
            follow(&mut m, T, 3);
        }
        "bit-2" => {
            m.values[T * w + cb] = F::TWO;
            if let (Some(c2), Some(cpr)) = (cb2, cp) {
                m.values[T * w + cpr] = F::TWO * get(&m, T, c2);
            }
            follow(&mut m, T - 1, 3);
        }
        "bit2-2" => {
            let (c2, cpr) = (cb2.ok_or("no high bit in arity 2")?, cp.unwrap());
            m.values[T * w + c2] = F::TWO;
            m.values[T * w + cpr] = F::TWO * get(&m, T, cb);
            follow(&mut m, T - 1, 3);
        }
        "prod" => {
            let cpr = cp.ok_or("no product column in arity 2")?;
            m.values[T * w + cpr] += F::ONE;
        }
        "start-sum" => {
            m.values[4 * w + cs] = F::TWO;
            follow(&mut m, 4, 5);
        }
        other => return Err(format!("unknown deviation {other}")),
    }
    Ok(verdict(&m).err())
}


/// Sponge mode (PoseidonSponge.tla): chain start, a continuation (the row under test for the limb deviations), a continuation
/// that loads limb 0 from the bus, a second chain start, a continuation, fillers.  Ok(None) = accepted.
pub fn run_sponge_case(variant: &str, dev: &str, rng: &mut StdRng) -> Result<Option<String>, String> {
    let compact = matches!(variant, "p2d1" | "p1d1");
    let (width_ext, rate_ext) = if compact { (16usize, 8usize) } else { (4, 2) };
    let d = 16 / width_ext;
    let p2 = default_koalabear_poseidon2_16();
    let p1 = default_koalabear_poseidon1_16();
    let pone = variant.starts_with("p1");
    let permute = |x: &[F]| -> Vec<F> {
        let a: [F; 16] = x.try_into().unwrap();
        if pone { p1.permute(a).to_vec() } else { p2.permute(a).to_vec() }
    };
    let rnd = |rng: &mut StdRng| F::from_u64(rng.random::<u64>() >> 1);
    let mut rows: Vec<Poseidon2CircuitRow<F>> = Vec::new();
    let mut out: Vec<F> = vec![F::ZERO; 16];
    // (new_start, limb 0 loaded from the bus)
    for (r, &(ns, ctl0)) in [(true, false), (false, false), (false, true), (true, false), (false, false)].iter().enumerate() {
        let mut input: Vec<F> = if ns { (0..16).map(|i| if i < 8 { rnd(rng) } else { F::ZERO }).collect() } else { out.clone() };
        if ctl0 {
            for c in 0..d {
                input[c] = rnd(rng);
            }
        }
        match (dev, r) {
            ("rate-limb", 1) => input[(rate_ext - 1) * d] += F::ONE,
            ("capacity-limb-first", 1) => input[8] += F::ONE,
            ("capacity-limb-last", 1) => input[15] += F::ONE,
            ("ctl-limb", 2) => input[0] += F::ONE,
            ("start-capacity", 3) => input[15] = F::TWO,
            // row 0 of the table: only the cyclic wrap-around window (last row, row 0) looks at it
            ("first-row-start-capacity", 0) => input[15] = F::TWO,
            _ => {}
        }
        out = permute(&input);
        let mut in_ctl = vec![false; width_ext];
        in_ctl[0] = ctl0;
        rows.push(Poseidon2CircuitRow { new_start: ns, merkle_path: false, input_values: input, in_ctl, ..filler(16, width_ext, rate_ext) });
    }
    rows.resize(HEIGHT, filler(16, width_ext, rate_ext));
    let (m, verdict) = build(2, variant, &rows)?;
    Ok(verdict(&m).err())
}

/// `p3r poseidon-rows --cases <ndjson> [--seed n]`: result JSON on stdout.
pub fn cmd(args: &[String]) -> i32 {
    let arg = |name: &str| args.iter().position(|a| a == name).and_then(|i| args.get(i + 1).cloned());
    let Some(cases) = arg("--cases") else { return 2 };
    let seed: u64 = arg("--seed").and_then(|s| s.parse().ok()).unwrap_or(1);
    let reps: u64 = arg("--reps").and_then(|s| s.parse().ok()).unwrap_or(2);
    let mut groups: BTreeMap<(String, String), (u64, Value)> = BTreeMap::new();
    let mut stats: BTreeMap<String, u64> = BTreeMap::new();
    let mut errors: Vec<String> = Vec::new();
    let mut drift: Vec<Value> = Vec::new();
    for (i, l) in BufReader::new(std::fs::File::open(cases).expect("cases")).lines().map(|l| l.unwrap()).filter(|l| !l.trim().is_empty()).enumerate() {
        let c: Value = serde_json::from_str(&l).expect("case");
        if c["spec"] == "PoseidonSponge" {
            let (layout, dev) = (c["layout"].as_str().unwrap(), c["dev"].as_str().unwrap().to_string());
            let (model_accepts, in_relation) = (c["model_accepts"].as_bool().unwrap(), c["in_relation"].as_bool().unwrap());
            let variants: &[&str] = if layout == "compact" { &["p2d1", "p1d1"] } else { &["p2d4", "p1d4"] };
            for (vi, variant) in variants.iter().enumerate() {
                let vname = match *variant { "p2d1" => "poseidon2-d1-compact", "p1d1" => "poseidon1-d1-compact", "p1d4" => "poseidon1", _ => "poseidon2" };
                for rep in 0..reps {
                    let mut rng = seeded(seed, 7_000_000 + i as u64 * 100 + rep + 1000 * vi as u64);
                    let r = catch_unwind(AssertUnwindSafe(|| run_sponge_case(variant, &dev, &mut rng))).unwrap_or_else(|_| Err("panic".into()));
                    *stats.entry("cases".into()).or_default() += 1;
                    match r {
                        Err(e) => errors.push(format!("{e}: {c}")),
                        Ok(v) => {
                            let accepted = v.is_none();
                            *stats.entry(if accepted { "accepted".into() } else { "rejected".into() }).or_default() += 1;
                            if accepted != model_accepts {
                                *stats.entry("model_drift".into()).or_default() += 1;
                                if drift.len() < 5 {
                                    drift.push(json!({"case": c, "variant": vname, "code_accepts": accepted, "code": v}));
                                }
                            }
                            if accepted && !in_relation {
                                let e = groups.entry(("invalid-row-accepted".into(), format!("sponge+{dev}+{vname}"))).or_insert((0, json!({"case": c, "code": "accepted", "expected": "rejected"})));
                                e.0 += 1;
                            } else if !accepted && in_relation {
                                let e = groups.entry(("honest-row-rejected".into(), format!("sponge+{dev}+{vname}"))).or_insert((0, json!({"case": c, "code": v, "expected": "accepted"})));
                                e.0 += 1;
                            }
                        }
                    }
                }
            }
            continue;
        }
        let (arity, pos, dev) = (c["arity"].as_u64().unwrap() as usize, c["pos"].as_u64().unwrap() as usize, c["dev"].as_str().unwrap().to_string());
        let (model_accepts, in_relation) = (c["model_accepts"].as_bool().unwrap(), c["in_relation"].as_bool().unwrap());
        let variants: &[&str] = if arity == 4 { &["p2d4"] } else { &["p2d4", "p2d1", "p1d4"] };
        for (vi, variant) in variants.iter().enumerate() {
        let vname = match *variant { "p2d1" => "poseidon2-d1-compact", "p1d4" => "poseidon1", _ => "poseidon2" };
        for rep in 0..reps {
            let mut rng = seeded(seed, i as u64 * 100 + rep + 1000 * vi as u64);
            let r = catch_unwind(AssertUnwindSafe(|| run_case(arity, variant, pos, &dev, &mut rng))).unwrap_or_else(|_| Err("panic".into()));
            *stats.entry("cases".into()).or_default() += 1;
            match r {
                Err(e) => errors.push(format!("{e}: {c}")),
                Ok(v) => {
                    let accepted = v.is_none();
                    *stats.entry(if accepted { "accepted".into() } else { "rejected".into() }).or_default() += 1;
                    if accepted != model_accepts && drift.len() < 5 {
                        drift.push(json!({"case": c, "code_accepts": accepted}));
                    }
                    if accepted != model_accepts {
                        *stats.entry("model_drift".into()).or_default() += 1;
                    }
                    if accepted && !in_relation {
                        let shape = if dev == "start-sum" { format!("arity{arity}+chain-start-accumulator+{vname}") } else { format!("arity{arity}+{dev}+position{pos}+{vname}") };
                        let e = groups.entry(("invalid-row-accepted".into(), shape)).or_insert((0, json!({"case": c, "code": "accepted", "expected": "rejected"})));
                        e.0 += 1;
                    } else if !accepted && in_relation {
                        let e = groups.entry(("honest-row-rejected".into(), format!("arity{arity}+position{pos}+{vname}"))).or_insert((0, json!({"case": c, "code": v, "expected": "accepted"})));
                        e.0 += 1;
                    }
                }
            }
        }
        }
    }
    let findings: Vec<Value> = groups.into_iter().map(|((k, s), (n, d))| json!({"property": "C11", "kind": k, "signature": if s.starts_with("sponge") { format!("{k}@poseidon-row+{s}") } else { format!("{k}@poseidon-merkle-row+{s}") }, "count": n, "example": d})).collect();
    println!("{}", serde_json::to_string_pretty(&json!({"stats": stats, "findings": findings, "model_drift_examples": drift, "errors": errors, "samples": []})).unwrap());
    0
}
