pub mod linalg;
pub mod oracle;
pub mod pipeline;
pub mod challenger;
