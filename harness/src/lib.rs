pub mod linalg;
pub mod oracle;
pub mod pipeline;
pub mod challenger;
pub mod forge;
pub mod scenarios;
