//! Binding of `spec/Whir.tla` to the real in-circuit WHIR verifier (`p3_recursion::pcs::whir::verify_whir_circuit`) in the
//! arithmetic-only, replayed-transcript mode of the repository's own WHIR tests (configuration `mmcs = FALSE, pow = FALSE,
//! fs = FALSE` of the model): a real `p3-whir` proof is produced, the native Fiat-Shamir transcript is replayed to obtain
//! the challenges, the verification circuit is built with a recording challenger fed with those challenges, and then
//!   * the honest inputs must satisfy the circuit,
//!   * EVERY position of the public / private input vectors is changed by +1: the circuit must become unsatisfiable unless
//!     the model says the element's kind is inert in this mode (commitment placeholders, proof-of-work witnesses),
//!   * the sequence of challenger calls the circuit construction made is written out for comparison with the script of
//!     the model (`MC_Whir` `ScriptOf`).
use std::collections::{BTreeMap, VecDeque};
use std::panic::{AssertUnwindSafe, catch_unwind};

use p3_baby_bear::{BabyBear, Poseidon2BabyBear, default_babybear_poseidon2_16};
use p3_challenger::{CanObserve, CanSample, CanSampleUniformBits, DuplexChallenger, FieldChallenger};
use p3_circuit::{CircuitBuilder, CircuitBuilderError};
use p3_commit::MultilinearPcs;
use p3_dft::Radix2DFTSmallBatch;
use p3_field::extension::BinomialExtensionField;
use p3_field::{Field, PrimeCharacteristicRing};
use p3_merkle_tree::MerkleTreeMmcs;
use p3_multilinear_util::poly::Poly;
use p3_recursion::Target;
use p3_recursion::pcs::whir::{ConstraintWeightData, WhirProofTargets, WhirVerifierParams, verify_whir_circuit};
use p3_recursion::traits::RecursiveChallenger;
use p3_sumcheck::layout::{Layout, PrefixProver, Table, Verifier};
use p3_sumcheck::{OpeningProtocol, TableShape, TableSpec};
use p3_symmetric::{PaddingFreeSponge, TruncatedPermutation};
use p3_util::log2_strict_usize;
use p3_whir::fiat_shamir::domain_separator::DomainSeparator;
use p3_whir::parameters::{FoldingFactor, ProtocolParameters, SecurityAssumption, WhirConfig};
use p3_whir::pcs::proof::QueryOpening;
use p3_whir::pcs::prover::WhirProver;
use rand::SeedableRng;
use rand::rngs::SmallRng;
use serde_json::{Value, json};

type BF = BabyBear;
type EF = BinomialExtensionField<BF, 4>;
type Perm = Poseidon2BabyBear<16>;
type MyHash = PaddingFreeSponge<Perm, 16, 8, 8>;
type MyCompress = TruncatedPermutation<Perm, 2, 8, 16>;
type PackedBF = <BF as Field>::Packing;
type MyMmcs = MerkleTreeMmcs<PackedBF, PackedBF, MyHash, MyCompress, 2, 8>;
type MyDft = Radix2DFTSmallBatch<BF>;
type MyChallenger = DuplexChallenger<BF, Perm, 16, 8>;
type TestPcs = WhirProver<EF, BF, MyDft, MyMmcs, MyChallenger, PrefixProver<BF, EF>>;

/// Replays recorded challenges and logs every call the verifier makes.
struct RecordingChallenger {
    ext_samples: VecDeque<EF>,
    base_samples: VecDeque<BF>,
    log: Vec<&'static str>,
}
impl RecursiveChallenger<BF, EF> for RecordingChallenger {
    fn observe(&mut self, _: &mut CircuitBuilder<EF>, _: Target) {
        self.log.push("observe");
    }
    fn observe_ext(&mut self, _: &mut CircuitBuilder<EF>, _: Target) {
        self.log.push("observe");
    }
    fn sample(&mut self, circuit: &mut CircuitBuilder<EF>) -> Target {
        self.log.push("sample");
        let v = self.base_samples.pop_front().expect("base exhausted");
        circuit.define_const(EF::from(v))
    }
    fn sample_ext(&mut self, circuit: &mut CircuitBuilder<EF>) -> Target {
        self.log.push("sample_ext");
        let v = self.ext_samples.pop_front().expect("ext exhausted");
        circuit.define_const(v)
    }
    fn sample_bits(&mut self, circuit: &mut CircuitBuilder<EF>, k: usize) -> Result<Vec<Target>, CircuitBuilderError> {
        self.log.push("sample_bits");
        let raw = self.base_samples.pop_front().expect("base exhausted");
        let raw_target = circuit.define_const(EF::from(raw));
        let bits = circuit.decompose_to_bits::<BF>(raw_target, BF::bits())?;
        Ok(bits[..k].to_vec())
    }
    fn check_pow_witness(&mut self, _: &mut CircuitBuilder<EF>, _: usize, _: Target) -> Result<(), CircuitBuilderError> {
        self.log.push("check_pow");
        Ok(())
    }
    fn clear(&mut self, _: &mut CircuitBuilder<EF>) {}
}

fn sample_stir_indices(vc: &mut MyChallenger, domain_size: usize, folding_factor: usize, num_queries: usize) -> Vec<usize> {
    let folded = domain_size >> folding_factor;
    let k = log2_strict_usize(folded);
    let target = num_queries.min(folded);
    let mut indices: Vec<usize> = Vec::new();
    while indices.len() < target {
        let q = vc.sample_uniform_bits::<true>(k).expect("sample_uniform_bits");
        if !indices.contains(&q) {
            indices.push(q);
        }
    }
    indices.sort_unstable();
    indices
}

pub struct Outcome {
    pub rounds: usize,
    pub honest_ok: bool,
    /// kind -> (positions, positions whose change was refused)
    pub per_kind: BTreeMap<&'static str, (u64, u64)>,
    pub accepted_examples: Vec<Value>,
    pub calls: Vec<&'static str>,
    pub shape: Value,
}

pub fn run(num_vars: usize, folding: usize, rates: Vec<usize>, seed: u64) -> Result<Outcome, String> {
    let rounds = rates.len();
    let perm = default_babybear_poseidon2_16();
    let mk_ch = || MyChallenger::new(default_babybear_poseidon2_16());
    let mmcs = MyMmcs::new(MyHash::new(perm.clone()), MyCompress::new(perm), 0);
    let spec = TableSpec::new(TableShape::new(num_vars, 1), vec![vec![0]]);
    let protocol = OpeningProtocol::new(vec![spec]).pad_to_min_num_variables(folding);
    let poly = Poly::<BF>::rand(&mut SmallRng::seed_from_u64(seed), num_vars);
    let witness = PrefixProver::<BF, EF>::new_witness(vec![Table::new(vec![poly])], folding);
    let whir_params = ProtocolParameters {
        security_level: 32,
        pow_bits: 0,
        round_log_inv_rates: rates,
        folding_factor: FoldingFactor::Constant(folding),
        soundness_type: SecurityAssumption::CapacityBound,
        starting_log_inv_rate: 1,
    };
    let config = WhirConfig::<EF, BF, MyChallenger>::new(num_vars, whir_params).map_err(|e| format!("config: {e:?}"))?;
    let pcs = TestPcs::new(config.clone(), MyDft::default(), mmcs);
    let (commitment, proof) = {
        let mut ch = mk_ch();
        let mut ds = DomainSeparator::new(vec![]);
        pcs.add_domain_separator::<8>(&mut ds);
        ds.observe_domain_separator(&mut ch);
        let (commitment, prover_data) = <TestPcs as MultilinearPcs<EF, MyChallenger>>::commit(&pcs, witness, &mut ch);
        let proof = <TestPcs as MultilinearPcs<EF, MyChallenger>>::open(&pcs, prover_data, protocol.clone(), &mut ch);
        (commitment, proof)
    };
    // the native verifier accepts the honest proof
    {
        let mut ch = mk_ch();
        let mut ds = DomainSeparator::new(vec![]);
        pcs.add_domain_separator::<8>(&mut ds);
        ds.observe_domain_separator(&mut ch);
        <TestPcs as MultilinearPcs<EF, MyChallenger>>::verify(&pcs, &commitment, &proof, &mut ch, protocol.clone()).map_err(|e| format!("native verifier refuses the honest proof: {e:?}"))?;
    }
    let (initial_constraint, initial_claimed_eval, mut vc) = {
        let mut ch = mk_ch();
        let mut ds = DomainSeparator::new(vec![]);
        pcs.add_domain_separator::<8>(&mut ds);
        ds.observe_domain_separator(&mut ch);
        ch.observe(commitment.clone());
        let mut lv = Verifier::<BF, EF>::new(&protocol.table_shapes(), PrefixProver::<BF, EF>::strategy());
        for &eval in &proof.whir.initial_ood_answers {
            lv.add_virtual_eval(eval, &mut ch);
        }
        for ((table_idx, polys), evals) in protocol.iter_openings().zip(&proof.evals) {
            lv.add_claim(table_idx, polys, evals, &mut ch);
        }
        let alpha: EF = ch.sample_algebra_element();
        let constraint = lv.constraint(alpha);
        let mut claimed_eval = EF::ZERO;
        constraint.combine_evals(&mut claimed_eval);
        (constraint, claimed_eval, ch)
    };
    // native transcript replay
    let mut ext_samples: Vec<EF> = Vec::new();
    let mut base_samples: Vec<BF> = Vec::new();
    for &[c0, cinf] in proof.whir.initial_sumcheck.polynomial_evaluations() {
        vc.observe_algebra_element(c0);
        vc.observe_algebra_element(cinf);
        ext_samples.push(vc.sample_algebra_element());
    }
    for (rproof, rp) in proof.whir.rounds.iter().zip(&config.round_parameters) {
        vc.observe(rproof.commitment.as_ref().ok_or("round commitment")?.clone());
        for &answer in &rproof.ood_answers {
            ext_samples.push(vc.sample_algebra_element());
            vc.observe_algebra_element(answer);
        }
        let checkpoint: BF = CanSample::sample(&mut vc);
        base_samples.push(checkpoint);
        for &idx in &sample_stir_indices(&mut vc, rp.domain_size, rp.folding_factor, rp.num_queries) {
            base_samples.push(BF::from_u64(idx as u64));
        }
        ext_samples.push(vc.sample_algebra_element());
        for &[c0, cinf] in rproof.sumcheck.polynomial_evaluations() {
            vc.observe_algebra_element(c0);
            vc.observe_algebra_element(cinf);
            ext_samples.push(vc.sample_algebra_element());
        }
    }
    {
        let fp = proof.whir.final_poly.as_ref().ok_or("final_poly")?;
        vc.observe_algebra_slice(fp.as_slice());
        let fin_rc = config.final_round_config();
        for &idx in &sample_stir_indices(&mut vc, fin_rc.domain_size, fin_rc.folding_factor, config.final_queries) {
            base_samples.push(BF::from_u64(idx as u64));
        }
        if let Some(ref fsc) = proof.whir.final_sumcheck {
            for &[c0, cinf] in fsc.polynomial_evaluations() {
                vc.observe_algebra_element(c0);
                vc.observe_algebra_element(cinf);
                ext_samples.push(vc.sample_algebra_element());
            }
        }
    }
    let vp = WhirVerifierParams::<BF>::unsafe_arithmetic_only_for_tests::<EF, MyChallenger>(&config, PrefixProver::<BF, EF>::variable_order(), p3_circuit::ops::Poseidon2Config::BABY_BEAR_D4_W16);
    let mut circuit = CircuitBuilder::<EF>::new();
    let proof_targets = WhirProofTargets::alloc::<BF, EF>(&mut circuit, &vp, 1, 1);
    let initial_cap: Vec<Vec<Target>> = vec![vec![circuit.define_const(EF::ZERO)]];
    let gamma_target = circuit.define_const(initial_constraint.challenge);
    let eq_points: Vec<Vec<Target>> = initial_constraint.eq_statement.points.iter().map(|pt| pt.as_slice().iter().map(|&e| circuit.define_const(e)).collect()).collect();
    let circuit_constraint = ConstraintWeightData { num_variables: initial_constraint.eq_statement.num_variables(), eq_points, sel_scalars: vec![], gamma: gamma_target };
    let initial_claimed_eval_target = circuit.define_const(initial_claimed_eval);
    let mut mock = RecordingChallenger { ext_samples: ext_samples.into_iter().collect(), base_samples: base_samples.into_iter().collect(), log: Vec::new() };
    verify_whir_circuit::<BF, EF, RecordingChallenger>(&mut circuit, &mut mock, &vp, &proof_targets, &initial_cap, circuit_constraint, initial_claimed_eval_target).map_err(|e| format!("verify_whir_circuit: {e:?}"))?;
    if !mock.ext_samples.is_empty() || !mock.base_samples.is_empty() {
        return Err(format!("transcript replay disagrees with the circuit: {} extension / {} base challenges left over", mock.ext_samples.len(), mock.base_samples.len()));
    }
    let circuit = circuit.build().map_err(|e| format!("build: {e:?}"))?;

    // inputs, each tagged with its kind
    let mut public: Vec<(EF, &'static str)> = Vec::new();
    for &v in &proof.whir.initial_ood_answers {
        public.push((v, "initial_ood_answer"));
    }
    for &[c0, cinf] in proof.whir.initial_sumcheck.polynomial_evaluations() {
        public.push((c0, "initial_sumcheck_poly"));
        public.push((cinf, "initial_sumcheck_poly"));
    }
    for r in &proof.whir.rounds {
        public.push((EF::ZERO, "round_commitment_word"));
        for &v in &r.ood_answers {
            public.push((v, "ood_answer"));
        }
        public.push((EF::from(r.pow_witness), "round_pow_witness"));
        for &[c0, cinf] in r.sumcheck.polynomial_evaluations() {
            public.push((c0, "round_sumcheck_poly"));
            public.push((cinf, "round_sumcheck_poly"));
        }
    }
    for &v in proof.whir.final_poly.as_ref().unwrap().as_slice() {
        public.push((v, "final_poly_coeff"));
    }
    public.push((EF::from(proof.whir.final_pow_witness), "final_pow_witness"));
    if let Some(ref fsc) = proof.whir.final_sumcheck {
        for &[c0, cinf] in fsc.polynomial_evaluations() {
            public.push((c0, "final_sumcheck_poly"));
            public.push((cinf, "final_sumcheck_poly"));
        }
    }
    let mut private: Vec<(EF, &'static str)> = Vec::new();
    let mut push_q = |q: &QueryOpening<BF, EF, _>, kind: &'static str, private: &mut Vec<(EF, &'static str)>| match q {
        QueryOpening::Base { values, .. } => values.iter().for_each(|&v| private.push((EF::from(v), kind))),
        QueryOpening::Extension { values, .. } => values.iter().for_each(|&v| private.push((v, kind))),
    };
    for r in &proof.whir.rounds {
        for q in &r.queries {
            push_q(q, "query_leaf_value", &mut private);
        }
    }
    for q in &proof.whir.final_queries {
        push_q(q, "final_query_leaf_value", &mut private);
    }
    let exec = |pubs: &[EF], privs: &[EF]| -> bool {
        catch_unwind(AssertUnwindSafe(|| {
            let mut runner = circuit.runner();
            runner.set_public_inputs(pubs).is_ok() && runner.set_private_inputs(privs).is_ok() && runner.run().is_ok()
        }))
        .unwrap_or(false)
    };
    let pubs: Vec<EF> = public.iter().map(|x| x.0).collect();
    let privs: Vec<EF> = private.iter().map(|x| x.0).collect();
    let honest_ok = exec(&pubs, &privs);
    let mut per_kind: BTreeMap<&'static str, (u64, u64)> = BTreeMap::new();
    let mut accepted_examples = Vec::new();
    for (i, (_, kind)) in public.iter().enumerate() {
        let mut p2 = pubs.clone();
        p2[i] += EF::ONE;
        let refused = !exec(&p2, &privs);
        let e = per_kind.entry(kind).or_default();
        e.0 += 1;
        e.1 += u64::from(refused);
        if !refused && accepted_examples.len() < 40 {
            accepted_examples.push(json!({"input": "public", "position": i, "kind": kind}));
        }
    }
    for (i, (_, kind)) in private.iter().enumerate() {
        let mut p2 = privs.clone();
        p2[i] += EF::ONE;
        let refused = !exec(&pubs, &p2);
        let e = per_kind.entry(kind).or_default();
        e.0 += 1;
        e.1 += u64::from(refused);
        if !refused && accepted_examples.len() < 40 {
            accepted_examples.push(json!({"input": "private", "position": i, "kind": kind}));
        }
    }
    let shape = json!({"num_variables": num_vars, "folding": folding, "rounds": rounds, "public_inputs": pubs.len(), "private_inputs": privs.len(),
        "ood_per_round": proof.whir.rounds.iter().map(|r| r.ood_answers.len()).collect::<Vec<_>>(), "queries_per_round": proof.whir.rounds.iter().map(|r| r.queries.len()).collect::<Vec<_>>(),
        "final_queries": proof.whir.final_queries.len(), "final_sumcheck": proof.whir.final_sumcheck.is_some(), "final_sumcheck_rounds": config.final_sumcheck_rounds, "ops": circuit.ops.len()});
    Ok(Outcome { rounds, honest_ok, per_kind, accepted_examples, calls: mock.log, shape })
}

/// `p3r whir [--seed n] [--thorough]`: one JSON object per configuration on stdout.
pub fn cmd(args: &[String]) -> i32 {
    let arg = |name: &str| args.iter().position(|a| a == name).and_then(|i| args.get(i + 1).cloned());
    let seed: u64 = arg("--seed").and_then(|s| s.parse().ok()).unwrap_or(1);
    let thorough = args.iter().any(|a| a == "--thorough");
    // (14, 3): the number of variables is NOT a multiple of the folding factor (final sumcheck over 5 variables)
    let mut cfgs: Vec<(usize, usize, Vec<usize>)> = vec![(12, 4, vec![4]), (16, 4, vec![4, 4]), (14, 3, vec![3, 3])];
    if thorough {
        cfgs.push((20, 4, vec![4, 4, 4]));
    }
    for (nv, fold, rates) in cfgs {
        let r = catch_unwind(AssertUnwindSafe(|| run(nv, fold, rates.clone(), 40 + seed))).unwrap_or_else(|_| Err("panic".into()));
        match r {
            Ok(o) => println!("{}", json!({"config": o.shape, "rounds": o.rounds, "honest_accepted": o.honest_ok,
                "per_kind": o.per_kind.iter().map(|(k, v)| (k.to_string(), json!({"positions": v.0, "refused": v.1}))).collect::<BTreeMap<_, _>>(),
                "accepted_examples": o.accepted_examples, "calls": o.calls})),
            Err(e) => println!("{}", json!({"config": {"num_variables": nv, "folding": fold, "rates": rates}, "error": e})),
        }
    }
    0
}
