//! Reference semantics of builder programs, shared between GF(p_model) (where its output is
//! compared with what TLC printed) and the real fields (where it is the oracle for the code).
use serde::{Deserialize, Serialize};

/// Minimal field interface the oracle needs.
pub trait Fld: Copy + PartialEq + core::fmt::Debug {
    fn zero() -> Self;
    fn one() -> Self;
    fn from_small(v: u64) -> Self;
    fn add(self, o: Self) -> Self;
    fn sub(self, o: Self) -> Self;
    fn mul(self, o: Self) -> Self;
    fn inv(self) -> Option<Self>;
    /// canonical representative as an integer (for bit decompositions)
    fn canon(self) -> u64;
}

/// GF(p) for the tiny primes of the TLA+ models.
#[derive(Copy, Clone, PartialEq, Eq, Debug)]
pub struct Gf {
    pub v: u64,
    pub p: u64,
}
impl Gf {
    pub fn new(v: u64, p: u64) -> Self {
        Self { v: v % p, p }
    }
}
thread_local! { pub static GF_P: core::cell::Cell<u64> = const { core::cell::Cell::new(3) }; }
impl Fld for Gf {
    fn zero() -> Self {
        Gf::new(0, GF_P.with(|p| p.get()))
    }
    fn one() -> Self {
        Gf::new(1, GF_P.with(|p| p.get()))
    }
    fn from_small(v: u64) -> Self {
        Gf::new(v, GF_P.with(|p| p.get()))
    }
    fn add(self, o: Self) -> Self {
        Gf::new(self.v + o.v, self.p)
    }
    fn sub(self, o: Self) -> Self {
        Gf::new(self.v + self.p - o.v, self.p)
    }
    fn mul(self, o: Self) -> Self {
        Gf::new(self.v * o.v, self.p)
    }
    fn inv(self) -> Option<Self> {
        (1..self.p).find(|x| (x * self.v) % self.p == 1).map(|x| Gf::new(x, self.p))
    }
    fn canon(self) -> u64 {
        self.v
    }
}

/// Wrapper making every Plonky3 field an oracle field.
#[derive(Copy, Clone, PartialEq, Eq, Debug)]
pub struct P3<F>(pub F);
impl<F: p3_field::Field + p3_field::PrimeField64> Fld for P3<F> {
    fn zero() -> Self {
        P3(F::ZERO)
    }
    fn one() -> Self {
        P3(F::ONE)
    }
    fn from_small(v: u64) -> Self {
        P3(F::from_u64(v))
    }
    fn add(self, o: Self) -> Self {
        P3(self.0 + o.0)
    }
    fn sub(self, o: Self) -> Self {
        P3(self.0 - o.0)
    }
    fn mul(self, o: Self) -> Self {
        P3(self.0 * o.0)
    }
    fn inv(self) -> Option<Self> {
        self.0.try_inverse().map(P3)
    }
    fn canon(self) -> u64 {
        self.0.as_canonical_u64()
    }
}

#[derive(Clone, Debug, Serialize, Deserialize)]
pub struct PreNode {
    pub k: String,
    pub v: u64,
}

#[derive(Clone, Debug, Serialize, Deserialize)]
pub struct Call {
    pub op: String,
    pub args: Vec<usize>,
    #[serde(default)]
    pub ret: i64,
}

/// A builder program: prelude handles followed by API calls whose operands are handle positions.
#[derive(Clone, Debug, Serialize, Deserialize)]
pub struct Program {
    pub npub: usize,
    pub npriv: usize,
    pub prelude: Vec<PreNode>,
    pub calls: Vec<Call>,
}

/// What the program asserts, evaluated on one input.
#[derive(Clone, Debug, Default)]
pub struct Eval<T> {
    /// value of every handle (None = undefined: a zero divisor upstream)
    pub handles: Vec<Option<T>>,
    /// residual `lhs - rhs` of every asserted equality (connect / assert_zero), None if undefined
    pub equalities: Vec<Option<T>>,
    /// v*(v-1) of every asserted bool, None if undefined
    pub bools: Vec<Option<T>>,
    /// a divisor evaluated to zero somewhere
    pub zero_divisor: bool,
}

impl<T: Fld> Eval<T> {
    pub fn all_defined(&self) -> bool {
        !self.zero_divisor
            && self.handles.iter().all(|h| h.is_some())
            && self.equalities.iter().all(|h| h.is_some())
            && self.bools.iter().all(|h| h.is_some())
    }
    pub fn equalities_hold(&self) -> bool {
        self.equalities.iter().all(|r| *r == Some(T::zero()))
    }
    pub fn bools_hold(&self) -> bool {
        self.bools.iter().all(|r| *r == Some(T::zero()))
    }
    pub fn satisfied(&self) -> bool {
        self.all_defined() && self.equalities_hold() && self.bools_hold()
    }
}

fn lift2<T: Fld>(a: Option<T>, b: Option<T>, mut f: impl FnMut(T, T) -> Option<T>) -> Option<T> {
    match (a, b) {
        (Some(a), Some(b)) => f(a, b),
        _ => None,
    }
}

/// Mathematical meaning of a program on the given inputs (independent of any folding,
/// sharing or optimisation the real builder applies).
pub fn eval_program<T: Fld>(prog: &Program, pubs: &[T], privs: &[T]) -> Eval<T> {
    let mut ev = Eval::<T> { handles: Vec::new(), equalities: Vec::new(), bools: Vec::new(), zero_divisor: false };
    for n in &prog.prelude {
        let v = match n.k.as_str() {
            "const" => T::from_small(n.v),
            "pub" => pubs[n.v as usize - 1],
            "priv" => privs[n.v as usize - 1],
            other => panic!("unknown prelude node {other}"),
        };
        ev.handles.push(Some(v));
    }
    for c in &prog.calls {
        let h = |i: usize| ev.handles[c.args[i]];
        match c.op.as_str() {
            "add" => {
                let v = lift2(h(0), h(1), |a, b| Some(a.add(b)));
                ev.handles.push(v);
            }
            "sub" => {
                let v = lift2(h(0), h(1), |a, b| Some(a.sub(b)));
                ev.handles.push(v);
            }
            "mul" => {
                let v = lift2(h(0), h(1), |a, b| Some(a.mul(b)));
                ev.handles.push(v);
            }
            "div" => {
                let mut zd = false;
                let v = lift2(h(0), h(1), |a, b| match b.inv() {
                    Some(bi) => Some(a.mul(bi)),
                    None => {
                        zd = true;
                        None
                    }
                });
                ev.zero_divisor |= zd;
                ev.handles.push(v);
            }
            "muladd" => {
                let ab = lift2(h(0), h(1), |a, b| Some(a.mul(b)));
                let v = lift2(ab, h(2), |x, c| Some(x.add(c)));
                ev.handles.push(v);
            }
            "horner" => {
                // horner_acc_step(acc, alpha, p_at_z, p_at_x) = acc*alpha + p_at_z - p_at_x
                let ab = lift2(h(0), h(1), |a, b| Some(a.mul(b)));
                let x = lift2(ab, h(2), |x, c| Some(x.add(c)));
                let v = lift2(x, h(3), |x, d| Some(x.sub(d)));
                ev.handles.push(v);
            }
            "select" => {
                // select(b, t, s) = s + b*(t - s)
                let d = lift2(h(1), h(2), |t, s| Some(t.sub(s)));
                let bd = lift2(h(0), d, |b, d| Some(b.mul(d)));
                let v = lift2(h(2), bd, |s, x| Some(s.add(x)));
                ev.handles.push(v);
            }
            "bits2" => {
                // decompose_to_bits(x, 2): two hint bits of the canonical representative, each asserted
                // boolean, and the asserted equality x = b0 + 2*b1
                let x = h(0);
                let bits: Option<[T; 2]> = x.map(|v| {
                    let c = v.canon();
                    [T::from_small(c & 1), T::from_small((c >> 1) & 1)]
                });
                ev.handles.push(bits.map(|b| b[0]));
                ev.handles.push(bits.map(|b| b[1]));
                ev.bools.push(bits.map(|b| b[0].mul(b[0].sub(T::one()))));
                ev.bools.push(bits.map(|b| b[1].mul(b[1].sub(T::one()))));
                ev.equalities.push(lift2(x, bits.map(|b| b[0].add(b[1].add(b[1]))), |a, r| Some(a.sub(r))));
            }
            "connect" => {
                let r = lift2(h(0), h(1), |a, b| Some(a.sub(b)));
                ev.equalities.push(r);
            }
            "azero" => {
                ev.equalities.push(h(0));
            }
            "abool" => {
                let r = h(0).map(|v| v.mul(v.sub(T::one())));
                ev.bools.push(r);
            }
            other => panic!("unknown call {other}"),
        }
    }
    ev
}
