//! Binding of `spec/ExtProv.tla` to the real `CircuitBuilder` over a degree-2 extension (Goldilocks): every call sequence TLC
//! enumerates (recompose_base_coeffs_to_ext / select / decompose_ext_to_base_coeffs on the handles the caller holds) is
//! rebuilt, the circuit is run for both values of the selector with random inputs, and every handle `decompose` returned
//! must carry the base coefficient of the value it decomposed (the value being computed natively by the driver).
use std::collections::BTreeMap;
use std::io::{BufRead, BufReader};
use std::panic::{AssertUnwindSafe, catch_unwind};

use p3_circuit::{CircuitBuilder, ExprId};
use p3_field::extension::BinomialExtensionField;
use p3_field::{BasedVectorSpace, PrimeCharacteristicRing};
use p3_goldilocks::Goldilocks;
use rand::RngExt;
use rand::rngs::StdRng;
use serde_json::{Value, json};

use crate::pipeline::seeded;

type F = Goldilocks;
type E2 = BinomialExtensionField<F, 2>;

fn e2(c0: F, c1: F) -> E2 {
    E2::from_basis_coefficients_slice(&[c0, c1]).unwrap()
}
fn co(v: &E2) -> [F; 2] {
    let s = v.as_basis_coefficients_slice();
    [s[0], s[1]]
}

/// Ok(None): every returned coefficient is right for both selector values; Ok(Some(detail)): a mismatch or a failing run.
/// Native values of every handle for given inputs (the model's Den).
fn values(calls: &[Value], flag: u64, ext_vals: &[E2], base_vals: &[F]) -> BTreeMap<u64, E2> {
    let mut val: BTreeMap<u64, E2> = BTreeMap::new();
    val.insert(1, E2::from_u64(flag));
    for (i, v) in ext_vals.iter().enumerate() {
        val.insert(2 + i as u64, *v);
    }
    for (i, v) in base_vals.iter().enumerate() {
        val.insert(4 + i as u64, E2::from(*v));
    }
    for c in calls {
        let args: Vec<u64> = c["args"].as_array().unwrap().iter().map(|x| x.as_u64().unwrap()).collect();
        let ret: Vec<u64> = c["ret"].as_array().unwrap().iter().map(|x| x.as_u64().unwrap()).collect();
        match c["op"].as_str().unwrap() {
            "recompose" => {
                val.insert(ret[0], e2(co(&val[&args[0]])[0], co(&val[&args[1]])[0]));
            }
            "select" => {
                val.insert(ret[0], if flag == 1 { val[&args[0]] } else { val[&args[1]] });
            }
            "decompose" => {
                let xv = co(&val[&args[0]]);
                for q in 0..2 {
                    val.insert(ret[q], E2::from(xv[q]));
                }
            }
            _ => {}
        }
    }
    val
}

/// Ok(None): every returned coefficient is right for both selector values; Ok(Some(detail)): a mismatch or a failing run.
pub fn run_case(calls: &[Value], rng: &mut StdRng) -> Result<Option<Value>, String> {
    let rf = |rng: &mut StdRng| F::from_u64(rng.random::<u64>() >> 1);
    let base0: Vec<F> = (0..4).map(|_| rf(rng)).collect();
    let ext0: Vec<E2> = (0..2).map(|_| e2(rf(rng), rf(rng))).collect();
    for flag in [0u64, 1] {
        // inputs that satisfy the program's connects: an extension input tied to a computed value takes that value, two
        // recompositions of inputs tied together force the second pair of base inputs to the first
        let (mut base_vals, mut ext_vals) = (base0.clone(), ext0.clone());
        for _ in 0..4 {
            let val = values(calls, flag, &ext_vals, &base_vals);
            let mut changed = false;
            for c in calls.iter().filter(|c| c["op"] == "connect") {
                let a = c["args"][0].as_u64().unwrap();
                let b = c["args"][1].as_u64().unwrap();
                if a == 2 || a == 3 {
                    if ext_vals[(a - 2) as usize] != val[&b] {
                        ext_vals[(a - 2) as usize] = val[&b];
                        changed = true;
                    }
                } else if base_vals[2] != base_vals[0] || base_vals[3] != base_vals[1] {
                    base_vals[2] = base_vals[0];
                    base_vals[3] = base_vals[1];
                    changed = true;
                }
            }
            if !changed {
                break;
            }
        }
        let val = values(calls, flag, &ext_vals, &base_vals);
        let mut b = CircuitBuilder::<E2>::new();
        let mut h: BTreeMap<u64, ExprId> = BTreeMap::new();
        let mut pubs: Vec<E2> = Vec::new();
        let f = b.public_input();
        b.assert_bool(f);
        h.insert(1, f);
        pubs.push(E2::from_u64(flag));
        for (i, v) in ext_vals.iter().enumerate() {
            h.insert(2 + i as u64, b.public_input());
            pubs.push(*v);
        }
        for (i, v) in base_vals.iter().enumerate() {
            h.insert(4 + i as u64, b.public_input());
            pubs.push(E2::from(*v));
        }
        let mut expect: Vec<(String, F, Value)> = Vec::new();
        for (ci, c) in calls.iter().enumerate() {
            let args: Vec<u64> = c["args"].as_array().unwrap().iter().map(|x| x.as_u64().unwrap()).collect();
            let ret: Vec<u64> = c["ret"].as_array().unwrap().iter().map(|x| x.as_u64().unwrap()).collect();
            let get = |h: &BTreeMap<u64, ExprId>, k: u64| h.get(&k).copied().ok_or_else(|| format!("call {ci}: handle {k} is not one the caller holds"));
            match c["op"].as_str().unwrap() {
                "recompose" => {
                    let (i, j) = (get(&h, args[0])?, get(&h, args[1])?);
                    let r = b.recompose_base_coeffs_to_ext::<F>(&[i, j]).map_err(|e| format!("recompose: {e:?}"))?;
                    h.insert(ret[0], r);
                }
                "select" => {
                    let (t, s) = (get(&h, args[0])?, get(&h, args[1])?);
                    let r = b.select(f, t, s);
                    h.insert(ret[0], r);
                }
                "connect" => {
                    let (x, y) = (get(&h, args[0])?, get(&h, args[1])?);
                    b.connect(x, y);
                }
                "decompose" => {
                    let x = get(&h, args[0])?;
                    let cs = b.decompose_ext_to_base_coeffs::<F>(x).map_err(|e| format!("decompose: {e:?}"))?;
                    if cs.len() != 2 {
                        return Err(format!("decompose returned {} handles", cs.len()));
                    }
                    let xv = co(&val[&args[0]]);
                    for (q, cexpr) in cs.iter().enumerate() {
                        let tag = format!("c{ci}_{q}");
                        b.tag(*cexpr, tag.clone()).map_err(|e| format!("tag: {e:?}"))?;
                        h.insert(ret[q], *cexpr);
                        expect.push((tag, xv[q], json!({"call": ci, "coefficient": q, "of_handle": args[0]})));
                    }
                }
                o => return Err(format!("unknown op {o}")),
            }
        }
        let circuit = b.build().map_err(|e| format!("build: {e:?}"))?;
        let mut runner = circuit.runner();
        runner.set_public_inputs(&pubs).map_err(|e| format!("set_public_inputs: {e:?}"))?;
        let traces = match runner.run() {
            Ok(t) => t,
            Err(e) => return Ok(Some(json!({"flag": flag, "problem": "the run fails on inputs that satisfy the program", "error": format!("{e:?}").chars().take(200).collect::<String>()}))),
        };
        for (tag, want, site) in &expect {
            let got = traces.probe(tag).ok_or_else(|| format!("no probe {tag}"))?;
            if *got != E2::from(*want) {
                return Ok(Some(json!({"flag": flag, "problem": "a handle returned by decompose_ext_to_base_coeffs does not carry the coefficient of the decomposed value", "site": site})));
            }
        }
    }
    Ok(None)
}

/// `p3r ext-prov --cases <ndjson> [--seed n]`: result JSON on stdout.
pub fn cmd(args: &[String]) -> i32 {
    let arg = |name: &str| args.iter().position(|a| a == name).and_then(|i| args.get(i + 1).cloned());
    let Some(cases) = arg("--cases") else { return 2 };
    let seed: u64 = arg("--seed").and_then(|s| s.parse().ok()).unwrap_or(1);
    let lines: Vec<String> = BufReader::new(std::fs::File::open(cases).expect("cases")).lines().map(|l| l.unwrap()).filter(|l| !l.trim().is_empty()).collect();
    let nthreads = 16usize;
    let out: std::sync::Mutex<Vec<(usize, Result<Option<Value>, String>)>> = std::sync::Mutex::new(Vec::new());
    std::thread::scope(|s| {
        for t in 0..nthreads {
            let (lines, out) = (&lines, &out);
            s.spawn(move || {
                let mut local = Vec::new();
                for (i, l) in lines.iter().enumerate().filter(|(i, _)| i % nthreads == t) {
                    let c: Value = serde_json::from_str(l).expect("case");
                    let calls = c["calls"].as_array().cloned().unwrap_or_default();
                    let mut rng = seeded(seed, i as u64);
                    let r = catch_unwind(AssertUnwindSafe(|| run_case(&calls, &mut rng))).unwrap_or_else(|p| Err(format!("panic: {}", p.downcast_ref::<String>().cloned().or_else(|| p.downcast_ref::<&str>().map(|s| s.to_string())).unwrap_or_default().chars().take(160).collect::<String>())));
                    local.push((i, r));
                }
                out.lock().unwrap().extend(local);
            });
        }
    });
    let mut v = out.into_inner().unwrap();
    v.sort_by_key(|x| x.0);
    let mut errors: Vec<String> = Vec::new();
    let mut groups: BTreeMap<String, (u64, Value)> = BTreeMap::new();
    let mut ok = 0u64;
    for (i, r) in v {
        match r {
            Ok(None) => ok += 1,
            Ok(Some(d)) => {
                let calls: Value = serde_json::from_str::<Value>(&lines[i]).unwrap()["calls"].clone();
                let shape: Vec<String> = calls.as_array().unwrap().iter().map(|c| c["op"].as_str().unwrap().to_string()).collect();
                let kind = if d["problem"].as_str().unwrap_or("").starts_with("the run fails") { "run-fails-on-satisfying-inputs" } else { "decomposed-coefficient-wrong" };
                let e = groups.entry(format!("{kind}@ext-provenance+{}", shape.join("-"))).or_insert((0, json!({"calls": calls, "detail": d})));
                e.0 += 1;
            }
            Err(e) => {
                if e.starts_with("panic") {
                    let g = groups.entry("builder-panics@ext-provenance".into()).or_insert((0, json!({"case": lines[i], "panic": e})));
                    g.0 += 1;
                } else if errors.len() < 10 {
                    errors.push(format!("{e}: {}", lines[i]));
                }
            }
        }
    }
    let findings: Vec<Value> = groups.into_iter().map(|(s, (n, d))| json!({"property": "C02", "kind": s.split('@').next().unwrap(), "signature": s, "count": n, "example": d})).collect();
    println!("{}", serde_json::to_string_pretty(&json!({"stats": {"cases": lines.len(), "ok": ok}, "findings": findings, "errors": errors, "samples": []})).unwrap());
    0
}
