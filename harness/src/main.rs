//! `p3r` — replay / conformance harness for the TLA+ specifications in /verif/spec.
use std::collections::BTreeMap;
use std::io::{BufRead, BufReader, Write};
use std::sync::Mutex;

use p3r_verif_harness::pipeline::{self, Finding, Rec, Stats};
use serde_json::{Value, json};

fn arg(args: &[String], name: &str) -> Option<String> {
    args.iter().position(|a| a == name).and_then(|i| args.get(i + 1).cloned())
}

fn main() {
    let args: Vec<String> = std::env::args().collect();
    if args.len() < 2 {
        eprintln!("usage: p3r <pipeline> ...");
        std::process::exit(2);
    }
    // panics in the code under test are data: keep the default hook quiet
    std::panic::set_hook(Box::new(|_| {}));
    let code = match args[1].as_str() {
        "pipeline" => cmd_pipeline(&args[2..]),
        "challenger" => cmd_challenger(&args[2..]),
        "gadgets" => p3r_verif_harness::gadgets::cmd(&args[2..]),
        "gadgets-gen" => p3r_verif_harness::gadgets::cmd_gen(&args[2..]),
        "symbolic" => cmd_symbolic(&args[2..]),
        "symbolic-gen" => cmd_symbolic_gen(&args[2..]),
        "mmcs" => cmd_mmcs(&args[2..]),
        "mmcs-gen" => {
            // p3r mmcs-gen --out cases.ndjson [--n N] [--seed S]: driver self-test cases (not the TLA+ cases)
            let out = arg(&args[2..], "--out").expect("--out");
            let n: usize = arg(&args[2..], "--n").and_then(|s| s.parse().ok()).unwrap_or(600);
            let seed: u64 = arg(&args[2..], "--seed").and_then(|s| s.parse().ok()).unwrap_or(1);
            let lines: Vec<String> = p3r_verif_harness::mmcs::gen_cases(n, seed).iter().map(|c| serde_json::to_string(c).unwrap()).collect();
            std::fs::write(&out, lines.join("\n") + "\n").unwrap();
            0
        }
        "fri" => cmd_fri(&args[2..]),
        "fri-gen" => cmd_fri_gen(&args[2..]),
        "tables" => p3r_verif_harness::tables::cmd(&args[2..]),
        "tables-gen" => p3r_verif_harness::tables::cmd_gen(&args[2..]),
        "digest" => cmd_digest(&args[2..]),
        "runner-faults" => cmd_runner_faults(&args[2..]),
        "scenarios" => {
            // p3r scenarios --out result.json
            let out = arg(&args[2..], "--out").expect("--out");
            let res: Vec<Value> = p3r_verif_harness::scenarios::all().into_iter().map(|s| json!({
                "id": s.id, "properties": s.properties, "what": s.what, "honest": s.honest, "forged": s.forged,
                "accepted": s.accepted, "detail": s.detail})).collect();
            std::fs::write(&out, serde_json::to_string_pretty(&json!({"scenarios": res})).unwrap()).unwrap();
            0
        }
        "forge-demo" => {
            p3r_verif_harness::forge::demo();
            0
        }
        "layers" => p3r_verif_harness::layers::cmd(&args[2..]),
        "layers-gen" => p3r_verif_harness::layers::cmd_gen(&args[2..]),
        "stark" => p3r_verif_harness::stark::cmd(&args[2..]),
        "npo-cells" => p3r_verif_harness::npocells::cmd(&args[2..]),
        "npo-honest" => p3r_verif_harness::merklepath::cmd(&args[2..]),
        "alu-schedule" => p3r_verif_harness::alusched::cmd(&args[2..]),
        "npo-pattern" => p3r_verif_harness::merklepath::cmd_pattern(&args[2..]),
        "poseidon-rows" => p3r_verif_harness::poseidonrows::cmd(&args[2..]),
        "whir" => p3r_verif_harness::whir::cmd(&args[2..]),
        "lookup-bus" => p3r_verif_harness::lookupbus::cmd(&args[2..]),
        "ext-prov" => p3r_verif_harness::extprov::cmd(&args[2..]),
        "npo-start-sum" => p3r_verif_harness::merklepath::cmd_start_sum(&args[2..]),
        "alpha-chain" => p3r_verif_harness::alusched::cmd_alpha(&args[2..]),
        "one-op-lanes" => p3r_verif_harness::alusched::cmd_one_op(&args[2..]),
        "digest-npo" => p3r_verif_harness::npodigest::cmd(&args[2..]),
        "digest-stark" => p3r_verif_harness::stark::cmd_digest(&args[2..]),
        "stark-expand" => p3r_verif_harness::stark::cmd_expand(&args[2..]),
        "stark-gen" => p3r_verif_harness::stark::cmd_gen(&args[2..]),
        "metadata" => p3r_verif_harness::metadata::cmd(&args[2..]),
        "metadata-gen" => p3r_verif_harness::metadata::cmd_gen(&args[2..]),
        "metadata-debug-cap" => p3r_verif_harness::metadata::cmd_debug_cap(&args[2..]),
        "metadata-debug" => p3r_verif_harness::metadata::cmd_debug(&args[2..]),
        "show" => {
            // p3r show < one replay record on stdin: print the real compiled circuit
            let mut line = String::new();
            std::io::stdin().read_line(&mut line).unwrap();
            let rec: Rec = serde_json::from_str(&line).expect("record");
            match pipeline::build(&rec.program()) {
                Ok(b) => println!("{}", serde_json::to_string(&json!({"ids": b.hid.iter().map(|e| e.0).collect::<Vec<_>>(), "circuit": pipeline::circuit_json(&b.circuit)})).unwrap()),
                Err(e) => println!("build failed: {e}"),
            }
            0
        }
        other => {
            eprintln!("unknown subcommand {other}");
            2
        }
    };
    std::process::exit(code);
}

/// Agreement between the model's verdict (TLC, GF(p)) and the code's verdict, per program.
#[derive(Default)]
struct VerdictCmp {
    counts: BTreeMap<String, u64>,
    examples: BTreeMap<String, Vec<Value>>,
}

fn verdict_cmp(vc: &mut VerdictCmp, prop: &str, model_ok: Option<bool>, code_bad: bool, prog: &p3r_verif_harness::oracle::Program) {
    let Some(m) = model_ok else { return };
    let key = format!("{prop}:model_{}_code_{}", if m { "holds" } else { "violated" }, if code_bad { "violated" } else { "holds" });
    *vc.counts.entry(key.clone()).or_default() += 1;
    if m == code_bad {
        let e = vc.examples.entry(key).or_default();
        if e.len() < 5 {
            e.push(serde_json::to_value(&prog.calls).unwrap());
        }
    }
}

#[derive(Default)]
struct Agg {
    groups: BTreeMap<(String, String, String), (u64, Value)>,
}
impl Agg {
    fn add(&mut self, f: Finding) {
        let e = self.groups.entry((f.property.clone(), f.kind.clone(), f.signature.clone())).or_insert((0, f.detail.clone()));
        e.0 += 1;
    }
}

/// p3r pipeline --in progs.ndjson --props C02,C03,C09,C10 --seed N --out result.json
fn cmd_pipeline(args: &[String]) -> i32 {
    let input = arg(args, "--in").expect("--in");
    let props = arg(args, "--props").unwrap_or_else(|| "C02,C03".into());
    let seed: u64 = arg(args, "--seed").and_then(|s| s.parse().ok()).unwrap_or(1);
    let out = arg(args, "--out").expect("--out");
    let c10_every: usize = arg(args, "--c10-every").and_then(|s| s.parse().ok()).unwrap_or(1);
    let c10_configs: usize = arg(args, "--c10-configs").and_then(|s| s.parse().ok()).unwrap_or(1);
    let threads: usize = arg(args, "--threads").and_then(|s| s.parse().ok()).unwrap_or(16);
    let want = |p: &str| props.split(',').any(|x| x == p);

    let f = std::fs::File::open(&input).expect("open input");
    let lines: Vec<String> = BufReader::new(f).lines().map(|l| l.unwrap()).filter(|l| !l.trim().is_empty()).collect();
    let agg = Mutex::new(Agg::default());
    let stats = Mutex::new(Vec::<Stats>::new());
    let errors = Mutex::new(Vec::<String>::new());
    let samples = Mutex::new(Vec::<Value>::new());
    let c10_runs = Mutex::new(0u64);
    let vcs = Mutex::new(Vec::<VerdictCmp>::new());
    let forge_all = Mutex::new(Vec::<pipeline::ForgeStats>::new());
    let distinct = Mutex::new(std::collections::HashSet::<String>::new());
    let packings_all: [(usize, usize, usize, usize); 4] = [(1, 1, 2, 1), (2, 3, 3, 8), (1, 2, 2, 1), (4, 4, 4, 16)];

    let nlines = lines.len();
    let chunk = nlines.div_ceil(threads.max(1)).max(1);
    std::thread::scope(|sc| {
        for (ti, part) in lines.chunks(chunk).enumerate() {
            let (agg, stats, errors, samples, c10_runs, distinct, vcs, forge_all) = (&agg, &stats, &errors, &samples, &c10_runs, &distinct, &vcs, &forge_all);
            let want = &want;
            sc.spawn(move || {
                let mut st = Stats::default();
                let mut local: Vec<Finding> = Vec::new();
                let mut local_distinct = std::collections::HashSet::<String>::new();
                let mut c10n = 0u64;
                let mut vc = VerdictCmp::default();
                let mut fstats = pipeline::ForgeStats::default();
                for (li, line) in part.iter().enumerate() {
                    let rec: Rec = match serde_json::from_str(line) {
                        Ok(r) => r,
                        Err(e) => {
                            errors.lock().unwrap().push(format!("bad replay line: {e}"));
                            continue;
                        }
                    };
                    let gidx = ti * chunk + li;
                    st.programs += 1;
                    let prog = rec.program();
                    if let Err(e) = pipeline::check_den0(&rec, &mut st) {
                        errors.lock().unwrap().push(e);
                    }
                    let built = match pipeline::build(&prog) {
                        Ok(b) => b,
                        Err(e) => {
                            // the builder refusing a program is not a violation of these properties
                            // unless it panics
                            if e.contains("panic") {
                                local.push(Finding { property: "C02".into(), kind: "builder-panic".into(), signature: "builder-panic@plain".into(),
                                    detail: json!({"program": serde_json::to_value(&prog).unwrap(), "error": e}) });
                            }
                            continue;
                        }
                    };
                    st.built += 1;
                    pipeline::model_drift(&rec, &built, &mut st);
                    // distinct & non-trivial: distinct compiled op lists with at least one ALU op
                    let cj = pipeline::circuit_json(&built.circuit);
                    if built.circuit.ops.iter().any(|op| matches!(op, p3_circuit::Op::Alu { .. })) {
                        local_distinct.insert(cj["ops"].to_string());
                    }
                    let mut rng = pipeline::seeded(seed, gidx as u64);
                    if want("C02") {
                        let n0 = local.len();
                        pipeline::check_c02(&prog, &built, &mut rng, &mut st, &mut local);
                        verdict_cmp(&mut vc, "C02", rec.m02, local.len() > n0, &prog);
                    }
                    if want("C03") {
                        let n0 = local.len();
                        pipeline::check_c03(&prog, &built, &mut rng, &mut st, &mut local);
                        verdict_cmp(&mut vc, "C03", rec.m03, local.len() > n0, &prog);
                    }
                    if want("C09") {
                        let n0 = local.len();
                        pipeline::check_c09(&prog, &built, &mut rng, &mut st, &mut local);
                        verdict_cmp(&mut vc, "C09", rec.m09, local.len() > n0, &prog);
                    }
                    if want("C04") && gidx % c10_every == 0 {
                        pipeline::check_c04(&prog, &built, &mut rng, &mut fstats, 24, &mut local);
                    }
                    if want("C10") && gidx % c10_every == 0 {
                        c10n += pipeline::check_c10(&prog, &built, &mut rng, &packings_all[..c10_configs.min(4)], &mut local);
                    }
                    if gidx % (nlines / 5).max(1) == 0 {
                        samples.lock().unwrap().push(json!({"program": serde_json::to_value(&prog).unwrap(), "compiled": cj}));
                    }
                }
                let mut a = agg.lock().unwrap();
                for f in local {
                    a.add(f);
                }
                stats.lock().unwrap().push(st);
                vcs.lock().unwrap().push(vc);
                forge_all.lock().unwrap().push(fstats);
                *c10_runs.lock().unwrap() += c10n;
                distinct.lock().unwrap().extend(local_distinct);
            });
        }
    });

    let mut tot = Stats::default();
    for s in stats.lock().unwrap().iter() {
        tot.programs += s.programs;
        tot.built += s.built;
        tot.sat_inputs += s.sat_inputs;
        tot.no_sat_input += s.no_sat_input;
        tot.violating_inputs += s.violating_inputs;
        tot.zero_div_inputs += s.zero_div_inputs;
        tot.runs += s.runs;
        tot.values_compared += s.values_compared;
        tot.c03_points += s.c03_points;
        tot.c03_tangent_candidates += s.c03_tangent_candidates;
        tot.c03_confirmed += s.c03_confirmed;
        tot.c03_skipped += s.c03_skipped;
        tot.drift_ops += s.drift_ops;
        tot.drift_ids += s.drift_ids;
        tot.den0_checked += s.den0_checked;
    }
    let mut ftot = pipeline::ForgeStats::default();
    for f in forge_all.lock().unwrap().iter() {
        ftot.programs += f.programs;
        ftot.forgeries += f.forgeries;
        ftot.rejected += f.rejected;
        ftot.harmless_skipped += f.harmless_skipped;
        ftot.accepted_harmful += f.accepted_harmful;
        for (k, v) in &f.classes {
            *ftot.classes.entry(k.clone()).or_default() += v;
        }
    }
    let mut vtot = VerdictCmp::default();
    for v in vcs.lock().unwrap().iter() {
        for (k, n) in &v.counts {
            *vtot.counts.entry(k.clone()).or_default() += n;
        }
        for (k, ex) in &v.examples {
            let e = vtot.examples.entry(k.clone()).or_default();
            for x in ex {
                if e.len() < 5 {
                    e.push(x.clone());
                }
            }
        }
    }
    let groups: Vec<Value> = agg
        .lock()
        .unwrap()
        .groups
        .iter()
        .map(|((p, k, s), (n, d))| json!({"property": p, "kind": k, "signature": s, "count": n, "example": d}))
        .collect();
    let result = json!({
        "stats": {
            "programs": tot.programs, "built": tot.built, "sat_inputs": tot.sat_inputs, "no_sat_input": tot.no_sat_input,
            "violating_inputs": tot.violating_inputs, "zero_div_inputs": tot.zero_div_inputs, "runs": tot.runs,
            "values_compared": tot.values_compared, "c03_points": tot.c03_points,
            "c03_tangent_candidates": tot.c03_tangent_candidates, "c03_confirmed": tot.c03_confirmed, "c03_skipped": tot.c03_skipped,
            "model_drift_unexplained": tot.drift_ops, "model_drift_const_folding": tot.drift_ids, "den0_checked": tot.den0_checked,
            "c10_proofs": *c10_runs.lock().unwrap(), "distinct_nontrivial": distinct.lock().unwrap().len(),
        },
        "forge": {"programs": ftot.programs, "forgeries": ftot.forgeries, "rejected": ftot.rejected, "harmless_skipped": ftot.harmless_skipped,
                  "accepted": ftot.accepted_harmful, "classes": ftot.classes},
        "model_vs_code": {"counts": vtot.counts, "disagreement_examples": vtot.examples},
        "errors": *errors.lock().unwrap(),
        "findings": groups,
        "samples": *samples.lock().unwrap(),
    });
    let mut f = std::fs::File::create(&out).expect("create out");
    f.write_all(serde_json::to_string_pretty(&result).unwrap().as_bytes()).unwrap();
    0
}

/// p3r challenger --in hist.ndjson --seed N --out result.json [--configs a,b]
fn cmd_challenger(args: &[String]) -> i32 {
    use p3r_verif_harness::challenger::{self, ChRec};
    let input = arg(args, "--in").expect("--in");
    let seed: u64 = arg(args, "--seed").and_then(|s| s.parse().ok()).unwrap_or(1);
    let out = arg(args, "--out").expect("--out");
    let threads: usize = arg(args, "--threads").and_then(|s| s.parse().ok()).unwrap_or(16);
    let cfgs: Vec<String> = arg(args, "--configs").map(|s| s.split(',').map(String::from).collect()).unwrap_or_else(|| challenger::CONFIGS.iter().map(|s| s.to_string()).collect());
    let f = std::fs::File::open(&input).expect("open input");
    let lines: Vec<String> = BufReader::new(f).lines().map(|l| l.unwrap()).filter(|l| !l.trim().is_empty()).collect();
    let nlines = lines.len();
    let chunk = nlines.div_ceil(threads.max(1)).max(1);
    let agg = Mutex::new(Agg::default());
    let totals = Mutex::new(BTreeMap::<String, u64>::new());
    let samples = Mutex::new(Vec::<Value>::new());
    let distinct = Mutex::new(std::collections::HashSet::<String>::new());
    std::thread::scope(|sc| {
        for (ti, part) in lines.chunks(chunk).enumerate() {
            let (agg, totals, samples, cfgs, distinct) = (&agg, &totals, &samples, &cfgs, &distinct);
            sc.spawn(move || {
                let mut local: Vec<Finding> = Vec::new();
                let mut t = BTreeMap::<String, u64>::new();
                let mut ld = std::collections::HashSet::<String>::new();
                for (li, line) in part.iter().enumerate() {
                    let rec: ChRec = match serde_json::from_str(line) {
                        Ok(r) => r,
                        Err(_) => {
                            *t.entry("bad_lines".into()).or_default() += 1;
                            continue;
                        }
                    };
                    let gidx = (ti * chunk + li) as u64;
                    *t.entry("histories".into()).or_default() += 1;
                    let hist_json = serde_json::to_value(&rec.hist).unwrap();
                    if rec.hist.iter().map(|h| h.op.as_str()).collect::<std::collections::HashSet<_>>().len() >= 2 {
                        ld.insert(hist_json.to_string());
                    }
                    for cfg in cfgs.iter() {
                        let Some(o) = challenger::replay_config(cfg, &rec, seed.wrapping_mul(1_000_003).wrapping_add(gidx)) else { continue };
                        *t.entry(format!("replays:{cfg}")).or_default() += 1;
                        *t.entry("replays".into()).or_default() += 1;
                        *t.entry("samples_compared".into()).or_default() += o.samples as u64;
                        if o.pow_rejected {
                            *t.entry("pow_rejected_by_native".into()).or_default() += 1;
                        }
                        // model binding: the number of permutations the model predicts
                        if !o.pow_rejected && o.native_perms != rec.nperms {
                            *t.entry("model_drift_perm_count".into()).or_default() += 1;
                        }
                        let has_foreign = rec.hist.iter().any(|h| h.op == "foreign");
                        match (&o.mismatch, rec.agree) {
                            (None, true) => *t.entry("agree:model_and_code".into()).or_default() += 1,
                            (None, false) => *t.entry("model_diverges_code_agrees".into()).or_default() += 1,
                            (Some(_), false) => *t.entry("diverge:model_and_code".into()).or_default() += 1,
                            (Some(_), true) => *t.entry("model_agrees_code_diverges".into()).or_default() += 1,
                        }
                        if let Some(m) = o.mismatch {
                            let kind = if m.starts_with("value handed out") { "sample-differs-from-native" }
                                else if m.starts_with("permutation count") { "permutation-count-differs" }
                                else if m.starts_with("native proof-of-work") { "pow-accepted-by-circuit-only" }
                                else if m.starts_with("circuit run fails") { "circuit-unsatisfiable-on-native-transcript" }
                                else { "transcript-replay-error" };
                            let shape = if has_foreign { "foreign-permutation-row-between-challenger-rows" } else { "plain" };
                            local.push(Finding { property: "C05".into(), kind: kind.into(), signature: format!("{kind}@{shape}+{cfg}"),
                                detail: json!({"config": cfg, "history": hist_json, "mismatch": m, "detail": o.detail}) });
                        }
                    }
                    if gidx % (nlines as u64 / 5).max(1) == 0 {
                        samples.lock().unwrap().push(json!({"history": hist_json, "model": {"perms": rec.nperms, "samples": rec.nsamples, "agree": rec.agree}}));
                    }
                }
                let mut a = agg.lock().unwrap();
                for f in local {
                    a.add(f);
                }
                let mut tt = totals.lock().unwrap();
                for (k, v) in t {
                    *tt.entry(k).or_default() += v;
                }
                distinct.lock().unwrap().extend(ld);
            });
        }
    });
    let groups: Vec<Value> = agg.lock().unwrap().groups.iter()
        .map(|((p, k, s), (n, d))| json!({"property": p, "kind": k, "signature": s, "count": n, "example": d})).collect();
    let mut stats = totals.lock().unwrap().clone();
    stats.insert("distinct_nontrivial".into(), distinct.lock().unwrap().len() as u64);
    let result = json!({"stats": stats, "findings": groups, "samples": *samples.lock().unwrap(), "errors": []});
    std::fs::write(&out, serde_json::to_string_pretty(&result).unwrap()).unwrap();
    0
}

/// p3r digest --in progs.ndjson --every K --out digests.txt
/// One line per selected program: index, digest, per-part digests.  Run in several processes
/// (different hash seeds) and compare the files.
fn cmd_digest(args: &[String]) -> i32 {
    use p3_circuit_prover::batch_stark_prover::TablePacking;
    let input = arg(args, "--in").expect("--in");
    let out = arg(args, "--out").expect("--out");
    let every: usize = arg(args, "--every").and_then(|s| s.parse().ok()).unwrap_or(1);
    let f = std::fs::File::open(&input).expect("open input");
    let mut w = std::io::BufWriter::new(std::fs::File::create(&out).expect("create"));
    let packing = TablePacking::new(1, 2);
    for (i, line) in BufReader::new(f).lines().enumerate() {
        if i % every != 0 {
            continue;
        }
        let line = line.unwrap();
        let Ok(rec) = serde_json::from_str::<Rec>(&line) else { continue };
        let prog = rec.program();
        // build twice in this process as well
        let (Ok(b1), Ok(b2)) = (pipeline::build(&prog), pipeline::build(&prog)) else {
            writeln!(w, "{i} build-refused").unwrap();
            continue;
        };
        let d1 = pipeline::digest(&b1, &packing);
        let d2 = pipeline::digest(&b2, &packing);
        match (d1, d2) {
            (Ok((a, pa)), Ok((b, _))) => {
                let parts: Vec<String> = pa.iter().map(|(k, v)| format!("{k}={v:016x}")).collect();
                writeln!(w, "{i} {a:016x} same_process_rebuild={} {}", a == b, parts.join(" ")).unwrap();
            }
            (Err(e), _) | (_, Err(e)) => writeln!(w, "{i} error {}", e.chars().take(60).collect::<String>().replace(' ', "_")).unwrap(),
        }
    }
    0
}

/// p3r runner-faults --in progs.ndjson --every K --seed N --out outcomes.txt
/// For each selected program and each input-fault scenario of the Runner model: the outcome class
/// (ok / err / panic).  The caller runs this in a debug and in a release build and compares.
fn cmd_runner_faults(args: &[String]) -> i32 {
    use p3_field::PrimeCharacteristicRing;
    use p3r_verif_harness::pipeline::F;
    let input = arg(args, "--in").expect("--in");
    let out = arg(args, "--out").expect("--out");
    let every: usize = arg(args, "--every").and_then(|s| s.parse().ok()).unwrap_or(1);
    let seed: u64 = arg(args, "--seed").and_then(|s| s.parse().ok()).unwrap_or(1);
    let f = std::fs::File::open(&input).expect("open input");
    let mut w = std::io::BufWriter::new(std::fs::File::create(&out).expect("create"));
    let scenarios = ["honest", "no_public", "short_public", "long_public", "no_private", "short_private", "long_private",
        "public_twice_same", "public_twice_different", "private_twice_different"];
    for (i, line) in BufReader::new(f).lines().enumerate() {
        if i % every != 0 {
            continue;
        }
        let line = line.unwrap();
        let Ok(rec) = serde_json::from_str::<Rec>(&line) else { continue };
        let prog = rec.program();
        let Ok(built) = pipeline::build(&prog) else { continue };
        let mut rng = pipeline::seeded(seed, i as u64);
        let Some(x) = pipeline::find_satisfying(&prog, &mut rng, false) else { continue };
        let pubs: Vec<F> = x[..prog.npub].iter().map(|v| v.0).collect();
        let privs: Vec<F> = x[prog.npub..].iter().map(|v| v.0).collect();
        let c = &built.circuit;
        let mut cols = Vec::new();
        for sc in scenarios {
            let r = std::panic::catch_unwind(std::panic::AssertUnwindSafe(|| -> Result<(), String> {
                let mut runner = c.runner();
                let mut p = pubs.clone();
                let mut v = privs.clone();
                let e = |e: p3_circuit::CircuitError| format!("{e:?}");
                match sc {
                    "no_public" => {}
                    "short_public" => {
                        p.pop();
                        runner.set_public_inputs(&p).map_err(e)?
                    }
                    "long_public" => {
                        p.push(F::ONE);
                        runner.set_public_inputs(&p).map_err(e)?
                    }
                    "public_twice_same" => {
                        runner.set_public_inputs(&p).map_err(e)?;
                        runner.set_public_inputs(&p).map_err(e)?
                    }
                    "public_twice_different" => {
                        runner.set_public_inputs(&p).map_err(e)?;
                        for q in p.iter_mut() {
                            *q += F::ONE;
                        }
                        runner.set_public_inputs(&p).map_err(e)?
                    }
                    _ => runner.set_public_inputs(&p).map_err(e)?,
                }
                match sc {
                    "no_private" => {}
                    "short_private" => {
                        v.pop();
                        runner.set_private_inputs(&v).map_err(e)?
                    }
                    "long_private" => {
                        v.push(F::ONE);
                        runner.set_private_inputs(&v).map_err(e)?
                    }
                    "private_twice_different" => {
                        runner.set_private_inputs(&v).map_err(e)?;
                        for q in v.iter_mut() {
                            *q += F::ONE;
                        }
                        runner.set_private_inputs(&v).map_err(e)?
                    }
                    _ => {
                        if c.private_flat_len > 0 {
                            runner.set_private_inputs(&v).map_err(e)?
                        }
                    }
                }
                runner.run().map(|_| ()).map_err(e)
            }));
            let class = match r {
                Ok(Ok(())) => "ok".to_string(),
                Ok(Err(e)) => format!("err:{}", e.split(|c: char| !c.is_alphanumeric()).next().unwrap_or("")),
                Err(_) => "panic".to_string(),
            };
            cols.push(format!("{sc}={class}"));
        }
        // private input slots that an op or another input row also writes: their value does not depend on the caller
        let aliased = c.private_input_rows.iter().any(|p| c.public_rows.contains(p) || c.ops.iter().any(|op| match op {
            p3_circuit::Op::Const { out, .. } | p3_circuit::Op::Public { out, .. } => out == p,
            p3_circuit::Op::Alu { out, b, .. } => out == p || b == p,
            _ => false,
        }));
        let pub_aliased = !c.public_rows.is_empty() && c.public_rows.iter().all(|p| c.private_input_rows.contains(p) || c.ops.iter().any(|op| match op {
            p3_circuit::Op::Const { out, .. } => out == p,
            p3_circuit::Op::Alu { out, b, .. } => out == p || b == p,
            _ => false,
        }));
        writeln!(w, "{i} npub={} npriv={} m19={} priv_aliased={} pub_aliased={} {}", prog.npub, prog.npriv, rec.m19.map(|b| b.to_string()).unwrap_or_else(|| "na".into()), aliased, pub_aliased, cols.join(" ")).unwrap();
    }
    // non-primitive executors: a permutation fed by a private input / a public input
    for (name, class) in p3r_verif_harness::scenarios::npo_runner_faults() {
        writeln!(w, "npo {name}={class}").unwrap();
    }
    0
}

/// p3r fri --in cases.ndjson --seed N --out result.json [--threads N]
fn cmd_fri(args: &[String]) -> i32 {
    use p3r_verif_harness::fri::{self, FriCase};
    let input = arg(args, "--in").expect("--in");
    let seed: u64 = arg(args, "--seed").and_then(|s| s.parse().ok()).unwrap_or(1);
    let out = arg(args, "--out").expect("--out");
    let threads: usize = arg(args, "--threads").and_then(|s| s.parse().ok()).unwrap_or(16);
    let t0 = std::time::Instant::now();
    let f = std::fs::File::open(&input).expect("open input");
    let lines: Vec<String> = BufReader::new(f).lines().map(|l| l.unwrap()).filter(|l| !l.trim().is_empty()).collect();
    let nlines = lines.len();
    let agg = Mutex::new(Agg::default());
    let totals = Mutex::new(BTreeMap::<String, u64>::new());
    let unsupported = Mutex::new(BTreeMap::<String, (u64, Value)>::new());
    let samples = Mutex::new(Vec::<Value>::new());
    let errors = Mutex::new(Vec::<String>::new());
    let next = std::sync::atomic::AtomicUsize::new(0);
    // optional per-case verdict log: --verdicts file.ndjson
    let verdicts_path = arg(args, "--verdicts");
    let verdicts_store = Mutex::new(Vec::<(usize, Value)>::new());
    let verdicts = verdicts_path.as_ref().map(|_| &verdicts_store);
    std::thread::scope(|sc| {
        for _ in 0..threads.max(1) {
            let (agg, totals, unsupported, samples, errors, next, lines) = (&agg, &totals, &unsupported, &samples, &errors, &next, &lines);
            sc.spawn(move || {
                let mut local: Vec<Finding> = Vec::new();
                let mut t = BTreeMap::<String, u64>::new();
                loop {
                    // work stealing: cases differ a lot in cost
                    let gidx = next.fetch_add(1, std::sync::atomic::Ordering::SeqCst);
                    if gidx >= nlines {
                        break;
                    }
                    let case: FriCase = match serde_json::from_str(&lines[gidx]) {
                        Ok(c) => c,
                        Err(e) => {
                            *t.entry("bad_lines".into()).or_default() += 1;
                            errors.lock().unwrap().push(format!("bad case line {gidx}: {e}"));
                            continue;
                        }
                    };
                    *t.entry("cases".into()).or_default() += 1;
                    let o = fri::run_case(&case, seed.wrapping_mul(1_000_003).wrapping_add(gidx as u64));
                    let fk = case.fault_kind();
                    if let Some(why) = o.unsupported.clone().or_else(|| o.fault_inapplicable.clone().map(|w| format!("fault not applicable: {w}"))) {
                        *t.entry("unsupported".into()).or_default() += 1;
                        let key: String = why.chars().take(160).collect();
                        let mut u = unsupported.lock().unwrap();
                        let e = u.entry(key).or_insert((0, serde_json::to_value(&case).unwrap()));
                        e.0 += 1;
                        continue;
                    }
                    let sh = fri::shapes(&case, &o.log_arities);
                    let sig = sh.join("+");
                    let detail = json!({"case": serde_json::to_value(&case).unwrap(), "log_arities": o.log_arities, "fault_site": o.fault_site,
                        "native_honest": o.native_honest, "native": o.native, "circuit": o.circuit});
                    let mut push = |kind: &str| local.push(Finding { property: "C07".into(), kind: kind.into(), signature: format!("{kind}@{sig}"), detail: detail.clone() });
                    if !o.native_honest.ok {
                        // the real prover's own proof is rejected by the real verifier: outside C07, but never silent
                        *t.entry("native_rejects_honest_proof".into()).or_default() += 1;
                        errors.lock().unwrap().push(format!("case {gidx}: native verifier rejects the honest proof: {}", o.native_honest.msg));
                    }
                    let nv = if o.native.panicked { "native-panics" } else if o.native.ok { "native-accepts" } else { "native-rejects" };
                    let cv = if o.circuit.panicked { "circuit-panics" } else if o.circuit.build_error { "circuit-build-error" } else if o.circuit.ok { "circuit-satisfied" } else { "circuit-unsatisfied" };
                    *t.entry(format!("verdict:{nv}/{cv}")).or_default() += 1;
                    *t.entry(format!("fault:{fk}:{nv}/{cv}")).or_default() += 1;
                    if o.native.panicked {
                        push("native-panics");
                    }
                    if o.circuit.panicked {
                        push("circuit-panics");
                    } else if o.circuit.build_error && o.native.ok {
                        // the statement is accepted natively, yet no verifier circuit can be constructed / fed for its shape
                        push("circuit-build-error-on-valid-shape");
                    } else if o.circuit.ok && !o.native.ok && !o.native.panicked {
                        push("circuit-accepts-native-rejects");
                    } else if !o.circuit.ok && o.native.ok {
                        push("circuit-rejects-native-accepts");
                    }
                    if let Some(v) = verdicts {
                        v.lock().unwrap().push((gidx, json!({"idx": gidx, "shapes": sh, "log_arities": o.log_arities, "roots_input": o.roots_input, "roots_commit": o.roots_commit, "native": nv, "circuit": cv})));
                    }
                    // a verifier circuit that cannot be constructed for the statement counts as "rejects"
                    if o.native.ok == o.circuit.ok && !o.native.panicked && !o.circuit.panicked {
                        *t.entry("agree".into()).or_default() += 1;
                    } else {
                        *t.entry("disagree".into()).or_default() += 1;
                    }
                    if gidx % (nlines / 5).max(1) == 0 {
                        samples.lock().unwrap().push(detail);
                    }
                }
                let mut a = agg.lock().unwrap();
                for f in local {
                    a.add(f);
                }
                let mut tt = totals.lock().unwrap();
                for (k, v) in t {
                    *tt.entry(k).or_default() += v;
                }
            });
        }
    });
    if let Some(vp) = verdicts_path {
        let mut v = verdicts_store.lock().unwrap();
        v.sort_by_key(|x| x.0);
        let txt: String = v.iter().map(|x| format!("{}\n", x.1)).collect();
        std::fs::write(vp, txt).unwrap();
    }
    let groups: Vec<Value> = agg.lock().unwrap().groups.iter()
        .map(|((p, k, s), (n, d))| json!({"property": p, "kind": k, "signature": s, "count": n, "example": d})).collect();
    let uns: Vec<Value> = unsupported.lock().unwrap().iter().map(|(k, (n, c))| json!({"reason": k, "count": n, "example": c})).collect();
    let mut stats = serde_json::to_value(&*totals.lock().unwrap()).unwrap();
    stats["unsupported_reasons"] = json!(uns);
    stats["time_s"] = json!(t0.elapsed().as_secs_f64());
    let result = json!({"stats": stats, "findings": groups, "samples": *samples.lock().unwrap(), "errors": *errors.lock().unwrap()});
    std::fs::write(&out, serde_json::to_string_pretty(&result).unwrap()).unwrap();
    0
}

/// p3r fri-gen --out cases.ndjson [--n N] [--seed N] — a generator of diverse cases, ONLY to test the driver.
fn cmd_fri_gen(args: &[String]) -> i32 {
    use rand::{RngExt, SeedableRng};
    let out = arg(args, "--out").expect("--out");
    let n: usize = arg(args, "--n").and_then(|s| s.parse().ok()).unwrap_or(150);
    let seed: u64 = arg(args, "--seed").and_then(|s| s.parse().ok()).unwrap_or(7);
    let cfgs: Vec<String> = arg(args, "--configs").map(|s| s.split(',').map(String::from).collect()).unwrap_or_else(|| vec!["bb_d4_p2".into()]);
    let mut rng = rand::rngs::StdRng::seed_from_u64(seed);
    let kinds = ["none", "opened_value", "commit_phase_commit", "final_poly", "query_opened_row", "query_sibling", "query_merkle", "pow_witness", "input_commitment", "none", "log_arity"];
    let modes = ["shared", "distinct", "two", "aliased"];
    let mut f = std::fs::File::create(&out).expect("create out");
    for i in 0..n {
        let mut r = |lo: usize, hi: usize| -> usize { lo + (rng.random::<u64>() as usize) % (hi - lo + 1) };
        let nb = r(1, 2);
        let lfp = r(0, 2);
        // the prover asserts min log_h > log_final_poly_len when log_final_poly_len > 0; a few cases violate it on purpose
        let min_h = if r(0, 14) == 0 { 0 } else if lfp == 0 && r(0, 3) == 0 { 0 } else { (lfp + 1).min(5) };
        let mut hs: Vec<Vec<usize>> = (0..nb).map(|_| (0..r(1, 3)).map(|_| r(min_h, 5)).collect()).collect();
        // mostly give every batch a matrix of the global maximum height
        if r(0, 3) != 0 {
            let g = hs.iter().flatten().copied().max().unwrap();
            for b in hs.iter_mut() {
                let k = r(0, b.len() - 1);
                b[k] = g;
            }
        }
        let batches: Vec<Value> = hs.iter().map(|b| {
            let mats: Vec<Value> = b.iter().map(|h| json!({"log_h": h, "w": r(1, 3)})).collect();
            json!({"mats": mats, "points": modes[r(0, 3)]})
        }).collect();
        let kind = kinds[i % kinds.len()];
        let fault = match kind {
            "opened_value" => json!({"kind": kind, "batch": r(0, 3), "mat": r(0, 3), "point": r(0, 1), "col": r(0, 3), "coef": r(0, 3)}),
            "commit_phase_commit" => json!({"kind": kind, "round": r(0, 5), "word": r(0, 7)}),
            "final_poly" => json!({"kind": kind, "coeff": r(0, 3), "coef": r(0, 3)}),
            "query_opened_row" => json!({"kind": kind, "query": r(0, 3), "batch": r(0, 3), "mat": r(0, 3), "col": r(0, 3)}),
            "query_sibling" => json!({"kind": kind, "query": r(0, 3), "step": r(0, 5), "idx": r(0, 6), "coef": r(0, 3)}),
            "query_merkle" => json!({"kind": kind, "query": r(0, 3), "which": if r(0, 1) == 0 { "input" } else { "commit" }, "batch": r(0, 1), "step": r(0, 5), "level": r(0, 7), "word": r(0, 7)}),
            "pow_witness" => json!({"kind": kind, "which": if r(0, 2) == 0 { "commit" } else { "query" }, "round": r(0, 5)}),
            "input_commitment" => json!({"kind": kind, "batch": r(0, 1), "word": r(0, 7)}),
            "log_arity" => json!({"kind": kind, "query": r(0, 3), "step": r(0, 5), "all": r(0, 1) == 0}),
            _ => json!({"kind": "none"}),
        };
        let pow = if r(0, 2) == 0 { 0 } else { r(1, 3) };
        let qpow = if r(0, 2) == 0 { 0 } else { r(1, 4) };
        let case = json!({"spec": "Fri", "cfg": cfgs[i % cfgs.len()], "log_blowup": r(1, 2), "num_queries": r(1, 3), "log_final_poly_len": lfp,
            "max_log_arity": r(1, 3), "pow_bits": pow, "query_pow_bits": qpow, "batches": batches, "fault": fault});
        writeln!(f, "{}", serde_json::to_string(&case).unwrap()).unwrap();
    }
    0
}

/// p3r mmcs --in cases.ndjson --seed N --out result.json [--threads N] [--max-samples N]
fn cmd_mmcs(args: &[String]) -> i32 {
    use p3r_verif_harness::mmcs::{self, Case};
    let input = arg(args, "--in").expect("--in");
    let seed: u64 = arg(args, "--seed").and_then(|s| s.parse().ok()).unwrap_or(1);
    let out = arg(args, "--out").expect("--out");
    let threads: usize = arg(args, "--threads").and_then(|s| s.parse().ok()).unwrap_or(16);
    let max_samples: usize = arg(args, "--max-samples").and_then(|s| s.parse().ok()).unwrap_or(2000);
    let f = std::fs::File::open(&input).expect("open input");
    let lines: Vec<String> = BufReader::new(f).lines().map(|l| l.unwrap()).filter(|l| !l.trim().is_empty()).collect();
    let nlines = lines.len();
    let every = nlines.div_ceil(max_samples.max(1)).max(1);
    let agg = Mutex::new(Agg::default());
    let totals = Mutex::new(BTreeMap::<String, u64>::new());
    let unsupported = Mutex::new(BTreeMap::<String, (u64, Value)>::new());
    let samples = Mutex::new(Vec::<(usize, Value)>::new());
    let errors = Mutex::new(Vec::<String>::new());
    let distinct = Mutex::new(std::collections::BTreeSet::<String>::new());
    let next = std::sync::atomic::AtomicUsize::new(0);
    std::thread::scope(|sc| {
        for _ in 0..threads.max(1) {
            let (agg, totals, unsupported, samples, errors, distinct, next, lines) = (&agg, &totals, &unsupported, &samples, &errors, &distinct, &next, &lines);
            sc.spawn(move || {
                let mut local: Vec<Finding> = Vec::new();
                let mut t = BTreeMap::<String, u64>::new();
                let bump = |t: &mut BTreeMap<String, u64>, k: &str| *t.entry(k.to_string()).or_default() += 1;
                loop {
                    let gidx = next.fetch_add(1, std::sync::atomic::Ordering::SeqCst);
                    if gidx >= lines.len() {
                        break;
                    }
                    bump(&mut t, "cases");
                    let c: Case = match serde_json::from_str(&lines[gidx]) {
                        Ok(c) => c,
                        Err(e) => {
                            bump(&mut t, "bad_lines");
                            errors.lock().unwrap().push(format!("line {gidx}: {e}"));
                            continue;
                        }
                    };
                    let cj = serde_json::to_value(&c).unwrap();
                    let shape = c.shape();
                    let o = mmcs::replay_case(&c, seed.wrapping_mul(1_000_003).wrapping_add(gidx as u64));
                    if let Some(reason) = &o.skipped {
                        bump(&mut t, "unsupported");
                        let key: String = reason.split(':').next().unwrap_or(reason).to_string();
                        let mut u = unsupported.lock().unwrap();
                        u.entry(key).or_insert((0, json!({"case": cj, "reason": reason}))).0 += 1;
                        continue;
                    }
                    bump(&mut t, "replayed");
                    bump(&mut t, &format!("replayed:{}", c.cfg));
                    bump(&mut t, &format!("fault:{}", c.fault.kind));
                    bump(&mut t, &format!("native:{}", o.native));
                    bump(&mut t, &format!("circuit:{}", o.circuit));
                    if o.native_rejects_dims {
                        bump(&mut t, "native_rejects_dims");
                    }
                    if o.detail["circuit_error"].as_str().is_some_and(|e| e.starts_with("DRIVER")) {
                        errors.lock().unwrap().push(format!("line {gidx}: {}", o.detail["circuit_error"]));
                    }
                    let kind = match (o.native.as_str(), o.circuit.as_str()) {
                        ("panic", _) => Some("native-panics"),
                        (_, "panic") => Some("circuit-panics"),
                        ("accept", "unsatisfied") => Some("circuit-rejects-native-accepts"),
                        ("reject", "satisfied") => Some("circuit-accepts-native-rejects"),
                        _ => None,
                    };
                    match kind {
                        None => {
                            bump(&mut t, "agree");
                            bump(&mut t, &format!("agree:{}", if o.native == "accept" { "accept" } else { "reject" }));
                            distinct.lock().unwrap().insert(shape.clone());
                        }
                        Some(k) => {
                            bump(&mut t, k);
                            local.push(Finding { property: "C08".into(), kind: k.into(), signature: format!("{k}@{shape}"),
                                detail: json!({"case": cj, "line": gidx, "native": o.native, "circuit": o.circuit, "perms": o.perms, "data": o.detail}) });
                        }
                    }
                    if gidx % every == 0 {
                        samples.lock().unwrap().push((gidx, json!({"line": gidx, "case": cj, "native": o.native, "circuit": o.circuit, "perms": o.perms,
                            "num_roots": o.detail["num_roots"], "proof_len": o.detail["proof_len"], "circuit_sibling_slots": o.detail["circuit_sibling_slots"], "circuit_ops": o.detail["circuit_ops"],
                            "native_rejects_dims": o.native_rejects_dims})));
                    }
                }
                let mut a = agg.lock().unwrap();
                for f in local {
                    a.add(f);
                }
                let mut tt = totals.lock().unwrap();
                for (k, v) in t {
                    *tt.entry(k).or_default() += v;
                }
            });
        }
    });
    let groups: Vec<Value> = agg.lock().unwrap().groups.iter()
        .map(|((p, k, s), (n, d))| json!({"property": p, "kind": k, "signature": s, "count": n, "example": d})).collect();
    let mut stats = serde_json::to_value(&*totals.lock().unwrap()).unwrap();
    for k in ["cases", "replayed", "agree", "unsupported", "circuit-accepts-native-rejects", "circuit-rejects-native-accepts", "circuit-panics", "native-panics", "native_rejects_dims"] {
        if stats.get(k).is_none() {
            stats[k] = json!(0);
        }
    }
    stats["distinct_shapes"] = json!(distinct.lock().unwrap().len());
    stats["unsupported_reasons"] = Value::Object(unsupported.lock().unwrap().iter().map(|(k, (n, ex))| (k.clone(), json!({"count": n, "example": ex}))).collect());
    let mut sm = std::mem::take(&mut *samples.lock().unwrap());
    sm.sort_by_key(|(i, _)| *i);
    let result = json!({"stats": stats, "findings": groups, "samples": sm.into_iter().map(|(_, v)| v).collect::<Vec<_>>(), "errors": *errors.lock().unwrap()});
    std::fs::write(&out, serde_json::to_string_pretty(&result).unwrap()).unwrap();
    0
}

/// p3r symbolic --in cases.ndjson --seed N --out result.json [--threads T]
fn cmd_symbolic(args: &[String]) -> i32 {
    use p3r_verif_harness::symbolic::{self, Counts};
    let input = arg(args, "--in").expect("--in");
    let seed: u64 = arg(args, "--seed").and_then(|s| s.parse().ok()).unwrap_or(1);
    let out = arg(args, "--out").expect("--out");
    let threads: usize = arg(args, "--threads").and_then(|s| s.parse().ok()).unwrap_or(16);
    if args.iter().any(|a| a == "--selftest") {
        symbolic::SELFTEST.store(true, std::sync::atomic::Ordering::Relaxed);
    }
    let f = std::fs::File::open(&input).expect("open input");
    let lines: Vec<String> = BufReader::new(f).lines().map(|l| l.unwrap()).filter(|l| !l.trim().is_empty()).collect();
    let nlines = lines.len();
    let agg = Mutex::new(Agg::default());
    let totals = Mutex::new(Counts::default());
    let errors = Mutex::new(Vec::<String>::new());
    let samples = Mutex::new(Vec::<Value>::new());
    let next = std::sync::atomic::AtomicUsize::new(0);
    std::thread::scope(|sc| {
        for _ in 0..threads.max(1) {
            let (agg, totals, errors, samples, next, lines) = (&agg, &totals, &errors, &samples, &next, &lines);
            // deep DAG cases: the Arc chains are dropped recursively, give the workers a large stack
            std::thread::Builder::new().stack_size(256 << 20).spawn_scoped(sc, move || {
                let mut st = Counts::default();
                let mut local: Vec<Finding> = Vec::new();
                loop {
                    let i = next.fetch_add(1, std::sync::atomic::Ordering::Relaxed);
                    if i >= nlines {
                        break;
                    }
                    let n0 = local.len();
                    let r = std::panic::catch_unwind(std::panic::AssertUnwindSafe(|| symbolic::check_line(&lines[i], seed, i as u64, &mut st, &mut local)));
                    match r {
                        Ok(Ok(())) => {}
                        Ok(Err(e)) => errors.lock().unwrap().push(e),
                        Err(_) => errors.lock().unwrap().push(format!("line {i}: driver panic outside the code under test")),
                    }
                    if i % (nlines / 5).max(1) == 0 {
                        samples.lock().unwrap().push(json!({"line": i, "case": serde_json::from_str::<Value>(&lines[i]).unwrap_or(Value::Null), "findings": local.len() - n0}));
                    }
                }
                let mut a = agg.lock().unwrap();
                for f in local {
                    a.add(f);
                }
                totals.lock().unwrap().merge(&st);
            }).unwrap();
        }
    });
    let groups: Vec<Value> = agg.lock().unwrap().groups.iter()
        .map(|((p, k, s), (n, d))| json!({"property": p, "kind": k, "signature": s, "count": n, "example": d})).collect();
    let mut stats = totals.lock().unwrap().0.clone();
    stats.insert("lines".into(), nlines as u64);
    let result = json!({"stats": stats, "findings": groups, "samples": *samples.lock().unwrap(), "errors": *errors.lock().unwrap()});
    std::fs::write(&out, serde_json::to_string_pretty(&result).unwrap()).unwrap();
    0
}

/// p3r symbolic-gen --out cases.ndjson [--seed N] [--count N]
fn cmd_symbolic_gen(args: &[String]) -> i32 {
    let out = arg(args, "--out").expect("--out");
    let seed: u64 = arg(args, "--seed").and_then(|s| s.parse().ok()).unwrap_or(1);
    let count: usize = arg(args, "--count").and_then(|s| s.parse().ok()).unwrap_or(420);
    let cases = p3r_verif_harness::symbolic::gen_cases(seed, count);
    let mut f = std::fs::File::create(&out).expect("create out");
    for c in &cases {
        writeln!(f, "{c}").unwrap();
    }
    eprintln!("{} cases", cases.len());
    0
}
