//! `p3r` — replay / conformance harness for the TLA+ specifications in /verif/spec.
use std::collections::BTreeMap;
use std::io::{BufRead, BufReader, Write};
use std::sync::Mutex;

use p3r_verif_harness::pipeline::{self, Finding, Rec, Stats};
use serde_json::{Value, json};

fn arg(args: &[String], name: &str) -> Option<String> {
    args.iter().position(|a| a == name).and_then(|i| args.get(i + 1).cloned())
}

fn main() {
    let args: Vec<String> = std::env::args().collect();
    if args.len() < 2 {
        eprintln!("usage: p3r <pipeline> ...");
        std::process::exit(2);
    }
    // panics in the code under test are data: keep the default hook quiet
    std::panic::set_hook(Box::new(|_| {}));
    let code = match args[1].as_str() {
        "pipeline" => cmd_pipeline(&args[2..]),
        "challenger" => cmd_challenger(&args[2..]),
        "digest" => cmd_digest(&args[2..]),
        "runner-faults" => cmd_runner_faults(&args[2..]),
        "scenarios" => {
            // p3r scenarios --out result.json
            let out = arg(&args[2..], "--out").expect("--out");
            let res: Vec<Value> = p3r_verif_harness::scenarios::all().into_iter().map(|s| json!({
                "id": s.id, "properties": s.properties, "what": s.what, "honest": s.honest, "forged": s.forged,
                "accepted": s.accepted, "detail": s.detail})).collect();
            std::fs::write(&out, serde_json::to_string_pretty(&json!({"scenarios": res})).unwrap()).unwrap();
            0
        }
        "forge-demo" => {
            p3r_verif_harness::forge::demo();
            0
        }
        "show" => {
            // p3r show < one replay record on stdin: print the real compiled circuit
            let mut line = String::new();
            std::io::stdin().read_line(&mut line).unwrap();
            let rec: Rec = serde_json::from_str(&line).expect("record");
            match pipeline::build(&rec.program()) {
                Ok(b) => println!("{}", serde_json::to_string(&json!({"ids": b.hid.iter().map(|e| e.0).collect::<Vec<_>>(), "circuit": pipeline::circuit_json(&b.circuit)})).unwrap()),
                Err(e) => println!("build failed: {e}"),
            }
            0
        }
        other => {
            eprintln!("unknown subcommand {other}");
            2
        }
    };
    std::process::exit(code);
}

/// Agreement between the model's verdict (TLC, GF(p)) and the code's verdict, per program.
#[derive(Default)]
struct VerdictCmp {
    counts: BTreeMap<String, u64>,
    examples: BTreeMap<String, Vec<Value>>,
}

fn verdict_cmp(vc: &mut VerdictCmp, prop: &str, model_ok: Option<bool>, code_bad: bool, prog: &p3r_verif_harness::oracle::Program) {
    let Some(m) = model_ok else { return };
    let key = format!("{prop}:model_{}_code_{}", if m { "holds" } else { "violated" }, if code_bad { "violated" } else { "holds" });
    *vc.counts.entry(key.clone()).or_default() += 1;
    if m == code_bad {
        let e = vc.examples.entry(key).or_default();
        if e.len() < 5 {
            e.push(serde_json::to_value(&prog.calls).unwrap());
        }
    }
}

#[derive(Default)]
struct Agg {
    groups: BTreeMap<(String, String, String), (u64, Value)>,
}
impl Agg {
    fn add(&mut self, f: Finding) {
        let e = self.groups.entry((f.property.clone(), f.kind.clone(), f.signature.clone())).or_insert((0, f.detail.clone()));
        e.0 += 1;
    }
}

/// p3r pipeline --in progs.ndjson --props C02,C03,C09,C10 --seed N --out result.json
fn cmd_pipeline(args: &[String]) -> i32 {
    let input = arg(args, "--in").expect("--in");
    let props = arg(args, "--props").unwrap_or_else(|| "C02,C03".into());
    let seed: u64 = arg(args, "--seed").and_then(|s| s.parse().ok()).unwrap_or(1);
    let out = arg(args, "--out").expect("--out");
    let c10_every: usize = arg(args, "--c10-every").and_then(|s| s.parse().ok()).unwrap_or(1);
    let c10_configs: usize = arg(args, "--c10-configs").and_then(|s| s.parse().ok()).unwrap_or(1);
    let threads: usize = arg(args, "--threads").and_then(|s| s.parse().ok()).unwrap_or(16);
    let want = |p: &str| props.split(',').any(|x| x == p);

    let f = std::fs::File::open(&input).expect("open input");
    let lines: Vec<String> = BufReader::new(f).lines().map(|l| l.unwrap()).filter(|l| !l.trim().is_empty()).collect();
    let agg = Mutex::new(Agg::default());
    let stats = Mutex::new(Vec::<Stats>::new());
    let errors = Mutex::new(Vec::<String>::new());
    let samples = Mutex::new(Vec::<Value>::new());
    let c10_runs = Mutex::new(0u64);
    let vcs = Mutex::new(Vec::<VerdictCmp>::new());
    let forge_all = Mutex::new(Vec::<pipeline::ForgeStats>::new());
    let distinct = Mutex::new(std::collections::HashSet::<String>::new());
    let packings_all: [(usize, usize, usize, usize); 4] = [(1, 1, 2, 1), (2, 3, 3, 8), (1, 2, 2, 1), (4, 4, 4, 16)];

    let nlines = lines.len();
    let chunk = nlines.div_ceil(threads.max(1)).max(1);
    std::thread::scope(|sc| {
        for (ti, part) in lines.chunks(chunk).enumerate() {
            let (agg, stats, errors, samples, c10_runs, distinct, vcs, forge_all) = (&agg, &stats, &errors, &samples, &c10_runs, &distinct, &vcs, &forge_all);
            let want = &want;
            sc.spawn(move || {
                let mut st = Stats::default();
                let mut local: Vec<Finding> = Vec::new();
                let mut local_distinct = std::collections::HashSet::<String>::new();
                let mut c10n = 0u64;
                let mut vc = VerdictCmp::default();
                let mut fstats = pipeline::ForgeStats::default();
                for (li, line) in part.iter().enumerate() {
                    let rec: Rec = match serde_json::from_str(line) {
                        Ok(r) => r,
                        Err(e) => {
                            errors.lock().unwrap().push(format!("bad replay line: {e}"));
                            continue;
                        }
                    };
                    let gidx = ti * chunk + li;
                    st.programs += 1;
                    let prog = rec.program();
                    if let Err(e) = pipeline::check_den0(&rec, &mut st) {
                        errors.lock().unwrap().push(e);
                    }
                    let built = match pipeline::build(&prog) {
                        Ok(b) => b,
                        Err(e) => {
                            // the builder refusing a program is not a violation of these properties
                            // unless it panics
                            if e.contains("panic") {
                                local.push(Finding { property: "C02".into(), kind: "builder-panic".into(), signature: "builder-panic@plain".into(),
                                    detail: json!({"program": serde_json::to_value(&prog).unwrap(), "error": e}) });
                            }
                            continue;
                        }
                    };
                    st.built += 1;
                    pipeline::model_drift(&rec, &built, &mut st);
                    // distinct & non-trivial: distinct compiled op lists with at least one ALU op
                    let cj = pipeline::circuit_json(&built.circuit);
                    if built.circuit.ops.iter().any(|op| matches!(op, p3_circuit::Op::Alu { .. })) {
                        local_distinct.insert(cj["ops"].to_string());
                    }
                    let mut rng = pipeline::seeded(seed, gidx as u64);
                    if want("C02") {
                        let n0 = local.len();
                        pipeline::check_c02(&prog, &built, &mut rng, &mut st, &mut local);
                        verdict_cmp(&mut vc, "C02", rec.m02, local.len() > n0, &prog);
                    }
                    if want("C03") {
                        let n0 = local.len();
                        pipeline::check_c03(&prog, &built, &mut rng, &mut st, &mut local);
                        verdict_cmp(&mut vc, "C03", rec.m03, local.len() > n0, &prog);
                    }
                    if want("C09") {
                        let n0 = local.len();
                        pipeline::check_c09(&prog, &built, &mut rng, &mut st, &mut local);
                        verdict_cmp(&mut vc, "C09", rec.m09, local.len() > n0, &prog);
                    }
                    if want("C04") && gidx % c10_every == 0 {
                        pipeline::check_c04(&prog, &built, &mut rng, &mut fstats, 24, &mut local);
                    }
                    if want("C10") && gidx % c10_every == 0 {
                        c10n += pipeline::check_c10(&prog, &built, &mut rng, &packings_all[..c10_configs.min(4)], &mut local);
                    }
                    if gidx % (nlines / 5).max(1) == 0 {
                        samples.lock().unwrap().push(json!({"program": serde_json::to_value(&prog).unwrap(), "compiled": cj}));
                    }
                }
                let mut a = agg.lock().unwrap();
                for f in local {
                    a.add(f);
                }
                stats.lock().unwrap().push(st);
                vcs.lock().unwrap().push(vc);
                forge_all.lock().unwrap().push(fstats);
                *c10_runs.lock().unwrap() += c10n;
                distinct.lock().unwrap().extend(local_distinct);
            });
        }
    });

    let mut tot = Stats::default();
    for s in stats.lock().unwrap().iter() {
        tot.programs += s.programs;
        tot.built += s.built;
        tot.sat_inputs += s.sat_inputs;
        tot.no_sat_input += s.no_sat_input;
        tot.violating_inputs += s.violating_inputs;
        tot.zero_div_inputs += s.zero_div_inputs;
        tot.runs += s.runs;
        tot.values_compared += s.values_compared;
        tot.c03_points += s.c03_points;
        tot.c03_tangent_candidates += s.c03_tangent_candidates;
        tot.c03_confirmed += s.c03_confirmed;
        tot.c03_skipped += s.c03_skipped;
        tot.drift_ops += s.drift_ops;
        tot.drift_ids += s.drift_ids;
        tot.den0_checked += s.den0_checked;
    }
    let mut ftot = pipeline::ForgeStats::default();
    for f in forge_all.lock().unwrap().iter() {
        ftot.programs += f.programs;
        ftot.forgeries += f.forgeries;
        ftot.rejected += f.rejected;
        ftot.harmless_skipped += f.harmless_skipped;
        ftot.accepted_harmful += f.accepted_harmful;
        for (k, v) in &f.classes {
            *ftot.classes.entry(k.clone()).or_default() += v;
        }
    }
    let mut vtot = VerdictCmp::default();
    for v in vcs.lock().unwrap().iter() {
        for (k, n) in &v.counts {
            *vtot.counts.entry(k.clone()).or_default() += n;
        }
        for (k, ex) in &v.examples {
            let e = vtot.examples.entry(k.clone()).or_default();
            for x in ex {
                if e.len() < 5 {
                    e.push(x.clone());
                }
            }
        }
    }
    let groups: Vec<Value> = agg
        .lock()
        .unwrap()
        .groups
        .iter()
        .map(|((p, k, s), (n, d))| json!({"property": p, "kind": k, "signature": s, "count": n, "example": d}))
        .collect();
    let result = json!({
        "stats": {
            "programs": tot.programs, "built": tot.built, "sat_inputs": tot.sat_inputs, "no_sat_input": tot.no_sat_input,
            "violating_inputs": tot.violating_inputs, "zero_div_inputs": tot.zero_div_inputs, "runs": tot.runs,
            "values_compared": tot.values_compared, "c03_points": tot.c03_points,
            "c03_tangent_candidates": tot.c03_tangent_candidates, "c03_confirmed": tot.c03_confirmed, "c03_skipped": tot.c03_skipped,
            "model_drift_unexplained": tot.drift_ops, "model_drift_const_folding": tot.drift_ids, "den0_checked": tot.den0_checked,
            "c10_proofs": *c10_runs.lock().unwrap(), "distinct_nontrivial": distinct.lock().unwrap().len(),
        },
        "forge": {"programs": ftot.programs, "forgeries": ftot.forgeries, "rejected": ftot.rejected, "harmless_skipped": ftot.harmless_skipped,
                  "accepted": ftot.accepted_harmful, "classes": ftot.classes},
        "model_vs_code": {"counts": vtot.counts, "disagreement_examples": vtot.examples},
        "errors": *errors.lock().unwrap(),
        "findings": groups,
        "samples": *samples.lock().unwrap(),
    });
    let mut f = std::fs::File::create(&out).expect("create out");
    f.write_all(serde_json::to_string_pretty(&result).unwrap().as_bytes()).unwrap();
    0
}

/// p3r challenger --in hist.ndjson --seed N --out result.json [--configs a,b]
fn cmd_challenger(args: &[String]) -> i32 {
    use p3r_verif_harness::challenger::{self, ChRec};
    let input = arg(args, "--in").expect("--in");
    let seed: u64 = arg(args, "--seed").and_then(|s| s.parse().ok()).unwrap_or(1);
    let out = arg(args, "--out").expect("--out");
    let threads: usize = arg(args, "--threads").and_then(|s| s.parse().ok()).unwrap_or(16);
    let cfgs: Vec<String> = arg(args, "--configs").map(|s| s.split(',').map(String::from).collect()).unwrap_or_else(|| challenger::CONFIGS.iter().map(|s| s.to_string()).collect());
    let f = std::fs::File::open(&input).expect("open input");
    let lines: Vec<String> = BufReader::new(f).lines().map(|l| l.unwrap()).filter(|l| !l.trim().is_empty()).collect();
    let nlines = lines.len();
    let chunk = nlines.div_ceil(threads.max(1)).max(1);
    let agg = Mutex::new(Agg::default());
    let totals = Mutex::new(BTreeMap::<String, u64>::new());
    let samples = Mutex::new(Vec::<Value>::new());
    let distinct = Mutex::new(std::collections::HashSet::<String>::new());
    std::thread::scope(|sc| {
        for (ti, part) in lines.chunks(chunk).enumerate() {
            let (agg, totals, samples, cfgs, distinct) = (&agg, &totals, &samples, &cfgs, &distinct);
            sc.spawn(move || {
                let mut local: Vec<Finding> = Vec::new();
                let mut t = BTreeMap::<String, u64>::new();
                let mut ld = std::collections::HashSet::<String>::new();
                for (li, line) in part.iter().enumerate() {
                    let rec: ChRec = match serde_json::from_str(line) {
                        Ok(r) => r,
                        Err(_) => {
                            *t.entry("bad_lines".into()).or_default() += 1;
                            continue;
                        }
                    };
                    let gidx = (ti * chunk + li) as u64;
                    *t.entry("histories".into()).or_default() += 1;
                    let hist_json = serde_json::to_value(&rec.hist).unwrap();
                    if rec.hist.iter().map(|h| h.op.as_str()).collect::<std::collections::HashSet<_>>().len() >= 2 {
                        ld.insert(hist_json.to_string());
                    }
                    for cfg in cfgs.iter() {
                        let Some(o) = challenger::replay_config(cfg, &rec, seed.wrapping_mul(1_000_003).wrapping_add(gidx)) else { continue };
                        *t.entry(format!("replays:{cfg}")).or_default() += 1;
                        *t.entry("replays".into()).or_default() += 1;
                        *t.entry("samples_compared".into()).or_default() += o.samples as u64;
                        if o.pow_rejected {
                            *t.entry("pow_rejected_by_native".into()).or_default() += 1;
                        }
                        // model binding: the number of permutations the model predicts
                        if !o.pow_rejected && o.native_perms != rec.nperms {
                            *t.entry("model_drift_perm_count".into()).or_default() += 1;
                        }
                        let has_foreign = rec.hist.iter().any(|h| h.op == "foreign");
                        match (&o.mismatch, rec.agree) {
                            (None, true) => *t.entry("agree:model_and_code".into()).or_default() += 1,
                            (None, false) => *t.entry("model_diverges_code_agrees".into()).or_default() += 1,
                            (Some(_), false) => *t.entry("diverge:model_and_code".into()).or_default() += 1,
                            (Some(_), true) => *t.entry("model_agrees_code_diverges".into()).or_default() += 1,
                        }
                        if let Some(m) = o.mismatch {
                            let kind = if m.starts_with("value handed out") { "sample-differs-from-native" }
                                else if m.starts_with("permutation count") { "permutation-count-differs" }
                                else if m.starts_with("native proof-of-work") { "pow-accepted-by-circuit-only" }
                                else if m.starts_with("circuit run fails") { "circuit-unsatisfiable-on-native-transcript" }
                                else { "transcript-replay-error" };
                            let shape = if has_foreign { "foreign-permutation-row-between-challenger-rows" } else { "plain" };
                            local.push(Finding { property: "C05".into(), kind: kind.into(), signature: format!("{kind}@{shape}+{cfg}"),
                                detail: json!({"config": cfg, "history": hist_json, "mismatch": m, "detail": o.detail}) });
                        }
                    }
                    if gidx % (nlines as u64 / 5).max(1) == 0 {
                        samples.lock().unwrap().push(json!({"history": hist_json, "model": {"perms": rec.nperms, "samples": rec.nsamples, "agree": rec.agree}}));
                    }
                }
                let mut a = agg.lock().unwrap();
                for f in local {
                    a.add(f);
                }
                let mut tt = totals.lock().unwrap();
                for (k, v) in t {
                    *tt.entry(k).or_default() += v;
                }
                distinct.lock().unwrap().extend(ld);
            });
        }
    });
    let groups: Vec<Value> = agg.lock().unwrap().groups.iter()
        .map(|((p, k, s), (n, d))| json!({"property": p, "kind": k, "signature": s, "count": n, "example": d})).collect();
    let mut stats = totals.lock().unwrap().clone();
    stats.insert("distinct_nontrivial".into(), distinct.lock().unwrap().len() as u64);
    let result = json!({"stats": stats, "findings": groups, "samples": *samples.lock().unwrap(), "errors": []});
    std::fs::write(&out, serde_json::to_string_pretty(&result).unwrap()).unwrap();
    0
}

/// p3r digest --in progs.ndjson --every K --out digests.txt
/// One line per selected program: index, digest, per-part digests.  Run in several processes
/// (different hash seeds) and compare the files.
fn cmd_digest(args: &[String]) -> i32 {
    use p3_circuit_prover::batch_stark_prover::TablePacking;
    let input = arg(args, "--in").expect("--in");
    let out = arg(args, "--out").expect("--out");
    let every: usize = arg(args, "--every").and_then(|s| s.parse().ok()).unwrap_or(1);
    let f = std::fs::File::open(&input).expect("open input");
    let mut w = std::io::BufWriter::new(std::fs::File::create(&out).expect("create"));
    let packing = TablePacking::new(1, 2);
    for (i, line) in BufReader::new(f).lines().enumerate() {
        if i % every != 0 {
            continue;
        }
        let line = line.unwrap();
        let Ok(rec) = serde_json::from_str::<Rec>(&line) else { continue };
        let prog = rec.program();
        // build twice in this process as well
        let (Ok(b1), Ok(b2)) = (pipeline::build(&prog), pipeline::build(&prog)) else {
            writeln!(w, "{i} build-refused").unwrap();
            continue;
        };
        let d1 = pipeline::digest(&b1, &packing);
        let d2 = pipeline::digest(&b2, &packing);
        match (d1, d2) {
            (Ok((a, pa)), Ok((b, _))) => {
                let parts: Vec<String> = pa.iter().map(|(k, v)| format!("{k}={v:016x}")).collect();
                writeln!(w, "{i} {a:016x} same_process_rebuild={} {}", a == b, parts.join(" ")).unwrap();
            }
            (Err(e), _) | (_, Err(e)) => writeln!(w, "{i} error {}", e.chars().take(60).collect::<String>().replace(' ', "_")).unwrap(),
        }
    }
    0
}

/// p3r runner-faults --in progs.ndjson --every K --seed N --out outcomes.txt
/// For each selected program and each input-fault scenario of the Runner model: the outcome class
/// (ok / err / panic).  The caller runs this in a debug and in a release build and compares.
fn cmd_runner_faults(args: &[String]) -> i32 {
    use p3_field::PrimeCharacteristicRing;
    use p3r_verif_harness::pipeline::F;
    let input = arg(args, "--in").expect("--in");
    let out = arg(args, "--out").expect("--out");
    let every: usize = arg(args, "--every").and_then(|s| s.parse().ok()).unwrap_or(1);
    let seed: u64 = arg(args, "--seed").and_then(|s| s.parse().ok()).unwrap_or(1);
    let f = std::fs::File::open(&input).expect("open input");
    let mut w = std::io::BufWriter::new(std::fs::File::create(&out).expect("create"));
    let scenarios = ["honest", "no_public", "short_public", "long_public", "no_private", "short_private", "long_private",
        "public_twice_same", "public_twice_different", "private_twice_different"];
    for (i, line) in BufReader::new(f).lines().enumerate() {
        if i % every != 0 {
            continue;
        }
        let line = line.unwrap();
        let Ok(rec) = serde_json::from_str::<Rec>(&line) else { continue };
        let prog = rec.program();
        let Ok(built) = pipeline::build(&prog) else { continue };
        let mut rng = pipeline::seeded(seed, i as u64);
        let Some(x) = pipeline::find_satisfying(&prog, &mut rng, false) else { continue };
        let pubs: Vec<F> = x[..prog.npub].iter().map(|v| v.0).collect();
        let privs: Vec<F> = x[prog.npub..].iter().map(|v| v.0).collect();
        let c = &built.circuit;
        let mut cols = Vec::new();
        for sc in scenarios {
            let r = std::panic::catch_unwind(std::panic::AssertUnwindSafe(|| -> Result<(), String> {
                let mut runner = c.runner();
                let mut p = pubs.clone();
                let mut v = privs.clone();
                let e = |e: p3_circuit::CircuitError| format!("{e:?}");
                match sc {
                    "no_public" => {}
                    "short_public" => {
                        p.pop();
                        runner.set_public_inputs(&p).map_err(e)?
                    }
                    "long_public" => {
                        p.push(F::ONE);
                        runner.set_public_inputs(&p).map_err(e)?
                    }
                    "public_twice_same" => {
                        runner.set_public_inputs(&p).map_err(e)?;
                        runner.set_public_inputs(&p).map_err(e)?
                    }
                    "public_twice_different" => {
                        runner.set_public_inputs(&p).map_err(e)?;
                        for q in p.iter_mut() {
                            *q += F::ONE;
                        }
                        runner.set_public_inputs(&p).map_err(e)?
                    }
                    _ => runner.set_public_inputs(&p).map_err(e)?,
                }
                match sc {
                    "no_private" => {}
                    "short_private" => {
                        v.pop();
                        runner.set_private_inputs(&v).map_err(e)?
                    }
                    "long_private" => {
                        v.push(F::ONE);
                        runner.set_private_inputs(&v).map_err(e)?
                    }
                    "private_twice_different" => {
                        runner.set_private_inputs(&v).map_err(e)?;
                        for q in v.iter_mut() {
                            *q += F::ONE;
                        }
                        runner.set_private_inputs(&v).map_err(e)?
                    }
                    _ => {
                        if c.private_flat_len > 0 {
                            runner.set_private_inputs(&v).map_err(e)?
                        }
                    }
                }
                runner.run().map(|_| ()).map_err(e)
            }));
            let class = match r {
                Ok(Ok(())) => "ok".to_string(),
                Ok(Err(e)) => format!("err:{}", e.split(|c: char| !c.is_alphanumeric()).next().unwrap_or("")),
                Err(_) => "panic".to_string(),
            };
            cols.push(format!("{sc}={class}"));
        }
        // private input slots that an op or another input row also writes: their value does not depend on the caller
        let aliased = c.private_input_rows.iter().any(|p| c.public_rows.contains(p) || c.ops.iter().any(|op| match op {
            p3_circuit::Op::Const { out, .. } | p3_circuit::Op::Public { out, .. } => out == p,
            p3_circuit::Op::Alu { out, b, .. } => out == p || b == p,
            _ => false,
        }));
        let pub_aliased = !c.public_rows.is_empty() && c.public_rows.iter().all(|p| c.private_input_rows.contains(p) || c.ops.iter().any(|op| match op {
            p3_circuit::Op::Const { out, .. } => out == p,
            p3_circuit::Op::Alu { out, b, .. } => out == p || b == p,
            _ => false,
        }));
        writeln!(w, "{i} npub={} npriv={} m19={} priv_aliased={} pub_aliased={} {}", prog.npub, prog.npriv, rec.m19.map(|b| b.to_string()).unwrap_or_else(|| "na".into()), aliased, pub_aliased, cols.join(" ")).unwrap();
    }
    // non-primitive executors: a permutation fed by a private input / a public input
    for (name, class) in p3r_verif_harness::scenarios::npo_runner_faults() {
        writeln!(w, "npo {name}={class}").unwrap();
    }
    0
}
