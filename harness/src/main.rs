//! `p3r` — replay / conformance harness for the TLA+ specifications in /verif/spec.
use std::collections::BTreeMap;
use std::io::{BufRead, BufReader, Write};
use std::sync::Mutex;

use p3r_verif_harness::pipeline::{self, Finding, Rec, Stats};
use serde_json::{Value, json};

fn arg(args: &[String], name: &str) -> Option<String> {
    args.iter().position(|a| a == name).and_then(|i| args.get(i + 1).cloned())
}

fn main() {
    let args: Vec<String> = std::env::args().collect();
    if args.len() < 2 {
        eprintln!("usage: p3r <pipeline> ...");
        std::process::exit(2);
    }
    // panics in the code under test are data: keep the default hook quiet
    std::panic::set_hook(Box::new(|_| {}));
    let code = match args[1].as_str() {
        "pipeline" => cmd_pipeline(&args[2..]),
        "show" => {
            // p3r show < one replay record on stdin: print the real compiled circuit
            let mut line = String::new();
            std::io::stdin().read_line(&mut line).unwrap();
            let rec: Rec = serde_json::from_str(&line).expect("record");
            match pipeline::build(&rec.program()) {
                Ok(b) => println!("{}", serde_json::to_string(&json!({"ids": b.hid.iter().map(|e| e.0).collect::<Vec<_>>(), "circuit": pipeline::circuit_json(&b.circuit)})).unwrap()),
                Err(e) => println!("build failed: {e}"),
            }
            0
        }
        other => {
            eprintln!("unknown subcommand {other}");
            2
        }
    };
    std::process::exit(code);
}

/// Agreement between the model's verdict (TLC, GF(p)) and the code's verdict, per program.
#[derive(Default)]
struct VerdictCmp {
    counts: BTreeMap<String, u64>,
    examples: BTreeMap<String, Vec<Value>>,
}

fn verdict_cmp(vc: &mut VerdictCmp, prop: &str, model_ok: Option<bool>, code_bad: bool, prog: &p3r_verif_harness::oracle::Program) {
    let Some(m) = model_ok else { return };
    let key = format!("{prop}:model_{}_code_{}", if m { "holds" } else { "violated" }, if code_bad { "violated" } else { "holds" });
    *vc.counts.entry(key.clone()).or_default() += 1;
    if m == code_bad {
        let e = vc.examples.entry(key).or_default();
        if e.len() < 5 {
            e.push(serde_json::to_value(&prog.calls).unwrap());
        }
    }
}

#[derive(Default)]
struct Agg {
    groups: BTreeMap<(String, String, String), (u64, Value)>,
}
impl Agg {
    fn add(&mut self, f: Finding) {
        let e = self.groups.entry((f.property.clone(), f.kind.clone(), f.signature.clone())).or_insert((0, f.detail.clone()));
        e.0 += 1;
    }
}

/// p3r pipeline --in progs.ndjson --props C02,C03,C09,C10 --seed N --out result.json
fn cmd_pipeline(args: &[String]) -> i32 {
    let input = arg(args, "--in").expect("--in");
    let props = arg(args, "--props").unwrap_or_else(|| "C02,C03".into());
    let seed: u64 = arg(args, "--seed").and_then(|s| s.parse().ok()).unwrap_or(1);
    let out = arg(args, "--out").expect("--out");
    let c10_every: usize = arg(args, "--c10-every").and_then(|s| s.parse().ok()).unwrap_or(1);
    let c10_configs: usize = arg(args, "--c10-configs").and_then(|s| s.parse().ok()).unwrap_or(1);
    let threads: usize = arg(args, "--threads").and_then(|s| s.parse().ok()).unwrap_or(16);
    let want = |p: &str| props.split(',').any(|x| x == p);

    let f = std::fs::File::open(&input).expect("open input");
    let lines: Vec<String> = BufReader::new(f).lines().map(|l| l.unwrap()).filter(|l| !l.trim().is_empty()).collect();
    let agg = Mutex::new(Agg::default());
    let stats = Mutex::new(Vec::<Stats>::new());
    let errors = Mutex::new(Vec::<String>::new());
    let samples = Mutex::new(Vec::<Value>::new());
    let c10_runs = Mutex::new(0u64);
    let vcs = Mutex::new(Vec::<VerdictCmp>::new());
    let distinct = Mutex::new(std::collections::HashSet::<String>::new());
    let packings_all: [(usize, usize, usize, usize); 4] = [(1, 1, 2, 1), (1, 2, 2, 1), (2, 3, 3, 8), (1, 1, 4, 16)];

    let nlines = lines.len();
    let chunk = nlines.div_ceil(threads.max(1)).max(1);
    std::thread::scope(|sc| {
        for (ti, part) in lines.chunks(chunk).enumerate() {
            let (agg, stats, errors, samples, c10_runs, distinct, vcs) = (&agg, &stats, &errors, &samples, &c10_runs, &distinct, &vcs);
            let want = &want;
            sc.spawn(move || {
                let mut st = Stats::default();
                let mut local: Vec<Finding> = Vec::new();
                let mut local_distinct = std::collections::HashSet::<String>::new();
                let mut c10n = 0u64;
                let mut vc = VerdictCmp::default();
                for (li, line) in part.iter().enumerate() {
                    let rec: Rec = match serde_json::from_str(line) {
                        Ok(r) => r,
                        Err(e) => {
                            errors.lock().unwrap().push(format!("bad replay line: {e}"));
                            continue;
                        }
                    };
                    let gidx = ti * chunk + li;
                    st.programs += 1;
                    let prog = rec.program();
                    if let Err(e) = pipeline::check_den0(&rec, &mut st) {
                        errors.lock().unwrap().push(e);
                    }
                    let built = match pipeline::build(&prog) {
                        Ok(b) => b,
                        Err(e) => {
                            // the builder refusing a program is not a violation of these properties
                            // unless it panics
                            if e.contains("panic") {
                                local.push(Finding { property: "C02".into(), kind: "builder-panic".into(), signature: "builder-panic@plain".into(),
                                    detail: json!({"program": serde_json::to_value(&prog).unwrap(), "error": e}) });
                            }
                            continue;
                        }
                    };
                    st.built += 1;
                    pipeline::model_drift(&rec, &built, &mut st);
                    // distinct & non-trivial: distinct compiled op lists with at least one ALU op
                    let cj = pipeline::circuit_json(&built.circuit);
                    if built.circuit.ops.iter().any(|op| matches!(op, p3_circuit::Op::Alu { .. })) {
                        local_distinct.insert(cj["ops"].to_string());
                    }
                    let mut rng = pipeline::seeded(seed, gidx as u64);
                    if want("C02") {
                        let n0 = local.len();
                        pipeline::check_c02(&prog, &built, &mut rng, &mut st, &mut local);
                        verdict_cmp(&mut vc, "C02", rec.m02, local.len() > n0, &prog);
                    }
                    if want("C03") {
                        let n0 = local.len();
                        pipeline::check_c03(&prog, &built, &mut rng, &mut st, &mut local);
                        verdict_cmp(&mut vc, "C03", rec.m03, local.len() > n0, &prog);
                    }
                    if want("C09") {
                        pipeline::check_c09(&prog, &built, &mut st, &mut local);
                    }
                    if want("C10") && gidx % c10_every == 0 {
                        c10n += pipeline::check_c10(&prog, &built, &mut rng, &packings_all[..c10_configs.min(4)], &mut local);
                    }
                    if gidx % (nlines / 5).max(1) == 0 {
                        samples.lock().unwrap().push(json!({"program": serde_json::to_value(&prog).unwrap(), "compiled": cj}));
                    }
                }
                let mut a = agg.lock().unwrap();
                for f in local {
                    a.add(f);
                }
                stats.lock().unwrap().push(st);
                vcs.lock().unwrap().push(vc);
                *c10_runs.lock().unwrap() += c10n;
                distinct.lock().unwrap().extend(local_distinct);
            });
        }
    });

    let mut tot = Stats::default();
    for s in stats.lock().unwrap().iter() {
        tot.programs += s.programs;
        tot.built += s.built;
        tot.sat_inputs += s.sat_inputs;
        tot.no_sat_input += s.no_sat_input;
        tot.violating_inputs += s.violating_inputs;
        tot.zero_div_inputs += s.zero_div_inputs;
        tot.runs += s.runs;
        tot.values_compared += s.values_compared;
        tot.c03_points += s.c03_points;
        tot.c03_tangent_candidates += s.c03_tangent_candidates;
        tot.c03_confirmed += s.c03_confirmed;
        tot.c03_skipped += s.c03_skipped;
        tot.drift_ops += s.drift_ops;
        tot.drift_ids += s.drift_ids;
        tot.den0_checked += s.den0_checked;
    }
    let mut vtot = VerdictCmp::default();
    for v in vcs.lock().unwrap().iter() {
        for (k, n) in &v.counts {
            *vtot.counts.entry(k.clone()).or_default() += n;
        }
        for (k, ex) in &v.examples {
            let e = vtot.examples.entry(k.clone()).or_default();
            for x in ex {
                if e.len() < 5 {
                    e.push(x.clone());
                }
            }
        }
    }
    let groups: Vec<Value> = agg
        .lock()
        .unwrap()
        .groups
        .iter()
        .map(|((p, k, s), (n, d))| json!({"property": p, "kind": k, "signature": s, "count": n, "example": d}))
        .collect();
    let result = json!({
        "stats": {
            "programs": tot.programs, "built": tot.built, "sat_inputs": tot.sat_inputs, "no_sat_input": tot.no_sat_input,
            "violating_inputs": tot.violating_inputs, "zero_div_inputs": tot.zero_div_inputs, "runs": tot.runs,
            "values_compared": tot.values_compared, "c03_points": tot.c03_points,
            "c03_tangent_candidates": tot.c03_tangent_candidates, "c03_confirmed": tot.c03_confirmed, "c03_skipped": tot.c03_skipped,
            "model_drift_unexplained": tot.drift_ops, "model_drift_const_folding": tot.drift_ids, "den0_checked": tot.den0_checked,
            "c10_proofs": *c10_runs.lock().unwrap(), "distinct_nontrivial": distinct.lock().unwrap().len(),
        },
        "model_vs_code": {"counts": vtot.counts, "disagreement_examples": vtot.examples},
        "errors": *errors.lock().unwrap(),
        "findings": groups,
        "samples": *samples.lock().unwrap(),
    });
    let mut f = std::fs::File::create(&out).expect("create out");
    f.write_all(serde_json::to_string_pretty(&result).unwrap().as_bytes()).unwrap();
    0
}
