//! C18 for programs with non-primitive operations (Poseidon2 permutation, recompose): the canonical digest of everything a
//! prover and a verifier derive independently - operation list with witness numbering, input rows, preprocessed columns of
//! the primitive AND the non-primitive tables, table order and degrees, preprocessed commitment.  One line per program; the
//! check runs the command in several processes (per-process hash seeds) and compares the lines.
use std::fmt::Debug;

use p3_batch_stark::ProverData;
use p3_circuit::ops::NonPrimitivePreprocessedMap;
use p3_circuit::{Circuit, Op};
use p3_circuit_prover::common::CircuitTableAir;
use p3_circuit_prover::config::KoalaBearConfig;
use p3_koala_bear::KoalaBear;

fn fnv(s: &str) -> u64 {
    let mut h: u64 = 0xcbf29ce484222325;
    for b in s.bytes() {
        h ^= b as u64;
        h = h.wrapping_mul(0x100000001b3);
    }
    h
}

fn ops_text<EF: Debug + p3_field::Field>(c: &Circuit<EF>) -> String {
    let mut s = String::new();
    for op in &c.ops {
        match op {
            Op::Const { out, val } => s.push_str(&format!("C {} {val:?};", out.0)),
            Op::Public { out, public_pos } => s.push_str(&format!("P {} {public_pos};", out.0)),
            Op::Alu { kind, a, b, c, out, intermediate_out } => s.push_str(&format!("A {kind:?} {} {} {:?} {} {:?};", a.0, b.0, c.map(|x| x.0), out.0, intermediate_out.map(|x| x.0))),
            Op::Hint { inputs, outputs, .. } => s.push_str(&format!("H {:?} {:?};", inputs.iter().map(|x| x.0).collect::<Vec<_>>(), outputs.iter().map(|x| x.0).collect::<Vec<_>>())),
            Op::NonPrimitiveOpWithExecutor { inputs, outputs, executor, op_id } => s.push_str(&format!(
                "N {} {:?} {:?} {:?};",
                executor.op_type().as_str(),
                op_id,
                inputs.iter().map(|v| v.iter().map(|x| x.0).collect::<Vec<_>>()).collect::<Vec<_>>(),
                outputs.iter().map(|v| v.iter().map(|x| x.0).collect::<Vec<_>>()).collect::<Vec<_>>()
            )),
        }
    }
    s
}

pub fn line<EF: Debug + p3_field::Field, const D: usize>(
    name: &str,
    c: &Circuit<EF>,
    pc: &[Vec<KoalaBear>],
    npc: &NonPrimitivePreprocessedMap<KoalaBear>,
    airs: &[CircuitTableAir<KoalaBearConfig, D>],
    degs: &[usize],
    pd: &ProverData<KoalaBearConfig>,
) -> String {
    let mut parts: Vec<(&str, u64)> = Vec::new();
    parts.push(("ops", fnv(&ops_text(c))));
    let mut e2w: Vec<(u32, u32)> = c.expr_to_widx.iter().map(|(e, w)| (e.0, w.0)).collect();
    e2w.sort();
    parts.push(("expr_to_widx", fnv(&format!("{e2w:?}"))));
    parts.push(("input_rows", fnv(&format!("{:?}|{:?}", c.public_rows.iter().map(|w| w.0).collect::<Vec<_>>(), c.private_input_rows.iter().map(|w| w.0).collect::<Vec<_>>()))));
    parts.push(("primitive_columns", fnv(&format!("{pc:?}"))));
    let mut np: Vec<(String, &Vec<KoalaBear>)> = npc.iter().map(|(k, v)| (k.as_str().to_string(), v)).collect();
    np.sort_by(|a, b| a.0.cmp(&b.0));
    parts.push(("non_primitive_columns", fnv(&format!("{np:?}"))));
    let kinds: Vec<String> = airs
        .iter()
        .map(|a| {
            let k = match a {
                CircuitTableAir::Const(_) => "Const",
                CircuitTableAir::Public(_) => "Public",
                CircuitTableAir::Alu(_) => "Alu",
                CircuitTableAir::Dynamic(_) => "Dynamic",
            };
            // main width and the preprocessed trace identify WHICH table sits at this position
            let prep = p3_air::BaseAir::<KoalaBear>::preprocessed_trace(a);
            let ph = prep.as_ref().map_or(0, |m| fnv(&format!("{}x{:?}", m.width, m.values)));
            format!("{k}:{}:{ph:x}", p3_air::BaseAir::<KoalaBear>::width(a))
        })
        .collect();
    parts.push(("table_order_and_degrees", fnv(&format!("{kinds:?}{degs:?}"))));
    let commit = pd.common.preprocessed.as_ref().map(|g| format!("{:?}|{:?}", g.commitment, g.matrix_to_instance)).unwrap_or_default();
    parts.push(("preprocessed_commitment", fnv(&commit)));
    let all = fnv(&format!("{parts:?}"));
    format!("npo {name} {all:016x} {}", parts.iter().map(|(k, v)| format!("{k}={v:016x}")).collect::<Vec<_>>().join(" "))
}

/// A degree-4 KoalaBear circuit with a width-16 and a width-32 Poseidon2 table (the combination a recursion backend with an
/// extra Poseidon2 table produces), keyed with one AIR builder per configuration.
fn two_tables(name: &str, rows16: usize, rows32: usize) -> Result<String, String> {
    use p3_circuit::ops::{Poseidon2Config, Poseidon2PermCall, generate_poseidon2_trace};
    use p3_circuit::{CircuitBuilder, ExprId};
    use p3_circuit_prover::batch_stark_prover::poseidon2_air_builders_for_configs;
    use p3_circuit_prover::common::{NpoPreprocessor, get_airs_and_degrees_with_prep};
    use p3_circuit_prover::{ConstraintProfile, Poseidon2Preprocessor, TablePacking};
    use p3_field::PrimeCharacteristicRing;
    use p3_koala_bear::{default_koalabear_poseidon2_16, default_koalabear_poseidon2_32};
    use p3_poseidon2_circuit_air::{KoalaBearD4Width16, KoalaBearD4Width32};
    type E4 = p3_field::extension::BinomialExtensionField<KoalaBear, 4>;
    let mut b = CircuitBuilder::<E4>::new();
    b.enable_poseidon2_perm::<KoalaBearD4Width16, _>(generate_poseidon2_trace::<E4, KoalaBearD4Width16>, default_koalabear_poseidon2_16());
    b.enable_poseidon2_perm_width_32::<KoalaBearD4Width32, _>(generate_poseidon2_trace::<E4, KoalaBearD4Width32>, default_koalabear_poseidon2_32());
    let cfgs = [(Poseidon2Config::KOALA_BEAR_D4_W16, 4usize, rows16), (Poseidon2Config::KOALA_BEAR_D4_W32, 8, rows32)];
    for (config, limbs, rows) in cfgs {
        for r in 0..rows {
            let mut inputs: Vec<Option<ExprId>> = vec![None; limbs];
            if r == 0 {
                for (i, slot) in inputs.iter_mut().enumerate() {
                    *slot = Some(b.define_const(E4::from_u64((limbs * 10 + i + 1) as u64)));
                }
            }
            let last = r + 1 == rows;
            let (_, outs) = b
                .add_poseidon2_perm(&Poseidon2PermCall { config, new_start: r == 0, merkle_path: false, mmcs_bit: None, mmcs_bit2: None, inputs, out_ctl: vec![last, last], return_all_outputs: false, mmcs_index_sum: None })
                .map_err(|e| format!("perm: {e:?}"))?;
            if last {
                let s = b.add(outs[0].ok_or("no output")?, outs[1].ok_or("no output")?);
                let p = b.public_input();
                b.connect(s, p);
            }
        }
    }
    let c = b.build().map_err(|e| format!("build: {e:?}"))?;
    let preps: Vec<Box<dyn NpoPreprocessor<KoalaBear>>> = vec![Box::new(Poseidon2Preprocessor)];
    let builders = poseidon2_air_builders_for_configs::<KoalaBearConfig, 4>(vec![Poseidon2Config::KOALA_BEAR_D4_W16, Poseidon2Config::KOALA_BEAR_D4_W32]);
    let (ad, pc, npc) = get_airs_and_degrees_with_prep::<KoalaBearConfig, _, 4>(&c, &TablePacking::default(), &preps, &builders, ConstraintProfile::Standard).map_err(|e| format!("{e:?}"))?;
    let (airs, degs): (Vec<_>, Vec<usize>) = ad.into_iter().unzip();
    let pd = ProverData::from_airs_and_degrees(&p3_circuit_prover::config::koala_bear(), &airs, &degs);
    Ok(line(name, &c, &pc, &npc, &airs, &degs, &pd))
}

/// `p3r digest-npo --out FILE`: one line per NPO-bearing program, each built twice in this process.
pub fn cmd(args: &[String]) -> i32 {
    let out = args.iter().position(|a| a == "--out").and_then(|i| args.get(i + 1).cloned());
    let mut lines = Vec::new();
    type DigestFn = fn(usize, &'static str) -> Result<String, String>;
    for (nm, first, f) in [("challenger-kb-d4-ext", 8usize, crate::chsweep::digest_ext as DigestFn), ("challenger-kb-d4-ext-partial", 3, crate::chsweep::digest_ext),
                           ("challenger-kb-d1-in-quintic", 8, crate::chsweep::digest_base), ("challenger-kb-d1-in-quintic-partial", 3, crate::chsweep::digest_base)] {
        let a = std::panic::catch_unwind(|| f(first, nm)).unwrap_or_else(|_| Err("panic".into()));
        let b = std::panic::catch_unwind(|| f(first, nm)).unwrap_or_else(|_| Err("panic".into()));
        match (a, b) {
            (Ok(a), Ok(b)) => lines.push(format!("{a} same_process_rebuild={}", a == b)),
            (a, b) => lines.push(format!("npo {nm} ERROR {:?} {:?}", a.err(), b.err())),
        }
    }
    lines.extend(crate::npocells::digest_lines());
    // two Poseidon2 tables (W16 and W32) with one AIR builder per configuration
    for rows in [(1usize, 5usize), (3, 2)] {
        let nm = format!("two-poseidon2-tables-w16x{}-w32x{}", rows.0, rows.1);
        let one = || two_tables(&nm, rows.0, rows.1);
        let a = std::panic::catch_unwind(std::panic::AssertUnwindSafe(one)).unwrap_or_else(|_| Err("panic".into()));
        let b = std::panic::catch_unwind(std::panic::AssertUnwindSafe(one)).unwrap_or_else(|_| Err("panic".into()));
        match (a, b) {
            (Ok(a), Ok(b)) => lines.push(format!("{a} same_process_rebuild={}", a == b)),
            (a, b) => lines.push(format!("npo {nm} ERROR {:?} {:?}", a.err(), b.err())),
        }
    }
    let text = lines.join("\n") + "\n";
    match out {
        Some(p) => std::fs::write(p, text).map(|_| 0).unwrap_or(2),
        None => {
            print!("{text}");
            0
        }
    }
}
