//! Small dense linear algebra over a field (Gaussian elimination), used by the
//! satisfying-input solver and by the tangent-space implication test of C03.
use crate::oracle::Fld;

/// Row-reduce `rows` in place; returns the pivot columns (rank = len).
pub fn row_reduce<T: Fld>(rows: &mut Vec<Vec<T>>, ncols: usize) -> Vec<usize> {
    let mut pivots = Vec::new();
    let mut r = 0usize;
    for c in 0..ncols {
        if r >= rows.len() {
            break;
        }
        let Some(p) = (r..rows.len()).find(|&i| rows[i][c] != T::zero()) else { continue };
        rows.swap(r, p);
        let inv = rows[r][c].inv().unwrap();
        for j in 0..ncols {
            rows[r][j] = rows[r][j].mul(inv);
        }
        for i in 0..rows.len() {
            if i != r && rows[i][c] != T::zero() {
                let f = rows[i][c];
                for j in 0..ncols {
                    let t = rows[r][j].mul(f);
                    rows[i][j] = rows[i][j].sub(t);
                }
            }
        }
        pivots.push(c);
        r += 1;
    }
    rows.truncate(r);
    pivots
}

/// Is `v` in the row space of the reduced basis (`basis` must come from `row_reduce`)?
pub fn in_row_space<T: Fld>(basis: &[Vec<T>], pivots: &[usize], v: &[T]) -> bool {
    let mut v = v.to_vec();
    for (row, &pc) in basis.iter().zip(pivots) {
        if v[pc] != T::zero() {
            let f = v[pc];
            for j in 0..v.len() {
                let t = row[j].mul(f);
                v[j] = v[j].sub(t);
            }
        }
    }
    v.iter().all(|x| *x == T::zero())
}

/// Solve `A x = b` (A given by rows); any solution with free variables set to zero.
pub fn solve<T: Fld>(a: &[Vec<T>], b: &[T], ncols: usize) -> Option<Vec<T>> {
    let mut aug: Vec<Vec<T>> = a
        .iter()
        .zip(b)
        .map(|(r, bi)| {
            let mut r = r.clone();
            r.push(*bi);
            r
        })
        .collect();
    let piv = row_reduce(&mut aug, ncols + 1);
    if piv.contains(&ncols) {
        return None; // inconsistent
    }
    let mut x = vec![T::zero(); ncols];
    for (row, &pc) in aug.iter().zip(&piv) {
        x[pc] = row[ncols];
    }
    Some(x)
}
