//! C11 — each table's constraints accept exactly the rows its operation allows.
//!
//! Driver for the ALU table (`AluAir`: Add, Mul, BoolCheck, MulAdd, HornerAcc single / packed rows,
//! separators) and the recompose table (`RecomposeAir`, plain and coeff-lookup variants).
//! One NDJSON case = one op sequence + optional single-cell mutation. The honest records are produced
//! with the native `p3-field` extension arithmetic (independent of the hand-expanded AIR code), the real
//! `trace_to_matrix` materialises them, and `p3_test_utils::air_satisfaction::check_air_satisfies`
//! (row-by-row debug evaluation of the real `Air::eval`, bus interactions ignored) gives the code's verdict.
use std::collections::BTreeMap;
use std::io::{BufRead, BufReader, Write};
use std::panic::{AssertUnwindSafe, catch_unwind};
use std::sync::Mutex;

use p3_air::{Air, DebugConstraintBuilder};
use p3_baby_bear::BabyBear;
use p3_circuit::ops::recompose::RecomposeCircuitRow;
use p3_circuit::tables::AluTrace;
use p3_circuit::{AluOpKind, WitnessId};
use p3_circuit_prover::air::{AluAir, AluExtMulKind, RecomposeAir};
use p3_field::extension::{BinomialExtensionField, BinomiallyExtendable, QuinticTrinomialExtensionField};
use p3_field::{BasedVectorSpace, ExtensionField, Field, PrimeField64};
use p3_goldilocks::Goldilocks;
use p3_koala_bear::KoalaBear;
use p3_matrix::dense::RowMajorMatrix;
use p3_test_utils::air_satisfaction::check_air_satisfies;
use rand::rngs::StdRng;
use rand::RngExt;
use serde::{Deserialize, Serialize};
use serde_json::{Value, json};

use crate::pipeline::{Finding, seeded};

#[derive(Clone, Debug, Serialize, Deserialize)]
pub struct Mutate {
    pub op: usize,
    /// record cells `a|b|c|out`; matrix-level cells `sep_out` (lane-0 `out` of the separator row in front of
    /// the chain starting at `op`), `bsq`, `int0`, `int1`, .. (extra columns of the packed row starting at `op`);
    /// recompose: `v`
    pub cell: String,
    pub coeff: usize,
    /// record cells only: a second coefficient of the same value receives `-delta` (a deviation that keeps the SUM of the
    /// coefficients, for constraints that aggregate limbs); negative / absent = none
    #[serde(default)]
    pub coeff2: Option<i64>,
}

#[derive(Clone, Debug, Serialize, Deserialize)]
pub struct Case {
    #[serde(default)]
    pub spec: Option<String>,
    /// `alu` (default) | `recompose` | `recompose_coeff`
    #[serde(default)]
    pub table: Option<String>,
    pub field: String,
    pub d: usize,
    pub lanes: usize,
    #[serde(default = "two")]
    pub k: usize,
    pub ops: Vec<String>,
    #[serde(default)]
    pub horner_b_same: Option<Vec<bool>>,
    #[serde(default)]
    pub mutate: Option<Mutate>,
}
fn two() -> usize {
    2
}

pub struct Outcome {
    pub class: String,
    /// coverage key `<Kind>-<cell>-<single|packed>` (or `honest`)
    pub cover: String,
    pub finding: Option<Finding>,
    pub error: Option<String>,
    pub sample: Option<Value>,
}
fn out(class: &str, cover: String) -> Outcome {
    Outcome { class: class.into(), cover, finding: None, error: None, sample: None }
}

// ---------------------------------------------------------------------------------------------
// values
// ---------------------------------------------------------------------------------------------
fn rbase<F: Field>(rng: &mut StdRng) -> F {
    F::from_u64(rng.random::<u64>() >> 1)
}
/// random extension element; 1/8 of the time a special one (0, 1, -1, base-only) for degenerate relations
fn rext<F: Field, EF: BasedVectorSpace<F> + Field>(rng: &mut StdRng) -> EF {
    match rng.random_range(0..32u32) {
        0 => EF::ZERO,
        1 => EF::ONE,
        2 => EF::NEG_ONE,
        3 => {
            let mut c = vec![F::ZERO; EF::DIMENSION];
            c[0] = rbase(rng);
            EF::from_basis_coefficients_slice(&c).unwrap()
        }
        _ => {
            let c: Vec<F> = (0..EF::DIMENSION).map(|_| rbase(rng)).collect();
            EF::from_basis_coefficients_slice(&c).unwrap()
        }
    }
}
fn add_coeff<F: Field, EF: BasedVectorSpace<F>>(v: &EF, j: usize, delta: F) -> EF {
    let mut c = v.as_basis_coefficients_slice().to_vec();
    c[j] += delta;
    EF::from_basis_coefficients_slice(&c).unwrap()
}
fn show<F: PrimeField64, EF: BasedVectorSpace<F>>(v: &EF) -> Vec<u64> {
    v.as_basis_coefficients_slice().iter().map(|x| x.as_canonical_u64()).collect()
}
fn show4<F: PrimeField64, EF: BasedVectorSpace<F>>(v: &[EF; 4]) -> Value {
    json!({"a": show::<F, EF>(&v[0]), "b": show::<F, EF>(&v[1]), "c": show::<F, EF>(&v[2]), "out": show::<F, EF>(&v[3])})
}

fn parse_kind(s: &str) -> Option<AluOpKind> {
    Some(match s {
        "Add" => AluOpKind::Add,
        "Mul" => AluOpKind::Mul,
        "BoolCheck" => AluOpKind::BoolCheck,
        "MulAdd" => AluOpKind::MulAdd,
        "HornerAcc" => AluOpKind::HornerAcc,
        _ => return None,
    })
}

/// Honest records + the driver's model of the row layout (which Horner ops share a packed row).
struct Built<EF> {
    kinds: Vec<AluOpKind>,
    vals: Vec<[EF; 4]>,
    idx: Vec<[u32; 4]>,
    /// Horner units in program order: (first op, arity); arity 1 = single-step row
    groups: Vec<(usize, usize)>,
    chain_first: Vec<bool>,
}

fn build<F: Field, EF: BasedVectorSpace<F> + Field>(case: &Case, rng: &mut StdRng) -> Result<Built<EF>, String> {
    let n = case.ops.len();
    let mut kinds = Vec::with_capacity(n);
    let mut vals: Vec<[EF; 4]> = Vec::with_capacity(n);
    let mut idx: Vec<[u32; 4]> = Vec::with_capacity(n);
    let mut chain_first = vec![false; n];
    let mut next = 1u32;
    let mut fresh = || {
        next += 1;
        next - 1
    };
    let mut same = case.horner_b_same.clone().unwrap_or_default().into_iter();
    let mut prev_h = false;
    let mut acc = EF::ZERO;
    let mut prev_b = (EF::ZERO, 0u32);
    for (i, name) in case.ops.iter().enumerate() {
        let kind = parse_kind(name).ok_or_else(|| format!("unknown op kind {name}"))?;
        let (a, c): (EF, EF) = (rext::<F, EF>(rng), rext::<F, EF>(rng));
        let mut b: EF = rext::<F, EF>(rng);
        let (ia, mut ib, ic, io) = (fresh(), fresh(), fresh(), fresh());
        let v = match kind {
            AluOpKind::Add => [a, b, EF::ZERO, a + b],
            AluOpKind::Mul => [a, b, EF::ZERO, a * b],
            AluOpKind::MulAdd => [a, b, c, a * b + c],
            AluOpKind::BoolCheck => {
                let bit = if rng.random::<bool>() { EF::ONE } else { EF::ZERO };
                [bit, EF::ZERO, bit, bit]
            }
            AluOpKind::HornerAcc => {
                if prev_h {
                    if same.next().unwrap_or_else(|| rng.random_range(0..10u32) < 7) {
                        (b, ib) = prev_b;
                    }
                } else {
                    chain_first[i] = true;
                    acc = EF::ZERO;
                }
                prev_b = (b, ib);
                acc = acc * b + c - a;
                [a, b, c, acc]
            }
        };
        prev_h = kind == AluOpKind::HornerAcc;
        kinds.push(kind);
        vals.push(v);
        idx.push([ia, ib, ic, io]);
    }
    // packing model: chains = maximal runs of HornerAcc; greedy longest prefix (<= k) sharing the b index
    let mut groups = Vec::new();
    let mut i = 0;
    while i < n {
        if kinds[i] != AluOpKind::HornerAcc {
            i += 1;
            continue;
        }
        let mut j = i;
        while j < n && kinds[j] == AluOpKind::HornerAcc {
            j += 1;
        }
        let mut p = i;
        while p < j {
            let mut best = 1;
            for k in (2..=(j - p).min(case.k)).rev() {
                if (1..k).all(|t| idx[p + t][1] == idx[p][1]) {
                    best = k;
                    break;
                }
            }
            groups.push((p, best));
            p += best;
        }
        i = j;
    }
    Ok(Built { kinds, vals, idx, groups, chain_first })
}

/// The defining relations, natively, on the *materialised* view of the records: a packed row carries the `b` of
/// its first step and only the last `out`. Returns the ops (unit firsts) whose relation is violated.
fn violated<EF: Field>(b: &Built<EF>, vals: &[[EF; 4]]) -> Vec<usize> {
    let mut bad = Vec::new();
    for (i, k) in b.kinds.iter().enumerate() {
        let v = &vals[i];
        let ok = match k {
            AluOpKind::Add => v[0] + v[1] == v[3],
            AluOpKind::Mul => v[0] * v[1] == v[3],
            AluOpKind::MulAdd => v[0] * v[1] + v[2] == v[3],
            AluOpKind::BoolCheck => (v[0] == EF::ZERO || v[0] == EF::ONE) && v[3] == v[0],
            AluOpKind::HornerAcc => true,
        };
        if !ok {
            bad.push(i);
        }
    }
    let mut acc = EF::ZERO;
    for &(first, k) in &b.groups {
        if b.chain_first[first] {
            acc = EF::ZERO;
        }
        let bb = vals[first][1];
        let mut f = acc;
        for t in 0..k {
            f = f * bb + vals[first + t][2] - vals[first + t][0];
        }
        let last = vals[first + k - 1][3];
        if f != last {
            bad.push(first);
        }
        acc = last;
    }
    bad
}

fn preprocessed<F: Field, EF>(b: &Built<EF>, d: usize) -> Vec<F> {
    let mut p = Vec::with_capacity(b.kinds.len() * 13);
    for (i, k) in b.kinds.iter().enumerate() {
        let s = |x: bool| if x { F::ONE } else { F::ZERO };
        let ix = |j: usize| F::from_u32(b.idx[i][j] * d as u32);
        p.extend([
            F::NEG_ONE,
            s(*k == AluOpKind::Add),
            s(*k == AluOpKind::BoolCheck),
            s(*k == AluOpKind::MulAdd),
            s(*k == AluOpKind::HornerAcc),
            ix(0),
            ix(1),
            ix(2),
            ix(3),
            F::NEG_ONE,
            F::ONE,
            F::ONE,
            F::ONE,
        ]);
    }
    p
}

fn guard<T>(f: impl FnOnce() -> T) -> Result<T, String> {
    catch_unwind(AssertUnwindSafe(f)).map_err(|e| {
        e.downcast_ref::<String>().cloned().or_else(|| e.downcast_ref::<&str>().map(|s| s.to_string())).unwrap_or_else(|| "panic".into())
    })
}

/// Ok(None) = accepted, Ok(Some(msg)) = rejected (first failing row), Err = the AIR evaluation panicked
fn verdict<F, EF, A>(air: &A, m: &RowMajorMatrix<F>) -> Result<Option<String>, String>
where
    F: Field,
    EF: ExtensionField<F>,
    A: p3_air::BaseAir<F> + for<'a> Air<DebugConstraintBuilder<'a, F, EF>>,
{
    guard(|| check_air_satisfies::<F, EF, A>(air, m, &[]).err().map(|(row, msg)| format!("row {row}: {}", msg.chars().take(300).collect::<String>())))
}

fn find_row<F: Field, EF: BasedVectorSpace<F>>(m: &RowMajorMatrix<F>, v: &[EF; 4], d: usize) -> Option<usize> {
    let want: Vec<F> = (0..3).flat_map(|o| v[o].as_basis_coefficients_slice().to_vec()).collect();
    (0..m.values.len() / m.width).find(|r| m.values[r * m.width..r * m.width + 3 * d] == want[..])
}

fn reduction<F: Copy>(ext: &AluExtMulKind<F>) -> &'static str {
    match ext {
        AluExtMulKind::Base => "base",
        AluExtMulKind::Binomial { .. } => "binomial",
        AluExtMulKind::QuinticTrinomial => "quintic-trinomial",
    }
}

pub fn run_alu<F, EF, const D: usize>(case: &Case, ext: AluExtMulKind<F>, rng: &mut StdRng) -> Outcome
where
    F: PrimeField64,
    EF: ExtensionField<F> + BasedVectorSpace<F>,
    AluAir<F, D>: for<'a> Air<DebugConstraintBuilder<'a, F, EF>>,
{
    let cj = serde_json::to_value(case).unwrap();
    let base_shape = format!("d{}+{}+{}+lanes{}+k{}", case.d, case.field, reduction(&ext), case.lanes, case.k);
    let bad = |e: String| Outcome { error: Some(format!("{e}: {cj}")), ..out("bad_case", "bad".into()) };
    if case.lanes == 0 || case.k < 2 || case.ops.is_empty() {
        return bad("lanes >= 1, k >= 2, ops non-empty required".into());
    }
    let b = match build::<F, EF>(case, rng) {
        Ok(b) => b,
        Err(e) => return bad(e),
    };
    if !violated(&b, &b.vals).is_empty() {
        return bad("driver: honest records violate their own relation".into());
    }
    let n = b.kinds.len();
    let mk_trace = |vals: &[[EF; 4]]| AluTrace {
        op_kind: b.kinds.clone(),
        values: vals.to_vec(),
        indices: b.idx.iter().map(|x| [WitnessId(x[0]), WitnessId(x[1]), WitnessId(x[2]), WitnessId(x[3])]).collect(),
    };
    let finding = |kind: &str, shape: String, detail: Value| Finding {
        property: "C11".into(),
        kind: kind.into(),
        signature: format!("{kind}@{shape}+{base_shape}"),
        detail,
    };
    let groups_json = json!(b.groups);
    // the real AIR, built through the public constructor of its reduction
    let prep = preprocessed::<F, EF>(&b, D);
    let air = match guard(|| match ext {
        AluExtMulKind::Base => AluAir::<F, D>::new_with_preprocessed(n, case.lanes, prep.clone(), case.k),
        AluExtMulKind::Binomial { w } => AluAir::<F, D>::new_binomial_with_preprocessed(n, case.lanes, w, prep.clone(), case.k),
        AluExtMulKind::QuinticTrinomial => AluAir::<F, D>::new_quintic_trinomial_with_preprocessed(n, case.lanes, prep.clone(), case.k),
    }) {
        Ok(a) => a,
        Err(e) => {
            return Outcome { finding: Some(finding("air-panics", "constructor".into(), json!({"case": cj, "panic": e}))), ..out("finding", "honest".into()) };
        }
    };
    let m0 = match guard(|| air.trace_to_matrix::<EF>(&mk_trace(&b.vals), 1)) {
        Ok(m) => m,
        Err(e) => {
            let short = b.groups.iter().any(|&(_, k)| k >= 2 && k < case.k);
            let shape = format!("trace-to-matrix+honest{}", if short { "+short-packed-row" } else { "" });
            return Outcome {
                finding: Some(finding("air-panics", shape, json!({"case": cj, "groups": groups_json, "panic": e, "where": "AluAir::trace_to_matrix on the honest trace"}))),
                ..out("finding", "honest".into())
            };
        }
    };
    let v0 = verdict::<F, EF, _>(&air, &m0);
    let honest_bad = match &v0 {
        Ok(None) => None,
        Ok(Some(msg)) => Some(("honest-row-rejected", msg.clone())),
        Err(p) => Some(("air-panics", p.clone())),
    };
    if let Some((kind, msg)) = honest_bad {
        let kinds: Vec<&str> = { let mut k: Vec<&str> = case.ops.iter().map(|s| s.as_str()).collect(); k.sort(); k.dedup(); k };
        let packed = b.groups.iter().any(|g| g.1 >= 2);
        let shape = format!("honest+{}{}", kinds.join("-"), if packed { "+packed" } else { "" });
        let vals: Vec<Value> = b.vals.iter().map(|v| show4::<F, EF>(v)).collect();
        return Outcome {
            finding: Some(finding(kind, shape, json!({"case": cj, "groups": groups_json, "records": vals, "code": msg, "expected": "accepted"}))),
            ..out("finding", "honest".into())
        };
    }
    let Some(mu) = &case.mutate else { return out("honest_accepted", "honest".into()) };
    if mu.op >= n || mu.coeff >= D {
        return bad("mutate.op / mutate.coeff out of range".into());
    }
    let kind = b.kinds[mu.op];
    let unit = b.groups.iter().copied().find(|&(f, k)| f <= mu.op && mu.op < f + k);
    let (form, step) = match unit {
        Some((f, k)) if k >= 2 => (format!("packed+arity{k}"), format!("+step{}", mu.op - f)),
        _ => ("single".to_string(), String::new()),
    };
    let cover = format!("{}-{}-{}", case.ops[mu.op], mu.cell, if form == "single" { "single" } else { "packed" });
    let pair = if mu.coeff2.map_or(false, |c| c >= 0) { "+limb-pair" } else if mu.coeff > 0 { "+upper-limb" } else { "" };
    let shape = format!("{}-{}+{}{}{}", case.ops[mu.op], mu.cell, form, step, pair);
    let delta: F = loop {
        let x: F = rbase(rng);
        if x != F::ZERO {
            break x;
        }
    };
    let width = m0.width;
    let extra = case.lanes * 4 * D;
    let num_int = (case.k - 1) / 2;
    let ac_base = extra + num_int * D;
    let bsq_base = ac_base + 2 * (case.k - 1) * D;

    // (mutated matrix, records used by the oracle, relation-free cell?)
    let mut vals1 = b.vals.clone();
    let m1: RowMajorMatrix<F>;
    let mut expect_reject: Option<bool> = None; // None = decided by `violated(vals1)`
    let mut relation_free = false;
    match mu.cell.as_str() {
        "a" | "b" | "c" | "out" => {
            let ci = ["a", "b", "c", "out"].iter().position(|x| *x == mu.cell).unwrap();
            vals1[mu.op][ci] = add_coeff::<F, EF>(&vals1[mu.op][ci], mu.coeff, delta);
            if let Some(c2) = mu.coeff2.filter(|c| *c >= 0).map(|c| c as usize) {
                if c2 >= D || c2 == mu.coeff {
                    return bad("mutate.coeff2 out of range".into());
                }
                vals1[mu.op][ci] = add_coeff::<F, EF>(&vals1[mu.op][ci], c2, -delta);
            }
            m1 = match guard(|| air.trace_to_matrix::<EF>(&mk_trace(&vals1), 1)) {
                Ok(m) => m,
                Err(e) => {
                    return Outcome { finding: Some(finding("air-panics", format!("trace-to-matrix+{shape}"), json!({"case": cj, "panic": e}))), ..out("finding", cover) };
                }
            };
            let materialised = m1.values != m0.values;
            let predicted = match unit {
                Some((f, k)) if k >= 2 => !((ci == 1 && mu.op > f) || (ci == 3 && mu.op < f + k - 1)),
                _ => true,
            };
            if materialised != predicted {
                return Outcome {
                    error: Some(format!("packing-model-drift: cell materialised={materialised}, driver model predicted {predicted}: {cj} groups {groups_json}")),
                    ..out("model_drift", cover)
                };
            }
            if !materialised {
                return out("unobservable", cover);
            }
            relation_free = matches!((kind, ci), (AluOpKind::Add | AluOpKind::Mul, 2) | (AluOpKind::BoolCheck, 1 | 2));
        }
        "a_out" | "b_out" | "c_out" => {
            // two cells of ONE row deviate together by the same amount (an operand and the result): the row stays inside the
            // relation for Add (a / b) and MulAdd (c), leaves it everywhere else - in particular a BoolCheck row whose
            // operand is not a bit although `out` still equals `a`
            if matches!(unit, Some((_, k)) if k >= 2) {
                return out("not_applicable", cover);
            }
            let ci = ["a_out", "b_out", "c_out"].iter().position(|x| *x == mu.cell).unwrap();
            for cell in [ci, 3] {
                vals1[mu.op][cell] = add_coeff::<F, EF>(&vals1[mu.op][cell], mu.coeff, delta);
                if let Some(c2) = mu.coeff2.filter(|c| *c >= 0).map(|c| c as usize) {
                    if c2 >= D || c2 == mu.coeff {
                        return bad("mutate.coeff2 out of range".into());
                    }
                    vals1[mu.op][cell] = add_coeff::<F, EF>(&vals1[mu.op][cell], c2, -delta);
                }
            }
            m1 = match guard(|| air.trace_to_matrix::<EF>(&mk_trace(&vals1), 1)) {
                Ok(m) => m,
                Err(e) => {
                    return Outcome { finding: Some(finding("air-panics", format!("trace-to-matrix+{shape}"), json!({"case": cj, "panic": e}))), ..out("finding", cover) };
                }
            };
            if m1.values == m0.values {
                return out("unobservable", cover);
            }
        }
        "sep_out" => {
            if !b.chain_first[mu.op] {
                return out("not_applicable", cover);
            }
            // a chain that is consistent step to step but starts from acc = X != 0, with X parked in the
            // (multiplicity-0, selector-0) separator row in front of it
            let x = add_coeff::<F, EF>(&EF::ZERO, mu.coeff, delta);
            let mut acc = x;
            let mut i = mu.op;
            while i < n && b.kinds[i] == AluOpKind::HornerAcc {
                acc = acc * vals1[i][1] + vals1[i][2] - vals1[i][0];
                vals1[i][3] = acc;
                i += 1;
            }
            let mut m = match guard(|| air.trace_to_matrix::<EF>(&mk_trace(&vals1), 1)) {
                Ok(m) => m,
                Err(e) => return bad(format!("trace_to_matrix panics on forged chain: {e}")),
            };
            let Some(r) = find_row::<F, EF>(&m, &vals1[mu.op], D) else { return bad("row of op not found".into()) };
            if r == 0 {
                // the chain is scheduled on the first row: there is no separator row whose `out` could be altered
                return out("not_applicable", cover);
            }
            m.values[(r - 1) * width + 3 * D + mu.coeff] += delta;
            // intermediates of a packed first row were computed by trace_to_matrix from prev_out = 0
            let (_, k) = unit.unwrap();
            for s in 0..num_int {
                if 2 * s + 3 <= k {
                    let c = vals1[mu.op + 2 * s + 1][3].as_basis_coefficients_slice().to_vec();
                    m.values[r * width + extra + s * D..r * width + extra + (s + 1) * D].copy_from_slice(&c);
                }
            }
            m1 = m;
            // the separator is an all-zero row by definition: a non-zero out is a deviation
            // whatever the chain then computes
            expect_reject = Some(true);
        }
        cell if cell == "bsq" || cell.starts_with("int") => {
            let Some((f, k)) = unit.filter(|&(f, k)| k >= 2 && f == mu.op) else { return out("not_applicable", cover) };
            let Some(r) = find_row::<F, EF>(&m0, &b.vals[f], D) else { return bad("row of op not found".into()) };
            let mut m = m0.clone();
            if cell == "bsq" {
                m.values[r * width + bsq_base + mu.coeff] += delta;
                expect_reject = Some(true);
            } else {
                let Ok(s) = cell[3..].parse::<usize>() else { return bad("bad int cell".into()) };
                if s >= num_int {
                    return out("not_applicable", cover);
                }
                m.values[r * width + extra + s * D + mu.coeff] += delta;
                // slot s is read by the constraints of arity k iff k >= 2s + 3; otherwise a free cell
                if 2 * s + 3 <= k {
                    expect_reject = Some(true);
                } else {
                    relation_free = true;
                    expect_reject = Some(false);
                }
            }
            m1 = m;
        }
        other => return bad(format!("unknown cell {other}")),
    }
    let viol = violated(&b, &vals1);
    let expect_reject = expect_reject.unwrap_or(!viol.is_empty());
    let v1 = verdict::<F, EF, _>(&air, &m1);
    let detail = |code: &str| {
        json!({"case": cj, "groups": groups_json, "delta": delta.as_canonical_u64(),
               "record_before": show4::<F, EF>(&b.vals[mu.op]), "record_after": show4::<F, EF>(&vals1[mu.op]),
               "violated_relations_of_ops": viol, "expected": if expect_reject { "rejected" } else { "accepted" }, "code": code})
    };
    match v1 {
        Err(p) => Outcome { finding: Some(finding("air-panics", shape, detail(&format!("panic: {p}")))), ..out("finding", cover) },
        Ok(code) => {
            let rejected = code.is_some();
            let code_s = code.unwrap_or_else(|| "accepted".into());
            if relation_free && !expect_reject {
                let mut o = out(if rejected { "irrelevant_rejected" } else { "irrelevant_accepted" }, cover);
                if rejected {
                    o.sample = Some(detail(&code_s));
                }
                o
            } else if expect_reject == rejected {
                out(if rejected { "invalid_rejected" } else { "valid_mutation_accepted" }, cover)
            } else if expect_reject {
                let shape = if mu.cell == "sep_out" { format!("{shape}+chain-start+forged-separator-out") } else { shape };
                Outcome { finding: Some(finding("invalid-row-accepted", shape, detail(&code_s))), ..out("finding", cover) }
            } else {
                Outcome { finding: Some(finding("honest-row-rejected", format!("{shape}+mutation-keeps-relation"), detail(&code_s))), ..out("finding", cover) }
            }
        }
    }
}

/// Recompose table: a row is the D base coefficients; the extension output is the same D cells read as one
/// element, so there is no row-local redundancy: the AIR has zero constraints and every row is a valid row.
pub fn run_recompose<F: PrimeField64, const D: usize>(case: &Case, coeff: bool, rng: &mut StdRng) -> Outcome
where
    RecomposeAir<F, D>: for<'a> Air<DebugConstraintBuilder<'a, F, F>>,
{
    let cj = serde_json::to_value(case).unwrap();
    let n = case.ops.len();
    let shape = format!("{}+d{}+{}+lanes{}", if coeff { "recompose-coeff" } else { "recompose" }, case.d, case.field, case.lanes);
    let mut next = 1u32;
    let mut rows: Vec<RecomposeCircuitRow<F>> = Vec::new();
    let mut prep: Vec<F> = Vec::new();
    for _ in 0..n {
        let ins: Vec<WitnessId> = (0..D).map(|j| WitnessId(next + j as u32)).collect();
        let o = WitnessId(next + D as u32);
        next += D as u32 + 1;
        prep.extend([F::from_u32(o.0 * D as u32), F::ONE]);
        if coeff {
            for w in &ins {
                prep.extend([F::from_u32(w.0 * D as u32), F::ONE]);
            }
        }
        rows.push(RecomposeCircuitRow { input_wids: ins, output_wid: o, values: (0..D).map(|_| rbase(rng)).collect() });
    }
    let cover = format!("Recompose{}-{}", if coeff { "Coeff" } else { "" }, case.mutate.as_ref().map_or("honest", |m| m.cell.as_str()));
    if let Some(mu) = &case.mutate {
        if mu.op >= n || mu.coeff >= D || mu.cell != "v" {
            return Outcome { error: Some(format!("bad recompose mutation: {cj}")), ..out("bad_case", cover) };
        }
        let d: F = rbase(rng);
        rows[mu.op].values[mu.coeff] += d + F::ONE;
    }
    let r = guard(|| {
        let air = RecomposeAir::<F, D>::new_with_preprocessed(case.lanes, prep.clone(), 1, coeff);
        let m = RecomposeAir::<F, D>::trace_to_matrix(&rows, case.lanes);
        check_air_satisfies::<F, F, _>(&air, &m, &[]).err().map(|(r, s)| format!("row {r}: {s}"))
    });
    let f = |kind: &str, code: String| Finding {
        property: "C11".into(),
        kind: kind.into(),
        signature: format!("{kind}@{shape}"),
        detail: json!({"case": cj, "code": code, "expected": "accepted (no row-local relation; binding is on the bus only)"}),
    };
    match r {
        Ok(None) => out(if case.mutate.is_some() { "recompose_any_row_accepted" } else { "honest_accepted" }, cover),
        Ok(Some(msg)) => Outcome { finding: Some(f("honest-row-rejected", msg)), ..out("finding", cover) },
        Err(p) => Outcome { finding: Some(f("air-panics", p)), ..out("finding", cover) },
    }
}

type Bx<F, const D: usize> = BinomialExtensionField<F, D>;
fn w<F: BinomiallyExtendable<D>, const D: usize>() -> AluExtMulKind<F> {
    AluExtMulKind::Binomial { w: F::W }
}

pub fn run_case(case: &Case, rng: &mut StdRng) -> Outcome {
    use AluExtMulKind::{Base, QuinticTrinomial};
    // the TLA+ case generator writes `"cell":"none"` for the honest trace
    let mut owned;
    let case = if case.mutate.as_ref().is_some_and(|m| m.cell == "none") {
        owned = case.clone();
        owned.mutate = None;
        &owned
    } else {
        case
    };
    type Bb = BabyBear;
    type Kb = KoalaBear;
    type Gl = Goldilocks;
    let table = case.table.as_deref().unwrap_or("alu");
    match (table, case.field.as_str(), case.d) {
        ("alu", "bb", 1) => run_alu::<Bb, Bb, 1>(case, Base, rng),
        ("alu", "kb", 1) => run_alu::<Kb, Kb, 1>(case, Base, rng),
        ("alu", "gl", 1) => run_alu::<Gl, Gl, 1>(case, Base, rng),
        ("alu", "gl", 2) => run_alu::<Gl, Bx<Gl, 2>, 2>(case, w::<Gl, 2>(), rng),
        ("alu", "bb", 4) => run_alu::<Bb, Bx<Bb, 4>, 4>(case, w::<Bb, 4>(), rng),
        ("alu", "kb", 4) => run_alu::<Kb, Bx<Kb, 4>, 4>(case, w::<Kb, 4>(), rng),
        ("alu", "kb", 5) => run_alu::<Kb, QuinticTrinomialExtensionField<Kb>, 5>(case, QuinticTrinomial, rng),
        // binomial degree 5 (not one of the degrees named by the property, instantiable all the same)
        ("alu", "bb", 5) => run_alu::<Bb, Bx<Bb, 5>, 5>(case, w::<Bb, 5>(), rng),
        ("alu", "gl", 5) => run_alu::<Gl, Bx<Gl, 5>, 5>(case, w::<Gl, 5>(), rng),
        ("alu", "bb", 8) => run_alu::<Bb, Bx<Bb, 8>, 8>(case, w::<Bb, 8>(), rng),
        ("alu", "kb", 8) => run_alu::<Kb, Bx<Kb, 8>, 8>(case, w::<Kb, 8>(), rng),
        (t @ ("recompose" | "recompose_coeff"), f, d) => {
            let c = t == "recompose_coeff";
            match (f, d) {
                ("gl", 2) => run_recompose::<Gl, 2>(case, c, rng),
                ("bb", 4) => run_recompose::<Bb, 4>(case, c, rng),
                ("kb", 4) => run_recompose::<Kb, 4>(case, c, rng),
                ("kb", 5) => run_recompose::<Kb, 5>(case, c, rng),
                ("bb", 8) => run_recompose::<Bb, 8>(case, c, rng),
                _ => Outcome { error: Some(format!("unsupported recompose field/d {f}/{d}")), ..out("bad_case", "bad".into()) },
            }
        }
        (t, f, d) => Outcome { error: Some(format!("unsupported table/field/d {t}/{f}/{d}")), ..out("bad_case", "bad".into()) },
    }
}

fn arg(args: &[String], name: &str) -> Option<String> {
    args.iter().position(|a| a == name).and_then(|i| args.get(i + 1).cloned())
}

/// p3r tables --in cases.ndjson --seed N --out result.json [--threads T]
pub fn cmd(args: &[String]) -> i32 {
    let input = arg(args, "--in").expect("--in");
    let seed: u64 = arg(args, "--seed").and_then(|s| s.parse().ok()).unwrap_or(1);
    let outp = arg(args, "--out").expect("--out");
    let threads: usize = arg(args, "--threads").and_then(|s| s.parse().ok()).unwrap_or(16);
    let f = std::fs::File::open(&input).expect("open input");
    let lines: Vec<String> = BufReader::new(f).lines().map(|l| l.unwrap()).filter(|l| !l.trim().is_empty()).collect();
    let chunk = lines.len().div_ceil(threads.max(1)).max(1);
    #[derive(Default)]
    struct Acc {
        stats: BTreeMap<String, u64>,
        cover: BTreeMap<String, BTreeMap<String, u64>>,
        configs: BTreeMap<String, u64>,
        groups: BTreeMap<(String, String), (u64, Value)>,
        errors: Vec<String>,
        samples: Vec<Value>,
    }
    let acc = Mutex::new(Acc::default());
    std::thread::scope(|sc| {
        for (ti, part) in lines.chunks(chunk).enumerate() {
            let acc = &acc;
            sc.spawn(move || {
                let mut a = Acc::default();
                for (li, line) in part.iter().enumerate() {
                    let gidx = (ti * chunk + li) as u64;
                    let case: Case = match serde_json::from_str(line) {
                        Ok(c) => c,
                        Err(e) => {
                            *a.stats.entry("bad_lines".into()).or_default() += 1;
                            a.errors.push(format!("bad case line {gidx}: {e}"));
                            continue;
                        }
                    };
                    let mut rng = seeded(seed, gidx);
                    let o = guard(|| run_case(&case, &mut rng)).unwrap_or_else(|p| Outcome { error: Some(format!("driver panic on line {gidx}: {p}")), ..out("driver_panic", "bad".into()) });
                    *a.stats.entry("cases".into()).or_default() += 1;
                    *a.stats.entry(o.class.clone()).or_default() += 1;
                    *a.cover.entry(o.cover).or_default().entry(o.class.clone()).or_default() += 1;
                    *a.configs.entry(format!("{}:{}-d{}+lanes{}+k{}", case.table.as_deref().unwrap_or("alu"), case.field, case.d, case.lanes, case.k)).or_default() += 1;
                    if let Some(f) = o.finding {
                        a.groups.entry((f.kind.clone(), f.signature.clone())).or_insert((0, f.detail)).0 += 1;
                    }
                    if let Some(e) = o.error {
                        if a.errors.len() < 50 {
                            a.errors.push(e);
                        }
                    }
                    if let Some(s) = o.sample {
                        if a.samples.len() < 3 {
                            a.samples.push(s);
                        }
                    }
                }
                let mut g = acc.lock().unwrap();
                for (k, v) in a.stats {
                    *g.stats.entry(k).or_default() += v;
                }
                for (k, m) in a.cover {
                    let e = g.cover.entry(k).or_default();
                    for (c, v) in m {
                        *e.entry(c).or_default() += v;
                    }
                }
                for (k, v) in a.configs {
                    *g.configs.entry(k).or_default() += v;
                }
                for (k, (n, d)) in a.groups {
                    g.groups.entry(k).or_insert((0, d)).0 += n;
                }
                g.errors.extend(a.errors);
                g.samples.extend(a.samples);
            });
        }
    });
    let g = acc.into_inner().unwrap();
    let findings: Vec<Value> = g.groups.iter().map(|((k, s), (n, d))| json!({"property": "C11", "kind": k, "signature": s, "count": n, "example": d})).collect();
    let mut by_kind: BTreeMap<String, u64> = BTreeMap::new();
    for ((k, s), (n, _)) in &g.groups {
        let head = s.split('@').nth(1).unwrap_or("").split('+').next().unwrap_or("");
        *by_kind.entry(format!("{k}@{head}")).or_default() += n;
    }
    let result = json!({"stats": g.stats, "findings_by_kind_and_cell": by_kind, "coverage": g.cover, "configs": g.configs.len(), "cases_per_config": g.configs,
        "findings": findings, "samples": g.samples, "errors": g.errors});
    let mut f = std::fs::File::create(&outp).expect("create out");
    f.write_all(serde_json::to_string_pretty(&result).unwrap().as_bytes()).unwrap();
    0
}

/// p3r tables-gen --out cases.ndjson [--seed N] [--seqs S]   (S op sequences per (field, d, lanes, k))
pub fn cmd_gen(args: &[String]) -> i32 {
    let outp = arg(args, "--out").expect("--out");
    let seed: u64 = arg(args, "--seed").and_then(|s| s.parse().ok()).unwrap_or(7);
    let seqs: usize = arg(args, "--seqs").and_then(|s| s.parse().ok()).unwrap_or(2);
    let mut rng = seeded(seed, 0xC11);
    let mut w = std::io::BufWriter::new(std::fs::File::create(&outp).expect("create out"));
    let mut count = 0u64;
    let mut emit = |w: &mut std::io::BufWriter<std::fs::File>, c: &Case| {
        writeln!(w, "{}", serde_json::to_string(c).unwrap()).unwrap();
        count += 1;
    };
    let cfgs: [(&str, usize); 11] = [("bb", 1), ("kb", 1), ("gl", 1), ("gl", 2), ("bb", 4), ("kb", 4), ("kb", 5), ("bb", 5), ("gl", 5), ("bb", 8), ("kb", 8)];
    let plain = ["Add", "Mul", "BoolCheck", "MulAdd"];
    for (field, d) in cfgs {
        for lanes in 1..=3usize {
            for k in 2..=6usize {
                // k = 5, 6 are beyond the factors named in the task: three configurations only.
                // Sequence 0 = fixed skeleton, 1 = Horner-free (unscheduled layout, k <= 3 only), 2.. = random
                let n_seq = if k <= 4 { seqs + 1 } else if matches!((field, d), ("bb", 1) | ("bb", 4) | ("kb", 5)) { 3 } else { 0 };
                for si in 0..n_seq {
                    let mut ops: Vec<String> = Vec::new();
                    let mut same: Vec<bool> = Vec::new();
                    if si == 1 {
                        if k > 3 {
                            continue;
                        }
                        for _ in 0..rng.random_range(1..=9usize) {
                            ops.push(plain[rng.random_range(0..4usize)].to_string());
                        }
                    } else if si == 0 {
                        // fixed skeleton: every plain kind, one chain of every length 1..6
                        let lens = [3usize, 1, 6, 2, 5, 4];
                        for (j, len) in lens.iter().enumerate() {
                            ops.push(plain[j % 4].to_string());
                            if j % 2 == 1 {
                                ops.push(plain[(j + 1) % 4].to_string());
                            }
                            for t in 0..*len {
                                ops.push("HornerAcc".into());
                                if t > 0 {
                                    same.push(j % 3 != 2 || rng.random_range(0..3u32) > 0);
                                }
                            }
                        }
                        ops.push("MulAdd".into());
                    } else {
                        for _ in 0..rng.random_range(2..=5usize) {
                            if rng.random::<bool>() {
                                for _ in 0..rng.random_range(1..=3usize) {
                                    ops.push(plain[rng.random_range(0..4usize)].to_string());
                                }
                            } else {
                                if ops.last().map(|s| s.as_str()) == Some("HornerAcc") {
                                    ops.push(plain[rng.random_range(0..4usize)].to_string());
                                }
                                let len = rng.random_range(1..=6usize);
                                let p_same = rng.random_range(4..=10u32);
                                for t in 0..len {
                                    ops.push("HornerAcc".into());
                                    if t > 0 {
                                        same.push(rng.random_range(0..10u32) < p_same);
                                    }
                                }
                            }
                        }
                    }
                    let base = Case { spec: Some("Tables".into()), table: None, field: field.into(), d, lanes, k, ops: ops.clone(), horner_b_same: Some(same.clone()), mutate: None };
                    emit(&mut w, &base);
                    for (i, name) in ops.iter().enumerate() {
                        // every coefficient for small D and for the fixed skeleton; first / last / one random otherwise
                        let coeffs: Vec<usize> = if d <= 2 || si == 0 { (0..d).collect() } else {
                            let mut c = vec![0, d - 1, rng.random_range(0..d)];
                            c.sort();
                            c.dedup();
                            c
                        };
                        for cell in ["a", "b", "c", "out"] {
                            for &coeff in &coeffs {
                                emit(&mut w, &Case { mutate: Some(Mutate { op: i, cell: cell.into(), coeff, coeff2: None }), ..base.clone() });
                            }
                        }
                        if name == "HornerAcc" {
                            let first = i == 0 || ops[i - 1] != "HornerAcc";
                            let mut cells = vec!["bsq", "int0", "int1"];
                            if first {
                                cells.push("sep_out");
                            }
                            for cell in cells {
                                for &coeff in &[0, d - 1][..if d == 1 { 1 } else { 2 }] {
                                    emit(&mut w, &Case { mutate: Some(Mutate { op: i, cell: cell.into(), coeff, coeff2: None }), ..base.clone() });
                                }
                            }
                        }
                    }
                }
            }
            // recompose table, both variants
            if matches!((field, d), ("gl", 2) | ("bb", 4) | ("kb", 4) | ("kb", 5) | ("bb", 8)) {
                for table in ["recompose", "recompose_coeff"] {
                    let n = rng.random_range(1..=7usize);
                    let base = Case { spec: Some("Tables".into()), table: Some(table.into()), field: field.into(), d, lanes, k: 2, ops: vec!["Recompose".into(); n], horner_b_same: None, mutate: None };
                    emit(&mut w, &base);
                    for i in 0..n {
                        for coeff in 0..d {
                            emit(&mut w, &Case { mutate: Some(Mutate { op: i, cell: "v".into(), coeff, coeff2: None }), ..base.clone() });
                        }
                    }
                }
            }
        }
    }
    w.flush().unwrap();
    eprintln!("tables-gen: {count} cases -> {outp}");
    0
}
