#![allow(dead_code, unused_imports)]
//! POSEIDON1 twin of `chsweep.rs` (generated from it: same sweep, the Poseidon1 base-field challenger, trace type, preprocessor,
//! AIR builders and table provers).  Only the base-field (D1 rows in a quintic circuit) transcripts are swept here.
//! C06 on the permutation table of REAL challenger circuits.  Every input cell (and the index accumulator) of every
//! Poseidon2 row of an honest transcript circuit is changed by +1 in two ways, each proven with the honest prover data and
//! judged by the real verifier:
//!   isolated    only the cell changes (the row's outputs follow it, nothing else does);
//!   consistent  the circuit is re-executed with a permutation executor that runs THAT permutation on the changed input,
//!               so every value downstream of the row (later permutations, sampled challenges, the public values they are
//!               compared with) follows the deviation; the cell is then the only place where the table disagrees with what
//!               binds it (bus read of a witness value, zero assertion of a fresh sponge, chaining from the previous row).
//! A challenge is bound to the whole transcript only if every such cell is bound: an accepted deviation is a cell the prover
//! may choose.  The first mode cannot expose a missing binding when the row's outputs are exposed (the bus breaks
//! downstream); the second violates one relation only.
//!
//! Transcripts: the extension-degree challenger (KoalaBear D4, width 16, recompose table on) and the base-field
//! challenger in a quintic circuit (KoalaBear D1 rows, capacity chained inside the table).  observe n, sample, observe 5,
//! sample(s) - three permutations; n = 8 (full first block), 3 (partial block: zero padding in the rate part), 0.
use std::panic::{AssertUnwindSafe, catch_unwind};

use p3_batch_stark::ProverData;
use p3_circuit::ops::poseidon1_perm::KoalaBearD1Width16;
use p3_circuit::ops::{NpoTypeId, Poseidon1Config, Poseidon1Trace, generate_poseidon1_trace};
use p3_circuit::{Circuit, CircuitBuilder, ExprId, Traces};
use p3_circuit_prover::batch_stark_prover::{Poseidon1Preprocessor, poseidon1_air_builders_d5, poseidon1_table_provers_d5};
use p3_circuit_prover::common::{NpoPreprocessor, get_airs_and_degrees_with_prep};
use p3_circuit_prover::config::{self, KoalaBearConfig};
use p3_circuit_prover::{BatchStarkProver, CircuitProverData, ConstraintProfile, TablePacking};
use p3_field::extension::QuinticTrinomialExtensionField;
use p3_field::{BasedVectorSpace, Field, PrimeCharacteristicRing};
use p3_koala_bear::{KoalaBear, Poseidon1KoalaBear, default_koalabear_poseidon1_16};
use p3_recursion::challenger::CircuitChallenger;
use p3_recursion::traits::RecursiveChallenger;
use p3_symmetric::Permutation;
use serde_json::{Value, json};

type KB = KoalaBear;
type E5 = QuinticTrinomialExtensionField<KB>;

fn block(n: usize, off: u64) -> Vec<KB> {
    (0..n).map(|i| KB::from_u64(off + i as u64)).collect()
}

/// The permutation the runner executes: the real one, except that the call whose input equals `when.0` runs on that input
/// with `when.2` added to element `when.1`.
#[derive(Clone)]
pub struct DevPerm {
    inner: Poseidon1KoalaBear<16>,
    when: Option<([KB; 16], usize, KB)>,
}
impl DevPerm {
    fn honest() -> Self {
        DevPerm { inner: default_koalabear_poseidon1_16(), when: None }
    }
}
impl Permutation<[KB; 16]> for DevPerm {
    fn permute(&self, mut x: [KB; 16]) -> [KB; 16] {
        if let Some((w, j, d)) = &self.when
            && x == *w
        {
            x[*j] += *d;
        }
        self.inner.permute(x)
    }
}
/// Lifted to the quintic circuit field (the runner's executor of the D1 path works on circuit-field elements).
#[derive(Clone)]
struct LiftedPerm(DevPerm);
impl Permutation<[E5; 16]> for LiftedPerm {
    fn permute(&self, input: [E5; 16]) -> [E5; 16] {
        let bases: [KB; 16] = core::array::from_fn(|i| <E5 as BasedVectorSpace<KB>>::as_basis_coefficients_slice(&input[i])[0]);
        let out = self.0.permute(bases);
        core::array::from_fn(|i| E5::new([out[i], KB::ZERO, KB::ZERO, KB::ZERO, KB::ZERO]))
    }
}

macro_rules! judge {
    ($prover:expr, $cpd:expr, $ef:ty) => {
        |t: &Traces<$ef>| -> &'static str {
            let r = catch_unwind(AssertUnwindSafe(|| match $prover.prove_all_tables(t, &$cpd) {
                Ok(p) => match $prover.verify_all_tables::<$ef>(&p) {
                    Ok(()) => "accepted",
                    Err(_) => "rejected",
                },
                Err(_) => "prove-failed",
            }));
            r.unwrap_or("panic")
        }
    };
}

pub use crate::chsweep::Swept;

struct BuiltT<EF> {
    circuit: Circuit<EF>,
    samples: Vec<ExprId>,
}

/// Run `build(perm, false)` to learn the sampled values, then `build(perm, true)` (samples compared with public inputs) on them.
fn run_exposed<EF: Field>(build: &dyn Fn(DevPerm, bool) -> Result<BuiltT<EF>, String>, perm: &DevPerm) -> Result<(Circuit<EF>, Traces<EF>), String> {
    let a = build(perm.clone(), false)?;
    let ta = a.circuit.runner().run().map_err(|e| format!("run (unexposed): {e:?}"))?;
    let mut vals = Vec::new();
    for s in &a.samples {
        let w = a.circuit.expr_to_widx.get(s).ok_or("sample target without witness")?;
        vals.push(*ta.witness_trace.get_value(*w).ok_or("sample witness unset")?);
    }
    let b = build(perm.clone(), true)?;
    let t = {
        let mut runner = b.circuit.runner();
        runner.set_public_inputs(&vals).map_err(|e| format!("public inputs: {e:?}"))?;
        runner.run().map_err(|e| format!("run: {e:?}"))?
    };
    Ok((b.circuit, t))
}

fn sweep_table<EF: Field>(
    name: &'static str,
    d: usize,
    id: NpoTypeId,
    verdict: &dyn Fn(&Traces<EF>) -> &'static str,
    honest: &Traces<EF>,
    build: &dyn Fn(DevPerm, bool) -> Result<BuiltT<EF>, String>,
) -> Result<Swept, String> {
    let hv = verdict(honest);
    let tr0 = honest.non_primitive_trace::<Poseidon1Trace<KB>>(&id).cloned().ok_or("no Poseidon1 trace")?;
    let mut sw = Swept { name, honest: hv, rows: tr0.operations.len(), cells: 0, rejected: 0, accepted: Vec::new(), classes: Vec::new(), errors: Vec::new() };
    if hv != "accepted" {
        return Ok(sw);
    }
    for (r, row) in tr0.operations.iter().enumerate() {
        let ncell = row.input_values.len();
        let rowkind = if row.merkle_path { "merkle-row" } else if row.new_start { "new-start-row" } else { "chained-row" };
        for mode in ["isolated", "consistent"] {
            for j in 0..=ncell {
                if mode == "consistent" && (j == ncell || ncell != 16) {
                    continue;
                }
                let base_class = if j == ncell {
                    format!("{rowkind}-index-accumulator")
                } else {
                    let half = if j < ncell / 2 { "rate" } else { "capacity" };
                    format!("{rowkind}-{half}-{}", if row.in_ctl.get(j / d).copied().unwrap_or(false) { "exposed-input" } else { "unexposed-input" })
                };
                let class = if mode == "consistent" { format!("{base_class}-downstream-consistent") } else { base_class };
                let t = if mode == "isolated" {
                    let mut tr = tr0.clone();
                    if j == ncell {
                        tr.operations[r].mmcs_index_sum += KB::ONE;
                    } else {
                        tr.operations[r].input_values[j] += KB::ONE;
                    }
                    let mut t = honest.clone();
                    t.non_primitive_traces.insert(id.clone(), Box::new(tr));
                    t
                } else {
                    let w: [KB; 16] = core::array::from_fn(|i| row.input_values[i]);
                    let perm = DevPerm { inner: default_koalabear_poseidon1_16(), when: Some((w, j, KB::ONE)) };
                    let (_, mut t) = match run_exposed(build, &perm) {
                        Ok(x) => x,
                        Err(e) => {
                            sw.errors.push(format!("row {r} cell {j}: {e}"));
                            continue;
                        }
                    };
                    let Some(mut tr) = t.non_primitive_trace::<Poseidon1Trace<KB>>(&id).cloned() else {
                        sw.errors.push(format!("row {r} cell {j}: no Poseidon1 trace in the deviating run"));
                        continue;
                    };
                    // the deviating run records the input the circuit handed to the executor (the honest one); the table row
                    // must show the input the permutation really ran on
                    if tr.operations.len() != tr0.operations.len() || tr.operations[r].input_values != row.input_values {
                        sw.errors.push(format!("row {r} cell {j}: the deviating run does not reproduce the honest input of the row"));
                        continue;
                    }
                    tr.operations[r].input_values[j] += KB::ONE;
                    t.non_primitive_traces.insert(id.clone(), Box::new(tr));
                    t
                };
                if !sw.classes.contains(&class) {
                    sw.classes.push(class.clone());
                }
                sw.cells += 1;
                if verdict(&t) == "accepted" {
                    // an index accumulator nobody reads: exposure disabled, no Merkle row
                    if j == ncell && !row.mmcs_ctl_enabled && !row.merkle_path {
                        continue;
                    }
                    let ex = json!({"row": r, "cell": j, "mode": mode, "new_start": row.new_start, "in_ctl": row.in_ctl, "out_ctl": row.out_ctl, "rows": tr0.operations.len()});
                    match sw.accepted.iter_mut().find(|a| a.0 == class) {
                        Some(a) => a.1 += 1,
                        None => sw.accepted.push((class, 1, ex)),
                    }
                } else {
                    sw.rejected += 1;
                }
            }
        }
    }
    Ok(sw)
}

fn build_base(first: usize, perm: DevPerm, expose: bool) -> Result<BuiltT<E5>, String> {
    let lift = |v: KB| E5::new([v, KB::ZERO, KB::ZERO, KB::ZERO, KB::ZERO]);
    let mut b = CircuitBuilder::<E5>::new();
    b.enable_poseidon1_perm_base::<KoalaBearD1Width16, _>(generate_poseidon1_trace::<E5, KoalaBearD1Width16>, LiftedPerm(perm));
    let mut cc: CircuitChallenger<16, 8, Poseidon1Config> = CircuitChallenger::new_koalabear_poseidon1_base();
    let mut samples = Vec::new();
    for v in block(first, 1) {
        let t = b.define_const(lift(v));
        RecursiveChallenger::<KB, E5>::observe(&mut cc, &mut b, t);
    }
    samples.push(RecursiveChallenger::<KB, E5>::sample(&mut cc, &mut b));
    for v in block(5, 100) {
        let t = b.define_const(lift(v));
        RecursiveChallenger::<KB, E5>::observe(&mut cc, &mut b, t);
    }
    for _ in 0..9 {
        samples.push(RecursiveChallenger::<KB, E5>::sample(&mut cc, &mut b));
    }
    for t in &samples {
        if expose {
            let p = b.public_input();
            let dlt = b.sub(*t, p);
            b.assert_zero(dlt);
        } else {
            let two = b.define_const(lift(KB::from_u64(2)));
            let _ = b.mul(*t, two);
        }
    }
    let circuit: Circuit<E5> = b.build().map_err(|e| format!("build: {e:?}"))?;
    Ok(BuiltT { circuit, samples })
}

/// KoalaBear base-field challenger rows (D1) in a quintic circuit.
pub fn sweep_base(first: usize, name: &'static str) -> Result<Swept, String> {
    base_inner(first, name, false).map(|r| r.0.expect("swept"))
}
pub fn digest_base(first: usize, name: &'static str) -> Result<String, String> {
    base_inner(first, name, true).map(|r| r.1)
}
fn base_inner(first: usize, name: &'static str, digest_only: bool) -> Result<(Option<Swept>, String), String> {
    let build = move |p: DevPerm, expose: bool| build_base(first, p, expose);
    let (circuit, honest) = run_exposed(&build, &DevPerm::honest())?;
    let cfg = config::koala_bear();
    let npo_prep: Vec<Box<dyn NpoPreprocessor<KB>>> = vec![Box::new(Poseidon1Preprocessor)];
    let air_builders = poseidon1_air_builders_d5::<KoalaBearConfig>();
    let (ad, pc, npc) = get_airs_and_degrees_with_prep::<KoalaBearConfig, _, 5>(&circuit, &TablePacking::default(), &npo_prep, &air_builders, ConstraintProfile::Standard).map_err(|e| format!("airs: {e:?}"))?;
    let (airs, degs): (Vec<_>, Vec<usize>) = ad.into_iter().unzip();
    let pd = ProverData::from_airs_and_degrees(&cfg, &airs, &degs);
    let line = crate::npodigest::line(name, &circuit, &pc, &npc, &airs, &degs, &pd);
    if digest_only {
        return Ok((None, line));
    }
    let cpd = CircuitProverData::new(pd, pc, npc);
    let mut prover = BatchStarkProver::new(cfg);
    for p in poseidon1_table_provers_d5(Poseidon1Config::KOALA_BEAR_D1_W16) {
        prover.register_table_prover(p);
    }
    let j = judge!(prover, cpd, E5);
    sweep_table::<E5>(name, 1, NpoTypeId::poseidon1_perm(Poseidon1Config::KOALA_BEAR_D1_W16), &j, &honest, &build).map(|s| (Some(s), line))
}
