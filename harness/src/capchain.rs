//! C06, base-field (D = 1) challenger: every capacity element is carried from one challenger permutation to the next by
//! the row-to-row chain of the compact D = 1 Poseidon2 AIR.  A deviating prover (a permutation executor that alters ONE
//! capacity element of the first permutation's output and computes everything downstream honestly) must be refused for
//! every capacity slot.  Ported from the demonstration of the seeded change C06 (a sub-agent's test, written against the
//! public API only); the scenario list and the verdict handling are the harness's.
#![allow(dead_code)]
use std::panic::{AssertUnwindSafe, catch_unwind};

use p3_batch_stark::ProverData;
use p3_challenger::{CanObserve, CanSample, DuplexChallenger};
use p3_circuit::CircuitBuilder;
use p3_circuit::ops::{KoalaBearD1Width16, Poseidon2Config, generate_poseidon2_trace};
use p3_circuit_prover::batch_stark_prover::{poseidon2_air_builders_d5, poseidon2_table_provers_d5};
use p3_circuit_prover::common::{NpoPreprocessor, get_airs_and_degrees_with_prep};
use p3_circuit_prover::config::{self, KoalaBearConfig};
use p3_circuit_prover::{
    BatchStarkProver, CircuitProverData, ConstraintProfile, Poseidon2Preprocessor, TablePacking,
};
use p3_field::extension::QuinticTrinomialExtensionField;
use p3_field::{BasedVectorSpace, PrimeCharacteristicRing};
use p3_koala_bear::{KoalaBear, Poseidon2KoalaBear, default_koalabear_poseidon2_16};
use p3_recursion::challenger::CircuitChallenger;
use p3_recursion::traits::RecursiveChallenger;
use p3_symmetric::Permutation;

type F = KoalaBear;
type EF5 = QuinticTrinomialExtensionField<F>;
const WIDTH: usize = 16;
const RATE: usize = 8;

fn lift(b: F) -> EF5 {
    EF5::new([b, F::ZERO, F::ZERO, F::ZERO, F::ZERO])
}

fn low(e: &EF5) -> F {
    <EF5 as BasedVectorSpace<F>>::as_basis_coefficients_slice(e)[0]
}

fn block1() -> [F; RATE] {
    core::array::from_fn(|i| F::from_u64(i as u64 + 1))
}

fn block2() -> [F; RATE] {
    core::array::from_fn(|i| F::from_u64(100 + i as u64))
}

/// Sponge input of the first challenger permutation: first block in the rate half, the
/// prefix-free length tag (8 absorbed elements) in the first capacity element.
fn first_perm_input() -> [F; WIDTH] {
    let mut s = [F::ZERO; WIDTH];
    s[..RATE].copy_from_slice(&block1());
    s[RATE] = F::from_u64(RATE as u64);
    s
}

/// Permutation executor handed to the circuit runner. With `deviate = Some((slot, delta))` it
/// returns, for the first challenger permutation only, an output whose capacity element `slot`
/// is shifted by `delta`; all other calls (and all other elements) are the true permutation.
#[derive(Clone)]
struct ProverPerm {
    inner: Poseidon2KoalaBear<WIDTH>,
    deviate: Option<(usize, F)>,
}

impl Permutation<[EF5; WIDTH]> for ProverPerm {
    fn permute(&self, input: [EF5; WIDTH]) -> [EF5; WIDTH] {
        let bases: [F; WIDTH] = core::array::from_fn(|i| low(&input[i]));
        let mut out = self.inner.permute(bases);
        if let Some((slot, delta)) = self.deviate
            && bases == first_perm_input()
        {
            assert!((RATE..WIDTH).contains(&slot));
            out[slot] += delta;
        }
        core::array::from_fn(|i| lift(out[i]))
    }
}

/// What the two samples are when capacity element `slot` is shifted by `delta` between the two
/// permutations (`None` = honest sponge).
fn samples_with_deviation(deviate: Option<(usize, F)>) -> (F, F) {
    let perm = default_koalabear_poseidon2_16();
    let out1 = perm.permute(first_perm_input());
    let c1 = out1[RATE - 1];

    let mut s = out1;
    if let Some((slot, delta)) = deviate {
        s[slot] += delta;
    }
    s[..RATE].copy_from_slice(&block2());
    s[RATE] += F::from_u64(RATE as u64);
    let out2 = perm.permute(s);
    (c1, out2[RATE - 1])
}

fn native_samples() -> (F, F) {
    let mut native = DuplexChallenger::<F, _, WIDTH, RATE>::new(default_koalabear_poseidon2_16());
    for v in block1() {
        native.observe(v);
    }
    let c1: F = native.sample();
    for v in block2() {
        native.observe(v);
    }
    let c2: F = native.sample();
    (c1, c2)
}

/// Build the transcript circuit, run it with the given executor, prove all tables and verify.
/// The two sampled challenges are exposed as public inputs `(c1, c2)`.
/// Returns `Ok(())` iff a proof was produced and `verify_all_tables` accepted it.
fn prove_and_verify(deviate: Option<(usize, F)>, claimed: (F, F)) -> Result<(), String> {
    const D: usize = 5;

    let mut builder = CircuitBuilder::<EF5>::new();
    builder.enable_poseidon2_perm_base::<KoalaBearD1Width16, _>(
        generate_poseidon2_trace::<EF5, KoalaBearD1Width16>,
        ProverPerm {
            inner: default_koalabear_poseidon2_16(),
            deviate,
        },
    );

    let mut cc: CircuitChallenger<WIDTH, RATE, Poseidon2Config> =
        CircuitChallenger::new_koalabear_base();

    for v in block1() {
        let t = builder.define_const(lift(v));
        RecursiveChallenger::<F, EF5>::observe(&mut cc, &mut builder, t);
    }
    let c1 = RecursiveChallenger::<F, EF5>::sample(&mut cc, &mut builder);
    for v in block2() {
        let t = builder.define_const(lift(v));
        RecursiveChallenger::<F, EF5>::observe(&mut cc, &mut builder, t);
    }
    let c2 = RecursiveChallenger::<F, EF5>::sample(&mut cc, &mut builder);

    let e1 = builder.public_input();
    let e2 = builder.public_input();
    let d1 = builder.sub(c1, e1);
    let d2 = builder.sub(c2, e2);
    builder.assert_zero(d1);
    builder.assert_zero(d2);

    let circuit = builder.build().map_err(|e| format!("build: {e:?}"))?;
    let cfg = config::koala_bear();

    let npo_prep: Vec<Box<dyn NpoPreprocessor<F>>> = vec![Box::new(Poseidon2Preprocessor)];
    let air_builders = poseidon2_air_builders_d5::<KoalaBearConfig>();
    let (airs_degrees, primitive_columns, non_primitive_columns) =
        get_airs_and_degrees_with_prep::<KoalaBearConfig, _, D>(
            &circuit,
            &TablePacking::default(),
            &npo_prep,
            &air_builders,
            ConstraintProfile::Standard,
        )
        .map_err(|e| format!("airs: {e:?}"))?;
    let (airs, degrees): (Vec<_>, Vec<usize>) = airs_degrees.into_iter().unzip();

    let mut runner = circuit.runner();
    runner
        .set_public_inputs(&[lift(claimed.0), lift(claimed.1)])
        .map_err(|e| format!("public inputs: {e:?}"))?;
    let traces = runner.run().map_err(|e| format!("run: {e:?}"))?;

    let prover_data = ProverData::from_airs_and_degrees(&cfg, &airs, &degrees);
    let circuit_prover_data =
        CircuitProverData::new(prover_data, primitive_columns, non_primitive_columns);

    let mut prover = BatchStarkProver::new(cfg);
    for p in poseidon2_table_provers_d5(Poseidon2Config::KOALA_BEAR_D1_W16) {
        prover.register_table_prover(p);
    }

    // A debug build of the prover may assert constraint satisfaction while proving; a panic there
    // is as good a rejection as a verifier error.
    let outcome = catch_unwind(AssertUnwindSafe(|| {
        let proof = prover
            .prove_all_tables(&traces, &circuit_prover_data)
            .map_err(|e| format!("prove: {e:?}"))?;
        prover
            .verify_all_tables::<EF5>(&proof)
            .map_err(|e| format!("verify: {e:?}"))
    }));
    match outcome {
        Ok(r) => r,
        Err(_) => Err("panicked while proving/verifying".to_string()),
    }
}


/// One scenario per capacity slot: (slot, honest proof verifies, deviating proof accepted, c2 differs from native).
pub fn run_slot(slot: usize) -> (bool, bool, bool) {
    let native = native_samples();
    let honest_ok = samples_with_deviation(None) == native && prove_and_verify(None, native).is_ok();
    let dev = Some((slot, F::from_u64(777 + slot as u64)));
    let forged = samples_with_deviation(dev);
    let accepted = prove_and_verify(dev, forged).is_ok();
    (honest_ok, accepted, forged.1 != native.1)
}
pub const SLOTS: core::ops::Range<usize> = RATE..WIDTH;
