//! Adversarial witness generation against the real prover / verifier.
//!
//! Mechanisms: (a) clone the compiled `Circuit`, alter an op (a constant's value, a hint's
//! executor), run the *real* runner so the deviation propagates consistently, prove with the
//! prover data of the ORIGINAL circuit; (b) mutate cells of the `Traces` an honest run produced.
//! The verdict is the real `verify_all_tables`.
use std::panic::{AssertUnwindSafe, catch_unwind};

use p3_circuit::ops::HintExecutor;
use p3_circuit::{Circuit, CircuitError, Op, Traces, WitnessId};
use p3_circuit_prover::batch_stark_prover::{BatchStarkProver, TablePacking};
use p3_circuit_prover::config;

use crate::pipeline::{F, Prep, prepare};

/// A hint executor that writes fixed values.
#[derive(Debug, Clone)]
pub struct FixedHint {
    pub values: Vec<F>,
}
impl HintExecutor<F> for FixedHint {
    fn execute(&self, _inputs: &[WitnessId], outputs: &[WitnessId], witness: &mut [Option<F>]) -> Result<(), CircuitError> {
        for (o, v) in outputs.iter().zip(&self.values) {
            witness[o.0 as usize] = Some(*v);
        }
        Ok(())
    }
    fn boxed(&self) -> Box<dyn HintExecutor<F>> {
        Box::new(self.clone())
    }
}

#[derive(Debug, Clone, PartialEq, Eq)]
pub enum Verdict {
    Accepted,
    ProveFailed(String),
    Rejected(String),
}

/// Prove `traces` against the prover data of `original` and verify.
pub fn prove_verify_with(prep: &Prep, traces: &Traces<F>, packing: TablePacking) -> Verdict {
    let prover = BatchStarkProver::new(config::baby_bear()).with_table_packing(packing);
    let r = catch_unwind(AssertUnwindSafe(|| {
        let proof = match prover.prove_all_tables(traces, &prep.cpd) {
            Ok(p) => p,
            Err(e) => return Verdict::ProveFailed(format!("{e:?}")),
        };
        match prover.verify_all_tables::<F>(&proof) {
            Ok(()) => Verdict::Accepted,
            Err(e) => Verdict::Rejected(format!("{e:?}")),
        }
    }));
    r.unwrap_or_else(|_| Verdict::ProveFailed("PANIC in prove/verify".into()))
}

pub fn run_traces(circuit: &Circuit<F>, pubs: &[F], privs: &[F]) -> Result<Traces<F>, String> {
    let r = catch_unwind(AssertUnwindSafe(|| {
        let mut runner = circuit.runner();
        runner.set_public_inputs(pubs).map_err(|e| format!("{e:?}"))?;
        if circuit.private_flat_len > 0 {
            runner.set_private_inputs(privs).map_err(|e| format!("{e:?}"))?;
        }
        runner.run().map_err(|e| format!("{e:?}"))
    }));
    r.unwrap_or_else(|_| Err("PANIC in runner".into()))
}

/// Demo of the two mechanisms on hand-written circuits (used while developing the checks).
pub fn demo() {
    use p3_baby_bear::BabyBear;
    use p3_circuit::CircuitBuilder;
    use p3_field::PrimeCharacteristicRing;
    let f = |x: u64| F::from_u64(x);
    // H1: an unsatisfiable circuit (1 == 0) proven by altering a constant
    {
        let mut b = CircuitBuilder::<F>::new();
        let x = b.public_input();
        let one = b.define_const(F::ONE);
        let y = b.mul(x, one); // folds to x
        let t = b.add(y, one);
        let k = b.define_const(f(7));
        b.connect(t, k); // x + 1 = 7
        let c = b.build().unwrap();
        let packing = TablePacking::new(1, 1);
        let prep = prepare(&c, &packing).unwrap();
        let honest = run_traces(&c, &[f(6)], &[]).unwrap();
        println!("H1 honest: {:?}", prove_verify_with(&prep, &honest, packing.clone()));
        // forge: constant 1 -> 2, input 5: "5 + 1 = 7" is false
        let mut forged = c.clone();
        for op in forged.ops.iter_mut() {
            if let Op::Const { val, .. } = op {
                if *val == F::ONE {
                    *val = f(2);
                }
            }
        }
        match run_traces(&forged, &[f(5)], &[]) {
            Ok(t) => println!("H1 forged (const 1 -> 2, x = 5, claims 5 + 1 = 7): {:?}", prove_verify_with(&prep, &t, packing.clone())),
            Err(e) => println!("H1 forged run failed: {e}"),
        }
    }
    // H2: non-boolean bits
    {
        let mut b = CircuitBuilder::<F>::new();
        let x = b.public_input();
        let bits = b.decompose_to_bits::<BabyBear>(x, 3).unwrap();
        // the claimed value of bit 1 is exposed through an ordinary product: y = 5 * bit1
        let five = b.define_const(f(5));
        let y = b.mul(bits[1], five);
        let yp = b.public_input();
        b.connect(y, yp);
        let c = b.build().unwrap();
        let packing = TablePacking::new(1, 1);
        let prep = prepare(&c, &packing).unwrap();
        for (i, op) in c.ops.iter().enumerate() {
            println!("   op {i}: {}", crate::pipeline::op_to_json(op));
        }
        let raw = c.generate_preprocessed_columns::<1>().unwrap();
        for (r, ch) in raw.primitive[2].chunks(12).enumerate() {
            println!("   alu row {r}: sel {:?} idx {:?} a_state {} b_cre {} c_state {} out_cre {}", &ch[0..4].iter().map(|v| crate::pipeline::fu(*v)).collect::<Vec<_>>(), &ch[4..8].iter().map(|v| crate::pipeline::fu(*v)).collect::<Vec<_>>(), crate::pipeline::fu(ch[8]), crate::pipeline::fu(ch[9]), crate::pipeline::fu(ch[10]), crate::pipeline::fu(ch[11]));
        }
        println!("   ext_reads {:?}", raw.ext_reads);
        let honest = run_traces(&c, &[f(4), f(0)], &[]).unwrap();
        println!("H2 honest (lsb of 4 is 0): {:?}", prove_verify_with(&prep, &honest, packing.clone()));
        let mut forged = c.clone();
        for op in forged.ops.iter_mut() {
            if let Op::Hint { executor, .. } = op {
                *executor = Box::new(FixedHint { values: vec![f(0), f(2), f(0)] }); // 0 + 2*2 + 4*0 = 4
            }
        }
        match run_traces(&forged, &[f(4), f(10)], &[]) {
            Ok(mut t) => {
                println!("H2 forged run ok; proving as is: {:?}", prove_verify_with(&prep, &t, packing.clone()));
                // the BoolCheck rows: set the floating a (and c) cells to a boolean
                for (i, k) in t.alu_trace.op_kind.clone().iter().enumerate() {
                    if *k == p3_circuit::AluOpKind::BoolCheck && t.alu_trace.values[i][0] == f(2) {
                        t.alu_trace.values[i][0] = F::ZERO;
                        t.alu_trace.values[i][2] = F::ZERO;
                    }
                }
                println!("H2 forged (bits of 4 = (2,1,0), a-cells of the bool rows zeroed; claims bit 1 of 4 is 2, y = 10): {:?}", prove_verify_with(&prep, &t, packing.clone()));
            }
            Err(e) => println!("H2 forged run failed: {e}"),
        }
    }
}
