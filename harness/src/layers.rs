//! C17 — recursion / aggregation layers chain, with or without cached preparation.
//!
//! One case = one SEQUENCE of steps over a small world of named proofs and cache slots.  Every proving step is
//! replayed into the real `p3_recursion::recursion` API (`build_next_layer_circuit`, `build_next_layer_prep`,
//! `prove_next_layer`, `build_and_prove_aggregation_layer[_cross]`), then
//!   (1) the produced proof is verified natively (`BatchStarkProver::verify_all_tables`, as the examples do),
//!   (2) when a cache slot was used, the same step is redone WITHOUT cache and the two verdicts are compared,
//!   (3) the output is stored under its name and used as the input of later steps.
//! Glue (`Cfg` = `ConfigWithFriParams` of `recursion/examples/common/mod.rs`, KoalaBear D=4 Poseidon2-16) is
//! re-written here because the examples' module needs clap / tracing-forest which are not available offline.
use std::collections::BTreeMap;
use std::io::{BufRead, BufReader};
use std::panic::{AssertUnwindSafe, catch_unwind};
use std::rc::Rc;
use std::sync::{Arc, Mutex};
use std::time::Instant;

use p3_air::{Air, AirBuilder, BaseAir, WindowAccess};
use p3_batch_stark::ProverData;
use p3_circuit::ops::{NpoTypeId, generate_poseidon2_trace, generate_recompose_trace};
use p3_circuit::test_utils::FibonacciAir;
use p3_circuit::{CircuitBuilder, CircuitRunner, NonPrimitiveOpId};
use p3_circuit_prover::common::get_airs_and_degrees_with_prep;
use p3_circuit_prover::{BatchStarkProver, CircuitProverData, ConstraintProfile, TablePacking};
use p3_commit::Pcs;
use p3_field::PrimeCharacteristicRing;
use p3_fri::FriParameters;
use p3_lookup::logup::LogUpGadget;
use p3_matrix::dense::RowMajorMatrix;
use p3_poseidon2_circuit_air::KoalaBearD4Width16;
use p3_recursion::pcs::{InputProofTargets, MerkleCapTargets, RecValMmcs, set_fri_mmcs_private_data};
use p3_recursion::recursion::{AggregationCircuitFingerprint, AggregationPrepCache, NextLayerPrepCache};
use p3_recursion::traits::{RecursiveAir, RecursivePcs};
use p3_recursion::verifier::VerificationError;
use p3_recursion::{
    FriRecursionBackend, FriRecursionBackendForExt, FriRecursionConfig, FriVerifierParams, Poseidon2Config,
    ProveNextLayerParams, RecursionInput, RecursionOutput, build_and_prove_aggregation_layer,
    build_and_prove_aggregation_layer_cross, build_next_layer_circuit, build_next_layer_prep, prove_next_layer,
};
use p3_test_utils::koala_bear_params::*;
use p3_uni_stark::{Proof, StarkGenericConfig, Val};
use serde::{Deserialize, Serialize};
use serde_json::{Value, json};

const P2: Poseidon2Config = Poseidon2Config::KOALA_BEAR_D4_W16;
type InnerFri = p3_recursion::pcs::FriProofTargets<
    F,
    Challenge,
    p3_recursion::pcs::RecExtensionValMmcs<F, Challenge, DIGEST_ELEMS, RecValMmcs<F, DIGEST_ELEMS, MyHash, MyCompress>>,
    InputProofTargets<F, Challenge, RecValMmcs<F, DIGEST_ELEMS, MyHash, MyCompress>>,
    p3_recursion::pcs::Witness<F>,
>;
type Backend = FriRecursionBackendForExt<D, 16, 8, Poseidon2Config>;

// ---------------------------------------------------------------------------------------------------------
// Config glue (mirror of `ConfigWithFriParams` in recursion/examples/common/mod.rs)
// ---------------------------------------------------------------------------------------------------------
#[derive(Clone)]
pub struct Cfg {
    config: Arc<MyConfig>,
    vp: FriVerifierParams,
}
impl StarkGenericConfig for Cfg {
    type Challenge = Challenge;
    type Challenger = Challenger;
    type Pcs = MyPcs;
    fn pcs(&self) -> &MyPcs {
        self.config.pcs()
    }
    fn initialise_challenger(&self) -> Challenger {
        self.config.initialise_challenger()
    }
}
impl FriRecursionConfig for Cfg
where
    MyPcs: RecursivePcs<
            Cfg,
            InputProofTargets<F, Challenge, RecValMmcs<F, DIGEST_ELEMS, MyHash, MyCompress>>,
            InnerFri,
            MerkleCapTargets<F, DIGEST_ELEMS>,
            <MyPcs as Pcs<Challenge, Challenger>>::Domain,
        >,
{
    type Commitment = MerkleCapTargets<F, DIGEST_ELEMS>;
    type InputProof = InputProofTargets<F, Challenge, RecValMmcs<F, DIGEST_ELEMS, MyHash, MyCompress>>;
    type OpeningProof = InnerFri;
    type RawOpeningProof = <MyPcs as Pcs<Challenge, Challenger>>::Proof;
    const DIGEST_ELEMS: usize = DIGEST_ELEMS;

    fn with_fri_opening_proof<'a, A, R>(prev: &RecursionInput<'a, Self, A>, f: impl FnOnce(&Self::RawOpeningProof) -> R) -> R
    where
        A: RecursiveAir<Val<Self>, Self::Challenge, LogUpGadget>,
    {
        match prev {
            RecursionInput::UniStark { proof, .. } => f(&proof.opening_proof),
            RecursionInput::BatchStark { proof, .. } => f(&proof.proof.opening_proof),
        }
    }
    fn prepare_circuit_for_verification(&self, circuit: &mut CircuitBuilder<Challenge>) -> Result<(), VerificationError> {
        let perm = default_koalabear_poseidon2_16();
        circuit.enable_poseidon2_perm::<KoalaBearD4Width16, _>(generate_poseidon2_trace::<Challenge, KoalaBearD4Width16>, perm);
        circuit.enable_recompose::<F>(generate_recompose_trace::<F, Challenge>);
        Ok(())
    }
    fn pcs_verifier_params(&self) -> &FriVerifierParams {
        &self.vp
    }
    fn set_fri_private_data(
        runner: &mut CircuitRunner<'_, Challenge>,
        op_ids: &[NonPrimitiveOpId],
        opening_proof: &Self::RawOpeningProof,
    ) -> Result<(), &'static str> {
        set_fri_mmcs_private_data::<F, Challenge, ChallengeMmcs, MyMmcs, MyHash, MyCompress, DIGEST_ELEMS>(runner, op_ids, opening_proof, P2)
    }
}

/// One parameter set: FRI parameters of the PCS + table packing of the layer prover.
#[derive(Clone, Copy, Debug, PartialEq)]
pub struct PSet {
    pub name: &'static str,
    pub log_blowup: usize,
    pub num_queries: usize,
    pub max_log_arity: usize,
    pub qpow: usize,
    pub public_lanes: usize,
    pub alu_lanes: usize,
}
pub const PSETS: [PSet; 3] = [
    PSet { name: "default", log_blowup: 2, num_queries: 2, max_log_arity: 2, qpow: 1, public_lanes: 1, alu_lanes: 3 },
    // `alt`: different blowup, query count, PoW and packing lanes
    PSet { name: "alt", log_blowup: 1, num_queries: 3, max_log_arity: 1, qpow: 2, public_lanes: 2, alu_lanes: 2 },
    // `altq`: identical commitments (same blowup / lanes), only the query phase differs
    PSet { name: "altq", log_blowup: 2, num_queries: 3, max_log_arity: 2, qpow: 1, public_lanes: 1, alu_lanes: 3 },
];
fn pset_index(name: &str) -> Option<usize> {
    PSETS.iter().position(|p| p.name == name)
}
fn fri_params(p: &PSet) -> (MyMmcs, FriParameters<ChallengeMmcs>) {
    let perm = default_koalabear_poseidon2_16();
    let val_mmcs = MyMmcs::new(MyHash::new(perm.clone()), MyCompress::new(perm), 0);
    let fp = FriParameters {
        max_log_arity: p.max_log_arity,
        log_blowup: p.log_blowup,
        log_final_poly_len: 0,
        num_queries: p.num_queries,
        commit_proof_of_work_bits: 0,
        query_proof_of_work_bits: p.qpow,
        mmcs: ChallengeMmcs::new(val_mmcs.clone()),
    };
    (val_mmcs, fp)
}
/// Config that PROVES under `out` and VERIFIES (in circuit) children proved under `inp`.
fn mk_cfg(out: &PSet, inp: &PSet) -> Cfg {
    let (val_mmcs, fp) = fri_params(out);
    let pcs = MyPcs::new(Dft::default(), val_mmcs, fp);
    let config = MyConfig::new(pcs, Challenger::new(default_koalabear_poseidon2_16()));
    Cfg { config: Arc::new(config), vp: FriVerifierParams::with_mmcs(inp.log_blowup, 0, 0, inp.qpow, P2) }
}
fn layer_params(p: &PSet) -> ProveNextLayerParams {
    ProveNextLayerParams {
        table_packing: TablePacking::new(p.public_lanes, p.alu_lanes)
            .with_horner_pack_k(4)
            .with_npo_lanes(NpoTypeId::recompose(), 1)
            .with_fri_params(0, p.log_blowup),
        constraint_profile: ConstraintProfile::Standard,
    }
}
fn backend() -> Backend {
    FriRecursionBackend::<16, 8, _>::new(P2).for_extension_degree::<D>()
}

// ---------------------------------------------------------------------------------------------------------
// Base AIRs (uni-STARK children)
// ---------------------------------------------------------------------------------------------------------
/// `Fib` = the repository's `FibonacciAir`; `Mul`: b' = a*b; `Lin(k)`: b' = a + k*b (same shape for every k).
#[derive(Clone, Copy, Debug, PartialEq)]
pub enum BAir {
    Fib,
    Mul,
    Lin(u32),
    /// b' = a * b + c with c a PREPROCESSED column (c_i = i + 1) over `n` rows: the uni-STARK + preprocessed-commitment path.
    /// The flag: the AIR declares that it reads the preprocessed column at the current row only
    /// (`preprocessed_next_row_columns` = none, the optimisation p3-air documents), so the prover opens it at zeta only.
    Prep(usize, bool),
}
impl<T: p3_field::Field> BaseAir<T> for BAir {
    fn width(&self) -> usize {
        2
    }
    fn num_public_values(&self) -> usize {
        3
    }
    fn preprocessed_trace(&self) -> Option<RowMajorMatrix<T>> {
        match self {
            BAir::Prep(n, _) => Some(RowMajorMatrix::new((0..*n).map(|i| T::from_usize(i + 1)).collect(), 1)),
            _ => None,
        }
    }
    fn preprocessed_width(&self) -> usize {
        matches!(self, BAir::Prep(..)) as usize
    }
    fn preprocessed_next_row_columns(&self) -> Vec<usize> {
        match self {
            BAir::Prep(_, false) => vec![0],
            _ => vec![],
        }
    }
}
impl<AB: AirBuilder> Air<AB> for BAir
where
    AB::F: p3_field::Field,
{
    fn eval(&self, builder: &mut AB) {
        if *self == BAir::Fib {
            return FibonacciAir {}.eval(builder);
        }
        let main = builder.main();
        let pis = builder.public_values();
        let (a, b, x) = (pis[0], pis[1], pis[2]);
        let (l0, l1): (AB::Expr, AB::Expr) = (main.current_slice()[0].clone().into(), main.current_slice()[1].clone().into());
        let (n0, n1): (AB::Expr, AB::Expr) = (main.next_slice()[0].clone().into(), main.next_slice()[1].clone().into());
        let prep_c: Option<AB::Expr> = match self {
            BAir::Prep(..) => Some(builder.preprocessed().current_slice()[0].clone().into()),
            _ => None,
        };
        let mut first = builder.when_first_row();
        first.assert_eq(l0.clone(), a);
        first.assert_eq(l1.clone(), b);
        let mut tr = builder.when_transition();
        tr.assert_eq(l1.clone(), n0);
        let nxt = match self {
            BAir::Mul => l0 * l1.clone(),
            BAir::Lin(k) => l0 + l1.clone() * AB::Expr::from_u32(*k),
            BAir::Prep(..) => l0 * l1.clone() + prep_c.expect("preprocessed value"),
            BAir::Fib => unreachable!(),
        };
        tr.assert_eq(nxt, n1);
        builder.when_last_row().assert_eq(l1, x);
    }
}
fn base_trace(air: BAir, n: usize) -> (RowMajorMatrix<F>, Vec<F>) {
    let (a0, b0) = match air {
        BAir::Fib => (F::ZERO, F::ONE),
        _ => (F::from_u32(2), F::from_u32(3)),
    };
    let mut v = Vec::with_capacity(2 * n);
    let (mut a, mut b) = (a0, b0);
    for _ in 0..n {
        v.push(a);
        v.push(b);
        let nb = match air {
            BAir::Fib => a + b,
            BAir::Mul => a * b,
            BAir::Lin(k) => a + b * F::from_u32(k),
            BAir::Prep(..) => a * b + F::from_usize(v.len() / 2),
        };
        a = b;
        b = nb;
    }
    let x = v[2 * n - 1];
    (RowMajorMatrix::new(v, 2), vec![a0, b0, x])
}

// ---------------------------------------------------------------------------------------------------------
// Cases
// ---------------------------------------------------------------------------------------------------------
fn none() -> String {
    "none".into()
}
fn uni() -> String {
    "uni".into()
}
#[derive(Clone, Debug, Serialize, Deserialize)]
#[serde(tag = "op", rename_all = "lowercase")]
pub enum Step {
    /// `kind`: "uni" (uni-STARK over `air`, `n` rows) or "batch" (batch-STARK of a dummy const circuit, const = k)
    Base {
        name: String,
        #[serde(default = "uni")]
        kind: String,
        #[serde(default)]
        air: String,
        #[serde(default)]
        k: u32,
        #[serde(default)]
        n: usize,
    },
    Next {
        from: String,
        name: String,
        #[serde(default = "none")]
        cache: String,
        /// predictions of Recursion.tla for this call: use (the slot's content is used), same (it was prepared for this key)
        #[serde(default)]
        m: Option<Value>,
    },
    Agg {
        left: String,
        right: String,
        name: String,
        #[serde(default = "none")]
        cache: String,
        #[serde(default)]
        m: Option<Value>,
    },
    Params {
        set: String,
    },
}
#[derive(Clone, Debug, Serialize, Deserialize)]
pub struct Case {
    #[serde(default)]
    pub spec: String,
    #[serde(default)]
    pub config: String,
    pub steps: Vec<Step>,
}

#[derive(Clone, Debug)]
pub struct Finding {
    pub kind: String,
    pub signature: String,
    pub detail: Value,
}

enum Pf {
    Uni { proof: Proof<Cfg>, air: BAir, pis: Vec<F>, prep_commit: Option<<MyPcs as Pcs<Challenge, Challenger>>::Commitment> },
    Batch(RecursionOutput<Cfg>),
}
struct Item {
    pf: Pf,
    pset: usize,
    depth: usize,
    desc: String,
}
impl Item {
    fn input(&self) -> RecursionInput<'_, Cfg, BAir> {
        match &self.pf {
            Pf::Uni { proof, air, pis, prep_commit } => RecursionInput::UniStark { proof, air, public_inputs: pis.clone(), preprocessed_commit: prep_commit.clone() },
            Pf::Batch(o) => o.into_recursion_input::<BAir>(),
        }
    }
    fn kind(&self) -> &'static str {
        match self.pf {
            Pf::Uni { .. } => "uni",
            Pf::Batch(_) => "batch",
        }
    }
}
/// What a cache slot was filled for (driver-side bookkeeping; the cache objects themselves carry no identity besides
/// the four counters of `AggregationCircuitFingerprint` in the aggregation cache, and nothing in `NextLayerPrepCache`).
#[derive(Clone, Debug, Serialize)]
struct SlotMeta {
    filled_by: String,
    pset: String,
    fingerprint: Option<[u64; 4]>,
    prep_commit: String,
}
#[derive(Default)]
struct World {
    items: BTreeMap<String, Item>,
    next_slots: BTreeMap<String, (NextLayerPrepCache<Cfg>, SlotMeta)>,
    agg_slots: BTreeMap<String, (Option<AggregationPrepCache<Cfg>>, Option<SlotMeta>)>,
    cur: usize,
}

/// distinct (message, location) of every panic seen during the run (the hook runs on whichever thread panics)
static PANIC_SITES: Mutex<BTreeMap<String, u64>> = Mutex::new(BTreeMap::new());
fn install_hook() {
    std::panic::set_hook(Box::new(|info| {
        let msg = info.payload().downcast_ref::<String>().cloned().or_else(|| info.payload().downcast_ref::<&str>().map(|s| s.to_string())).unwrap_or_default();
        let loc = info.location().map(|l| format!("{}:{}", l.file(), l.line())).unwrap_or_default();
        if let Ok(mut m) = PANIC_SITES.lock() {
            *m.entry(format!("{} @ {loc}", msg.chars().take(120).collect::<String>())).or_default() += 1;
        }
    }));
}
fn pmsg(e: Box<dyn std::any::Any + Send>) -> String {
    let s = e.downcast_ref::<String>().cloned().or_else(|| e.downcast_ref::<&str>().map(|s| s.to_string())).unwrap_or_else(|| "<non-string panic>".into());
    s.chars().take(300).collect()
}
/// Ok(Ok(v)) / Ok(Err(error)) / Err(panic message)
fn guarded<T>(f: impl FnOnce() -> Result<T, String>) -> Result<Result<T, String>, String> {
    catch_unwind(AssertUnwindSafe(f)).map_err(pmsg)
}
fn fp_arr(f: &AggregationCircuitFingerprint) -> [u64; 4] {
    [f.witness_count as u64, f.public_flat_len as u64, f.private_flat_len as u64, f.ops_len as u64]
}
fn commit_of(cpd: &CircuitProverData<Cfg>) -> String {
    cpd.common_data().preprocessed.as_ref().map(|g| short(&serde_json::to_string(&g.commitment).unwrap_or_default())).unwrap_or_else(|| "none".into())
}
fn commit_of_proof(o: &RecursionOutput<Cfg>) -> String {
    o.0.stark_common.preprocessed.as_ref().map(|g| short(&serde_json::to_string(&g.commitment).unwrap_or_default())).unwrap_or_else(|| "none".into())
}
fn short(s: &str) -> String {
    use std::hash::{Hash, Hasher};
    let mut h = std::collections::hash_map::DefaultHasher::new();
    s.hash(&mut h);
    format!("{:016x}", h.finish())
}

fn verify_native(o: &RecursionOutput<Cfg>, p: &PSet) -> Result<(), String> {
    let r = guarded(|| {
        let mut v = BatchStarkProver::new(mk_cfg(p, p)).with_table_packing(layer_params(p).table_packing);
        v.register_poseidon2_table::<D>(P2);
        v.register_recompose_table::<D>(false);
        v.verify_all_tables::<Challenge>(&o.0).map_err(|e| format!("{e:?}").chars().take(200).collect::<String>())
    });
    match r {
        Ok(x) => x,
        Err(p) => Err(format!("panic: {p}")),
    }
}

fn prove_base(kind: &str, air: &str, k: u32, n: usize, p: &PSet) -> Result<Pf, String> {
    let cfg = mk_cfg(p, p);
    if kind == "batch" {
        // as `prove_dummy_circuit` in recursion/examples/recursive_aggregation.rs
        // n = 10 * (number of ALU operations) + ALU lanes; n = 0: the dummy circuit of the example (no ALU op, one lane)
        let (ops, lanes) = (n / 10, (n % 10).max(1));
        let mut b = CircuitBuilder::<F>::new();
        let c = b.alloc_const(F::from_u32(k.max(1)), "dummy");
        // with ALU operations the chain starts from a public input (constants would be folded away by the builder)
        let x = if ops > 0 { Some(b.alloc_public_input("x")) } else { None };
        let e = b.alloc_public_input("expected");
        let mut acc = x.unwrap_or(c);
        let mut accv = F::from_u32(k.max(1));
        for i in 0..ops {
            let m = b.alloc_const(F::from_u32(3 + i as u32), "factor");
            acc = b.mul(acc, m);
            accv *= F::from_u32(3 + i as u32);
        }
        b.connect(acc, e);
        let circuit = b.build().map_err(|e| format!("{e:?}"))?;
        let tp = TablePacking::new(1, lanes).with_fri_params(0, p.log_blowup);
        let (ad, pc, npc) = get_airs_and_degrees_with_prep::<Cfg, F, 1>(&circuit, &tp, &[], &[], ConstraintProfile::Standard).map_err(|e| format!("{e:?}"))?;
        let (airs, degrees): (Vec<_>, Vec<usize>) = ad.into_iter().unzip();
        let mut r = circuit.runner();
        let pubs: Vec<F> = if ops > 0 { vec![F::from_u32(k.max(1)), accv] } else { vec![accv] };
        r.set_public_inputs(&pubs).map_err(|e| format!("{e:?}"))?;
        let traces = r.run().map_err(|e| format!("{e:?}"))?;
        let cpd = CircuitProverData::new(ProverData::from_airs_and_degrees(&cfg, &airs, &degrees), pc, npc);
        let prover = BatchStarkProver::new(cfg).with_table_packing(tp);
        let proof = prover.prove_all_tables(&traces, &cpd).map_err(|e| format!("{e:?}"))?;
        prover.verify_all_tables::<F>(&proof).map_err(|e| format!("base verify: {e:?}"))?;
        return Ok(Pf::Batch(RecursionOutput(proof, Rc::new(cpd))));
    }
    let air = match air {
        "fib" => BAir::Fib,
        "mul" => BAir::Mul,
        "lin" => BAir::Lin(k),
        "prep" => BAir::Prep(n.max(4).next_power_of_two(), false),
        "prepcur" => BAir::Prep(n.max(4).next_power_of_two(), true),
        o => return Err(format!("unknown air {o}")),
    };
    let (trace, pis) = base_trace(air, n.max(4).next_power_of_two());
    if let BAir::Prep(rows, _) = air {
        let (pd, vk) = p3_uni_stark::setup_preprocessed(&cfg, &air, p3_util::log2_ceil_usize(rows)).ok_or("no preprocessed data")?;
        let proof = p3_uni_stark::prove_with_preprocessed(&cfg, &air, trace, &pis, Some(&pd));
        p3_uni_stark::verify_with_preprocessed(&cfg, &air, &proof, &pis, Some(&vk)).map_err(|e| format!("base verify: {e:?}"))?;
        return Ok(Pf::Uni { proof, air, pis, prep_commit: Some(vk.commitment.clone()) });
    }
    let proof = p3_uni_stark::prove(&cfg, &air, trace, &pis);
    p3_uni_stark::verify(&cfg, &air, &proof, &pis).map_err(|e| format!("base verify: {e:?}"))?;
    Ok(Pf::Uni { proof, air, pis, prep_commit: None })
}

struct Proved {
    out: RecursionOutput<Cfg>,
    fingerprint: Option<[u64; 4]>,
    /// "none" | "filled" | "hit" | "recomputed"
    cache: &'static str,
}

/// One `next` step.  `slot = None`: uncached API.
fn do_next(w: &mut World, from: &str, slot: Option<&str>, label: &str) -> Result<Proved, String> {
    let it = w.items.get(from).ok_or("missing input")?;
    let (cur, inp_ps) = (PSETS[w.cur], PSETS[it.pset]);
    let cfg = mk_cfg(&cur, &inp_ps);
    let (be, params) = (backend(), layer_params(&cur));
    let input = it.input();
    let (circ, vr) = build_next_layer_circuit::<Cfg, BAir, _, D>(&input, &cfg, &be).map_err(|e| format!("build: {e:?}"))?;
    let fp = [circ.witness_count as u64, circ.public_flat_len as u64, circ.private_flat_len as u64, circ.ops.len() as u64];
    let mut cache = "none";
    if let Some(k) = slot {
        cache = "hit"; // NextLayerPrepCache is used unconditionally by prove_next_layer when passed
        if !w.next_slots.contains_key(k) {
            let prep = build_next_layer_prep::<Cfg, BAir, _, D>(&circ, &cfg, &be, &params).map_err(|e| format!("prep: {e:?}"))?;
            let meta = SlotMeta { filled_by: label.into(), pset: cur.name.into(), fingerprint: Some(fp), prep_commit: commit_of(&prep.circuit_prover_data) };
            w.next_slots.insert(k.into(), (prep, meta));
            cache = "filled";
        }
    }
    let prep = slot.and_then(|k| w.next_slots.get(k)).map(|x| &x.0);
    let out = prove_next_layer::<Cfg, BAir, _, D>(&input, &circ, &vr, &cfg, &be, &params, prep).map_err(|e| format!("prove: {}", short_err(&e)))?;
    Ok(Proved { out, fingerprint: Some(fp), cache })
}

/// One `agg` step.  `slot = None`: `prep_cache = None`; `slot = Some("")`: a throw-away empty slot (to learn the fingerprint).
fn do_agg(w: &mut World, left: &str, right: &str, slot: Option<&str>, label: &str) -> Result<Proved, String> {
    let (l, r) = (w.items.get(left).ok_or("missing left input")?, w.items.get(right).ok_or("missing right input")?);
    if l.pset != r.pset {
        return Err("unsupported: children proved under different parameter sets (one config verifies both)".into());
    }
    let (cur, inp_ps) = (PSETS[w.cur], PSETS[l.pset]);
    let (be, params) = (backend(), layer_params(&cur));
    let (li, ri) = (l.input(), r.input());
    let mut tmp: (Option<AggregationPrepCache<Cfg>>, Option<SlotMeta>) = (None, None);
    let entry = match slot {
        None => None,
        Some("") => Some(&mut tmp),
        Some(k) => Some(w.agg_slots.entry(k.into()).or_insert((None, None))),
    };
    let before: Option<Rc<CircuitProverData<Cfg>>> = entry.as_ref().and_then(|e| e.0.as_ref().map(|c| Rc::clone(&c.circuit_prover_data)));
    let had_slot = entry.is_some();
    let (res, entry) = match entry {
        Some(e) => (agg_call(&li, &ri, &cur, &inp_ps, &be, &params, Some(&mut e.0), w.cur != l.pset), Some(e)),
        None => (agg_call(&li, &ri, &cur, &inp_ps, &be, &params, None, w.cur != l.pset), None),
    };
    let out = res.map_err(|e| format!("prove: {}", short_err(&e)))?;
    let mut fingerprint = None;
    let mut cache = "none";
    if let Some(e) = entry {
        let c = e.0.as_ref().expect("slot filled after successful call");
        fingerprint = Some(fp_arr(&c.circuit_fingerprint));
        cache = match &before {
            None => "filled",
            Some(b) if Rc::ptr_eq(b, &out.1) => "hit",
            Some(_) => "recomputed",
        };
        if cache != "hit" {
            e.1 = Some(SlotMeta { filled_by: label.into(), pset: cur.name.into(), fingerprint, prep_commit: commit_of(&c.circuit_prover_data) });
        }
    }
    let _ = had_slot;
    Ok(Proved { out, fingerprint, cache })
}
#[allow(clippy::too_many_arguments)]
fn agg_call(
    li: &RecursionInput<'_, Cfg, BAir>,
    ri: &RecursionInput<'_, Cfg, BAir>,
    cur: &PSet,
    inp: &PSet,
    be: &Backend,
    params: &ProveNextLayerParams,
    slot: Option<&mut Option<AggregationPrepCache<Cfg>>>,
    cross: bool,
) -> Result<RecursionOutput<Cfg>, VerificationError> {
    if cross {
        // sanctioned way to change the output configuration: verify under `inp`, commit under `cur`
        build_and_prove_aggregation_layer_cross::<Cfg, Cfg, BAir, BAir, _, D>(li, ri, &mk_cfg(inp, inp), &mk_cfg(cur, cur), be, params, slot)
    } else {
        build_and_prove_aggregation_layer::<Cfg, BAir, BAir, _, D>(li, ri, &mk_cfg(cur, inp), be, params, slot)
    }
}
fn short_err(e: &VerificationError) -> String {
    format!("{e:?}").chars().take(240).collect()
}

/// verdict of one run of a step: "ok" (proved + natively accepted), "rejected" (proved, native verifier rejects),
/// "err" (API returned Err), "panic"
fn verdict(r: &Result<Result<Proved, String>, String>, p: &PSet) -> (String, String) {
    match r {
        Err(p) => ("panic".into(), p.clone()),
        Ok(Err(e)) => ("err".into(), e.clone()),
        Ok(Ok(pr)) => match verify_native(&pr.out, p) {
            Ok(()) => ("ok".into(), String::new()),
            Err(e) => ("rejected".into(), e),
        },
    }
}

pub fn run_case(idx: usize, case: &Case, _seed: u64) -> (Value, Vec<Finding>) {
    let mut w = World::default();
    let mut recs = Vec::new();
    let mut findings = Vec::new();
    let mut params_changed = false;
    for (si, st) in case.steps.iter().enumerate() {
        let t0 = Instant::now();
        match st {
            Step::Params { set } => {
                match pset_index(set) {
                    Some(i) => {
                        params_changed |= i != w.cur;
                        w.cur = i;
                        recs.push(json!({"step": si, "op": "params", "set": set, "status": "ok"}));
                    }
                    None => recs.push(json!({"step": si, "op": "params", "set": set, "status": "err", "msg": "unknown parameter set"})),
                }
                continue;
            }
            Step::Base { name, kind, air, k, n } => {
                let p = PSETS[w.cur];
                let r = guarded(|| prove_base(kind, air, *k, *n, &p));
                let status = match r {
                    Ok(Ok(pf)) => {
                        w.items.insert(name.clone(), Item { pf, pset: w.cur, depth: 0, desc: format!("base:{kind}:{air}/k{k}/n{n}") });
                        "ok".to_string()
                    }
                    Ok(Err(e)) => format!("err: {e}"),
                    Err(p) => format!("panic: {p}"),
                };
                recs.push(json!({"step": si, "op": "base", "name": name, "status": status, "ms": t0.elapsed().as_millis() as u64}));
                continue;
            }
            _ => {}
        }
        // proving step
        let (name, cache, ins): (&String, &String, Vec<&String>) = match st {
            Step::Next { from, name, cache, .. } => (name, cache, vec![from]),
            Step::Agg { left, right, name, cache, .. } => (name, cache, vec![left, right]),
            _ => unreachable!(),
        };
        let is_next = ins.len() == 1;
        if let Some(m) = ins.iter().find(|n| !w.items.contains_key(**n)) {
            recs.push(json!({"step": si, "op": if is_next {"next"} else {"agg"}, "name": name, "status": "skipped", "msg": format!("input {m} unavailable")}));
            continue;
        }
        let kinds: Vec<&str> = ins.iter().map(|n| w.items[*n].kind()).collect();
        let skind = format!("{}-{}", if is_next { "next" } else { "agg" }, kinds.join("-"));
        let depth = 1 + ins.iter().map(|n| w.items[*n].depth).max().unwrap();
        let in_pset = w.items[ins[0]].pset;
        let label = format!("{skind}({})@{}", ins.iter().map(|n| format!("{}={}", n, w.items[*n].desc)).collect::<Vec<_>>().join(","), PSETS[w.cur].name);
        let cur = PSETS[w.cur];
        let slot = if cache == "none" { None } else { Some(cache.as_str()) };
        let meta_before: Option<SlotMeta> = slot.and_then(|k| if is_next { w.next_slots.get(k).map(|x| x.1.clone()) } else { w.agg_slots.get(k).and_then(|x| x.1.clone()) });

        let run = |w: &mut World, slot: Option<&str>| {
            let t = Instant::now();
            // marker for the hook events of the repository code (cfg(p3r_verif)): same thread, so the events that follow belong to this call
            p3_circuit::verif_trace::emit(&format!("\"ev\":\"step\",\"case\":{idx},\"step\":{si},\"slot\":{}", serde_json::to_string(&slot).unwrap_or_default()));
            let r = guarded(|| if is_next { do_next(w, ins[0], slot, &label) } else { do_agg(w, ins[0], ins[1], slot, &label) });
            (r, t.elapsed().as_millis() as u64)
        };
        let (main, main_ms) = run(&mut w, slot);
        let (mv, mmsg) = verdict(&main, &cur);
        // uncached re-run (when a slot was used); for `agg` a throw-away empty slot is passed to learn the fingerprint
        let (fresh, fresh_ms) = if slot.is_some() { run(&mut w, if is_next { None } else { Some("") }) } else { (Err(String::new()), 0) };
        let (fv, fmsg) = if slot.is_some() { verdict(&fresh, &cur) } else { (mv.clone(), mmsg.clone()) };

        let main_p = main.as_ref().ok().and_then(|r| r.as_ref().ok());
        let fresh_p = if slot.is_some() { fresh.as_ref().ok().and_then(|r| r.as_ref().ok()) } else { main_p };
        let cache_obs = main_p.map(|p| p.cache).unwrap_or(if slot.is_some() { "unknown" } else { "none" });
        let fresh_commit = fresh_p.map(|p| commit_of_proof(&p.out));
        let main_commit = main_p.map(|p| commit_of_proof(&p.out));
        let cur_fp = fresh_p.and_then(|p| p.fingerprint).or(main_p.and_then(|p| p.fingerprint));
        // ground truth "the cache was prepared for another circuit": preprocessed commitment of the cache != the one of
        // an uncached run of this step (commitment = f(circuit content, packing, blowup))
        let other_circuit = match (&meta_before, &fresh_commit) {
            (Some(m), Some(c)) => Some(&m.prep_commit != c),
            _ => None,
        };
        let fp_equal = match (&meta_before, cur_fp) {
            (Some(m), Some(f)) => m.fingerprint.map(|x| x == f),
            _ => None,
        };
        let slot_pset_changed = meta_before.as_ref().map(|m| m.pset != cur.name).unwrap_or(false);
        // a cache hit proves with the prover (config + packing) stored in the cache: does the result verify under THOSE parameters?
        let under_cache_params: Option<bool> = match (&meta_before, main_p) {
            (Some(m), Some(p)) if slot_pset_changed && mv == "rejected" => pset_index(&m.pset).map(|i| verify_native(&p.out, &PSETS[i]).is_ok()),
            _ => None,
        };

        let mut shapes = vec!["kb_d4".to_string(), skind.clone(), format!("depth{depth}")];
        if ins.iter().any(|n| w.items[*n].desc.contains(":prepcur/")) {
            shapes.push("uni-child-opens-preprocessed-at-current-row-only".into());
        }
        // after a parameter change the commitments differ anyway: only call the circuit different when its counters differ
        if other_circuit == Some(true) && (!slot_pset_changed || fp_equal == Some(false)) {
            shapes.push("cache-reused-for-different-circuit".into());
            shapes.push(if fp_equal == Some(true) { "fingerprint-equal".into() } else { "fingerprint-differs".into() });
        }
        if slot_pset_changed {
            shapes.push("params-changed".into());
        } else if in_pset != w.cur {
            shapes.push("child-params-differ".into());
        }
        let sig = |k: &str| format!("{k}@{}", shapes.join("+"));
        let detail = |extra: Value| {
            json!({"case": idx, "step": si, "sequence": case.steps, "label": label, "cache_slot": cache, "cache_observed": cache_obs,
                "cache_filled_for": meta_before, "current_fingerprint": cur_fp, "cached": {"verdict": mv, "msg": mmsg, "prep_commit": main_commit},
                "uncached": {"verdict": fv, "msg": fmsg, "prep_commit": fresh_commit}, "cached_proof_verifies_under_cache_params": under_cache_params, "extra": extra})
        };
        if slot.is_some() {
            let stale = other_circuit == Some(true) || slot_pset_changed;
            if mv != "ok" && fv == "ok" {
                let k = if stale { "stale-cache-used" } else { "cached-differs-from-uncached" };
                findings.push(Finding { kind: k.into(), signature: sig(k), detail: detail(json!({"cached_outcome": mv})) });
            } else if mv == "ok" && fv != "ok" {
                findings.push(Finding { kind: "cached-differs-from-uncached".into(), signature: sig("cached-differs-from-uncached"), detail: detail(json!({"note": "cached run succeeds where the uncached one fails"})) });
            } else if mv == "ok" && fv == "ok" && main_commit != fresh_commit {
                // accepted, but the statement proven is the preprocessed data of ANOTHER circuit / packing
                findings.push(Finding { kind: "stale-cache-used".into(), signature: sig("stale-cache-used") + "+accepted-for-other-preprocessing", detail: detail(json!({"note": "cached proof verifies natively but carries the preprocessed commitment of the circuit the cache was filled for"})) });
            }
        }
        // the uncached run on inputs that were proven + natively verified must work
        if fv == "panic" {
            findings.push(Finding { kind: "layer-panics".into(), signature: sig("layer-panics"), detail: detail(json!({})) });
        } else if fv == "err" && (fmsg.contains("PublicInputLengthMismatch") || fmsg.contains("PrivateInputLengthMismatch")) {
            // the vectors packed by the unified API (FriVerifierResult::pack_public_inputs / pack_private_inputs) do not have the
            // lengths the circuit allocated: a C14 finding (kind prefixed so the aggregator files it under C14)
            findings.push(Finding { kind: "C14:packed-length-mismatch".into(), signature: format!("packed-length-mismatch@unified-api+{}", shapes.join("+")), detail: detail(json!({"inputs": ins})) });
        } else if fv == "err" && !fmsg.starts_with("unsupported") {
            findings.push(Finding { kind: "output-not-a-valid-input".into(), signature: sig("output-not-a-valid-input"), detail: detail(json!({"inputs": ins})) });
        } else if fv == "rejected" {
            findings.push(Finding { kind: "layer-output-rejected".into(), signature: sig("layer-output-rejected"), detail: detail(json!({})) });
        }
        // binding of the model's predictions (Recursion.tla, Policy = "code"): definite ones only
        let model = match st {
            Step::Next { m, .. } | Step::Agg { m, .. } => m.clone(),
            _ => None,
        };
        let model_check = model.as_ref().filter(|_| slot.is_some()).map(|m| {
            let use_ = m["use"].as_bool().unwrap_or(false);
            let same = m["same"].as_bool().unwrap_or(false);
            let hit = cache_obs == "hit";
            // model says "used": the code must use it; model says "not used" on the next path (no fingerprint): the code must fill
            let use_ok = if use_ { hit || cache_obs == "unknown" } else { !is_next || !hit };
            // model says the slot was prepared for exactly this key: the commitments must agree
            let same_ok = !(use_ && same) || other_circuit != Some(true) || slot_pset_changed;
            json!({"use_ok": use_ok, "same_ok": same_ok})
        });
        recs.push(json!({"step": si, "op": skind, "name": name, "depth": depth, "cache_slot": cache, "cache_observed": cache_obs, "model": model, "model_check": model_check,
            "cache_for_other_circuit": other_circuit, "fingerprint_equal": fp_equal, "fingerprint": cur_fp, "slot_fingerprint": main_p.and_then(|p| p.fingerprint), "slot_params_changed": slot_pset_changed,
            "status": mv, "msg": mmsg, "ms": main_ms, "uncached_status": if slot.is_some() { json!(fv) } else { Value::Null }, "uncached_msg": fmsg, "uncached_ms": fresh_ms,
            "prep_commit": main_commit, "uncached_prep_commit": fresh_commit, "params": cur.name}));
        // store: the cached output when good, else the uncached one so the sequence can go on
        let take = |r: Result<Result<Proved, String>, String>| r.ok().and_then(|x| x.ok()).map(|p| p.out);
        let stored = if mv == "ok" { take(main) } else if slot.is_some() && fv == "ok" { take(fresh) } else { None };
        if let Some(out) = stored {
            w.items.insert(name.clone(), Item { pf: Pf::Batch(out), pset: w.cur, depth, desc: label.clone() });
        }
    }
    let _ = params_changed;
    (json!({"case": idx, "total_ms": recs.iter().map(|r| r["ms"].as_u64().unwrap_or(0) + r["uncached_ms"].as_u64().unwrap_or(0)).sum::<u64>(), "steps": recs}), findings)
}

fn arg(args: &[String], name: &str) -> Option<String> {
    args.iter().position(|a| a == name).and_then(|i| args.get(i + 1).cloned())
}

/// p3r layers --in cases.ndjson --seed N --out result.json [--threads N]
pub fn cmd(args: &[String]) -> i32 {
    let input = arg(args, "--in").expect("--in");
    let out = arg(args, "--out").expect("--out");
    let seed: u64 = arg(args, "--seed").and_then(|s| s.parse().ok()).unwrap_or(1);
    // hook events of the repository code go to this file (the sink reads P3R_TRACE once, before the first event)
    if let Some(ev) = arg(args, "--events") {
        let _ = std::fs::remove_file(&ev);
        // SAFETY: set before any worker thread is started
        unsafe {
            std::env::set_var("P3R_TRACE", &ev);
            std::env::set_var("P3R_TRACE_EVENTS", "step,agg_cache");
        }
    }
    let threads: usize = arg(args, "--threads").and_then(|s| s.parse().ok()).unwrap_or(8);
    let f = std::fs::File::open(&input).expect("open input");
    let lines: Vec<String> = BufReader::new(f).lines().map(|l| l.unwrap()).filter(|l| !l.trim().is_empty()).collect();
    let next = Mutex::new(0usize);
    let results = Mutex::new(Vec::<(usize, Value, Vec<Finding>)>::new());
    let errors = Mutex::new(Vec::<String>::new());
    let t0 = Instant::now();
    install_hook();
    std::thread::scope(|sc| {
        for _ in 0..threads.max(1).min(lines.len().max(1)) {
            sc.spawn(|| {
                loop {
                    let i = {
                        let mut n = next.lock().unwrap();
                        let i = *n;
                        *n += 1;
                        i
                    };
                    if i >= lines.len() {
                        break;
                    }
                    match serde_json::from_str::<Case>(&lines[i]) {
                        Err(e) => errors.lock().unwrap().push(format!("line {i}: {e}")),
                        Ok(c) => match catch_unwind(AssertUnwindSafe(|| run_case(i, &c, seed))) {
                            Ok((v, f)) => results.lock().unwrap().push((i, v, f)),
                            Err(p) => errors.lock().unwrap().push(format!("case {i}: driver panic: {}", pmsg(p))),
                        },
                    }
                }
            });
        }
    });
    let mut results = results.into_inner().unwrap();
    results.sort_by_key(|r| r.0);
    let mut groups: BTreeMap<(String, String), (u64, Value)> = BTreeMap::new();
    let mut stats: BTreeMap<String, u64> = BTreeMap::new();
    let mut ms_by_kind: BTreeMap<String, (u64, u64, u64)> = BTreeMap::new();
    for (_, v, fs) in &results {
        *stats.entry("cases".into()).or_default() += 1;
        for s in v["steps"].as_array().unwrap() {
            let op = s["op"].as_str().unwrap_or("");
            if op == "base" || op == "params" {
                continue;
            }
            *stats.entry("proving_steps".into()).or_default() += 1;
            *stats.entry(format!("status:{}", s["status"].as_str().unwrap_or("?"))).or_default() += 1;
            *stats.entry(format!("cache:{}", s["cache_observed"].as_str().unwrap_or("n/a"))).or_default() += 1;
            if s["cache_for_other_circuit"] == json!(true) {
                *stats.entry("cache_offered_to_other_circuit".into()).or_default() += 1;
                if s["fingerprint_equal"] == json!(true) {
                    *stats.entry("cache_offered_to_other_circuit_with_equal_fingerprint".into()).or_default() += 1;
                }
            }
            if s["model_check"].is_object() {
                *stats.entry("model:predictions_checked".into()).or_default() += 1;
                if s["model_check"]["use_ok"] != json!(true) {
                    *stats.entry("model:use_prediction_wrong".into()).or_default() += 1;
                }
                if s["model_check"]["same_ok"] != json!(true) {
                    *stats.entry("model:same_prediction_wrong".into()).or_default() += 1;
                }
            }
            if let Some(ms) = s["ms"].as_u64() {
                let e = ms_by_kind.entry(format!("{op}/depth{}", s["depth"])).or_insert((0, 0, 0));
                e.0 += 1;
                e.1 += ms;
                e.2 = e.2.max(ms);
            }
        }
        for f in fs {
            let e = groups.entry((f.kind.clone(), f.signature.clone())).or_insert((0, f.detail.clone()));
            e.0 += 1;
        }
    }
    let findings: Vec<Value> = groups
        .into_iter()
        .map(|((k, s), (n, ex))| match k.split_once(':') {
            Some((prop, kind)) if prop.starts_with('C') && prop.len() == 3 => json!({"property": prop, "kind": kind, "signature": s, "count": n, "example": ex}),
            _ => json!({"property": "C17", "kind": k, "signature": s, "count": n, "example": ex}),
        })
        .collect();
    let timing: BTreeMap<String, Value> = ms_by_kind.into_iter().map(|(k, (n, t, m))| (k, json!({"n": n, "mean_ms": t / n.max(1), "max_ms": m}))).collect();
    let res = json!({"stats": {"counts": stats, "timing": timing, "wall_ms": t0.elapsed().as_millis() as u64, "seed": seed,
        "panic_sites": PANIC_SITES.lock().map(|m| m.clone()).unwrap_or_default()},
        "findings": findings, "samples": results.iter().map(|r| r.1.clone()).collect::<Vec<_>>(), "errors": errors.into_inner().unwrap()});
    std::fs::write(&out, serde_json::to_string_pretty(&res).unwrap()).unwrap();
    eprintln!("layers: {} cases, {} finding groups, {} ms", results.len(), res["findings"].as_array().unwrap().len(), t0.elapsed().as_millis());
    0
}

// ---------------------------------------------------------------------------------------------------------
// Self-test sequences (NOT the TLA+ cases)
// ---------------------------------------------------------------------------------------------------------
fn b(name: &str, air: &str, k: u32, n: usize) -> Step {
    Step::Base { name: name.into(), kind: "uni".into(), air: air.into(), k, n }
}
fn bb(name: &str, k: u32) -> Step {
    Step::Base { name: name.into(), kind: "batch".into(), air: String::new(), k, n: 0 }
}
fn nx(from: &str, name: &str, cache: &str) -> Step {
    Step::Next { from: from.into(), name: name.into(), cache: cache.into(), m: None }
}
fn ag(l: &str, r: &str, name: &str, cache: &str) -> Step {
    Step::Agg { left: l.into(), right: r.into(), name: name.into(), cache: cache.into(), m: None }
}
fn ps(set: &str) -> Step {
    Step::Params { set: set.into() }
}
pub fn gen_cases() -> Vec<Case> {
    let mut v: Vec<Vec<Step>> = Vec::new();
    // honest uncached chains, depth 1..4, uni and batch roots
    v.push(vec![b("A", "fib", 0, 8), nx("A", "A1", "none")]);
    v.push(vec![b("A", "mul", 0, 8), nx("A", "A1", "none"), nx("A1", "A2", "none")]);
    v.push(vec![b("A", "fib", 0, 16), nx("A", "A1", "none"), nx("A1", "A2", "none"), nx("A2", "A3", "none")]);
    v.push(vec![b("A", "lin", 5, 8), nx("A", "A1", "none"), nx("A1", "A2", "none"), nx("A2", "A3", "none"), nx("A3", "A4", "none")]);
    v.push(vec![bb("A", 3), nx("A", "A1", "none"), nx("A1", "A2", "none")]);
    // aggregation of every child-kind pair, uncached
    v.push(vec![b("A", "fib", 0, 8), b("B", "mul", 0, 8), ag("A", "B", "AB", "none"), nx("AB", "AB1", "none")]);
    v.push(vec![b("A", "fib", 0, 8), bb("B", 2), ag("A", "B", "AB", "none"), nx("AB", "AB1", "none")]);
    v.push(vec![b("A", "fib", 0, 8), bb("B", 2), ag("B", "A", "BA", "none"), nx("BA", "BA1", "none")]);
    v.push(vec![bb("A", 1), bb("B", 2), ag("A", "B", "AB", "none"), bb("C", 3), bb("E", 4), ag("C", "E", "CE", "none"), ag("AB", "CE", "R", "none")]);
    v.push(vec![b("A", "fib", 0, 8), nx("A", "A1", "none"), b("B", "fib", 0, 16), ag("A1", "B", "X", "none"), ag("X", "A1", "Y", "none")]);
    // fresh slot per step
    v.push(vec![b("A", "fib", 0, 8), nx("A", "A1", "s0"), nx("A1", "A2", "s1"), nx("A2", "A3", "s2")]);
    v.push(vec![bb("A", 1), bb("B", 2), ag("A", "B", "AB", "s0"), nx("AB", "AB1", "s1")]);
    // one slot reused for the SAME circuit (next): two proofs of the same AIR / size
    v.push(vec![b("A", "fib", 0, 8), b("B", "fib", 0, 8), nx("A", "A1", "s0"), nx("B", "B1", "s0")]);
    v.push(vec![b("A", "lin", 7, 8), b("B", "lin", 7, 8), nx("A", "A1", "s0"), nx("B", "B1", "s0"), nx("A1", "A2", "s1"), nx("B1", "B2", "s1")]);
    // ... (agg): pairs with identical shapes, as recursive_aggregation.rs does
    v.push(vec![bb("A", 1), bb("B", 2), bb("C", 3), bb("E", 4), ag("A", "B", "AB", "s0"), ag("C", "E", "CE", "s0"), ag("AB", "CE", "R", "s0")]);
    v.push(vec![b("A", "fib", 0, 8), b("B", "fib", 0, 8), ag("A", "B", "AB", "s0"), ag("B", "A", "BA", "s0")]);
    // one slot reused for a DIFFERENT circuit (next): sizes differ
    v.push(vec![b("A", "fib", 0, 8), b("B", "mul", 0, 8), nx("A", "A1", "s0"), nx("B", "B1", "s0")]);
    v.push(vec![b("A", "fib", 0, 8), b("B", "fib", 0, 32), nx("A", "A1", "s0"), nx("B", "B1", "s0")]);
    v.push(vec![b("A", "fib", 0, 8), nx("A", "A1", "s0"), nx("A1", "A2", "s0")]);
    v.push(vec![b("A", "fib", 0, 8), nx("A", "A1", "none"), nx("A1", "A2", "s0"), nx("A2", "A3", "s0")]);
    v.push(vec![b("A", "fib", 0, 8), nx("A", "A1", "none"), nx("A1", "A2", "none"), nx("A2", "A3", "s0"), nx("A3", "A4", "s0")]);
    // ... same four counters, different content (constant of the AIR differs): the fingerprint-collision pair
    v.push(vec![b("A", "lin", 123457, 8), b("B", "lin", 7654321, 8), nx("A", "A1", "s0"), nx("B", "B1", "s0")]);
    v.push(vec![b("A", "lin", 123457, 8), b("B", "lin", 7654321, 8), ag("A", "A", "AA", "s0"), ag("B", "B", "BB", "s0")]);
    v.push(vec![b("A", "lin", 123457, 8), b("B", "lin", 7654321, 8), b("C", "fib", 0, 8), ag("A", "C", "AC", "s0"), ag("B", "C", "BC", "s0"), nx("BC", "BC1", "none")]);
    v.push(vec![b("A", "lin", 123457, 8), b("B", "lin", 7654321, 8), bb("C", 3), ag("C", "A", "CA", "s0"), ag("C", "B", "CB", "s0")]);
    // (agg) different circuits with different counters: must be recomputed
    v.push(vec![b("A", "fib", 0, 8), b("B", "mul", 0, 8), ag("A", "A", "AA", "s0"), ag("B", "B", "BB", "s0"), ag("AA", "BB", "R", "s0")]);
    v.push(vec![bb("A", 1), bb("B", 2), b("C", "fib", 0, 8), ag("A", "B", "AB", "s0"), ag("A", "C", "AC", "s0"), ag("C", "B", "CB", "s0"), ag("C", "C", "CC", "s0")]);
    v.push(vec![bb("A", 1), bb("B", 2), ag("A", "B", "AB", "s0"), ag("AB", "AB", "R", "s0"), ag("R", "R", "RR", "s0")]);
    // parameter change: honest, uncached
    v.push(vec![b("A", "fib", 0, 8), nx("A", "A1", "none"), ps("alt"), nx("A1", "A2", "none"), nx("A2", "A3", "none")]);
    v.push(vec![b("A", "fib", 0, 8), nx("A", "A1", "none"), ps("altq"), nx("A1", "A2", "none"), ps("default"), nx("A2", "A3", "none")]);
    v.push(vec![bb("A", 1), bb("B", 2), ps("alt"), ag("A", "B", "AB", "none"), nx("AB", "AB1", "none")]);
    v.push(vec![ps("alt"), b("A", "fib", 0, 8), nx("A", "A1", "none"), nx("A1", "A2", "none"), bb("B", 2), ag("A2", "B", "X", "none")]);
    // reuse after params change
    v.push(vec![b("A", "fib", 0, 8), b("B", "fib", 0, 8), nx("A", "A1", "s0"), ps("alt"), nx("B", "B1", "s0")]);
    v.push(vec![b("A", "fib", 0, 8), b("B", "fib", 0, 8), nx("A", "A1", "s0"), ps("altq"), nx("B", "B1", "s0")]);
    v.push(vec![bb("A", 1), bb("B", 2), bb("C", 3), bb("E", 4), ag("A", "B", "AB", "s0"), ps("alt"), ag("C", "E", "CE", "s0")]);
    v.push(vec![bb("A", 1), bb("B", 2), bb("C", 3), bb("E", 4), ag("A", "B", "AB", "s0"), ps("altq"), ag("C", "E", "CE", "s0"), nx("CE", "CE1", "none")]);
    v.push(vec![b("A", "fib", 0, 8), b("B", "fib", 0, 8), ag("A", "B", "AB", "s0"), ps("alt"), ag("B", "A", "BA", "s0"), ps("default"), ag("A", "B", "AB2", "s0")]);
    // the sequence of the task statement
    v.push(vec![b("A", "fib", 0, 8), b("B", "fib", 0, 16), nx("A", "A1", "none"), nx("A1", "A2", "s0"), nx("B", "B1", "s0"), ag("A2", "B1", "AB", "s1"), nx("AB", "AB1", "none"), ps("alt"), nx("AB1", "AB2", "s0")]);
    // mixed: agg slot and next slot, layer-2 circuits reused across roots
    v.push(vec![b("A", "fib", 0, 8), b("B", "mul", 0, 8), nx("A", "A1", "none"), nx("B", "B1", "none"), nx("A1", "A2", "s0"), nx("B1", "B2", "s0")]);
    v.push(vec![b("A", "fib", 0, 8), b("B", "mul", 0, 8), nx("A", "A1", "none"), nx("B", "B1", "none"), ag("A1", "A1", "X", "s0"), ag("B1", "B1", "Y", "s0"), ag("A1", "B1", "Z", "s0")]);
    v.into_iter().map(|steps| Case { spec: "Recursion".into(), config: "kb_d4".into(), steps }).collect()
}
/// p3r layers-gen --out file
pub fn cmd_gen(args: &[String]) -> i32 {
    let out = arg(args, "--out").expect("--out");
    let lines: Vec<String> = gen_cases().iter().map(|c| serde_json::to_string(c).unwrap()).collect();
    std::fs::write(&out, lines.join("\n") + "\n").unwrap();
    eprintln!("layers-gen: {} sequences", lines.len());
    0
}
