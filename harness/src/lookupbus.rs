//! C01 for statements that come from the REAL prover on a trace whose lookup bus does not balance: every per-AIR
//! constraint holds and the transcript is the honest one, the only thing wrong is the sum of the lookup terminals.  The
//! native `verify_batch` refuses (`TerminalSumNonZero`); the verification circuit must be unsatisfied.  The number of
//! instances that take part in the lookup argument is a parameter (1, 2, 3): the cross-table sum is a loop over them.
//! (The structure of the batch is the one of a demonstration written by a seeding sub-agent; the AIRs, the shapes and the
//! verdict handling are the harness's.)  Needs a build without debug assertions in p3-batch-stark (the prover's debug-only
//! bus check panics on such a trace): the release profile of the harness.
use std::panic::{AssertUnwindSafe, catch_unwind};

use p3_air::{Air, AirBuilder, BaseAir, WindowAccess};
use p3_baby_bear::default_babybear_poseidon2_16;
use p3_batch_stark::{ProverData, StarkInstance, prove_batch, verify_batch};
use p3_circuit::CircuitBuilder;
use p3_circuit::ops::{generate_poseidon2_trace, generate_recompose_trace};
use p3_field::{Field, PrimeCharacteristicRing};
use p3_lookup::InteractionBuilder;
use p3_lookup::logup::LogUpGadget;
use p3_matrix::dense::RowMajorMatrix;
use p3_poseidon2_circuit_air::BabyBearD4Width16;
use p3_recursion::pcs::fri::{FriVerifierParams, MerkleCapTargets};
use p3_recursion::pcs::set_fri_mmcs_private_data;
use p3_recursion::{BatchStarkVerifierInputsBuilder, Poseidon2Config, verify_batch_circuit};
use p3_test_utils::baby_bear_params::*;
use serde_json::json;

#[path = "/repo/recursion/tests/common/mod.rs"]
#[allow(dead_code, unused_imports)]
mod common;
use common::InnerFriGeneric;

type InnerFri = InnerFriGeneric<MyConfig, MyHash, MyCompress, DIGEST_ELEMS>;
const ROWS: usize = 1 << 3;

#[derive(Clone, Copy)]
enum BusAir {
    /// a + b = c, no lookups
    Add,
    /// columns (s, r): every row sends s on the bus and receives r from it
    SendRecv,
    /// column (s): every row sends s
    Send,
    /// column (r): every row receives r
    Recv,
}
impl<Val: Field> BaseAir<Val> for BusAir {
    fn width(&self) -> usize {
        match self {
            Self::Add => 3,
            Self::SendRecv => 2,
            Self::Send | Self::Recv => 1,
        }
    }
}
impl<AB: AirBuilder + InteractionBuilder> Air<AB> for BusAir
where
    AB::F: Field,
{
    fn eval(&self, builder: &mut AB) {
        let main = builder.main();
        let row = main.current_slice();
        match self {
            Self::Add => builder.assert_zero(row[0] + row[1] - row[2]),
            Self::SendRecv => {
                let (s, r): (AB::Expr, AB::Expr) = (row[0].into(), row[1].into());
                builder.push_interaction("bus", [s], 1);
                builder.push_interaction("bus", [r], -1);
            }
            Self::Send => {
                let s: AB::Expr = row[0].into();
                builder.push_interaction("bus", [s], 1);
            }
            Self::Recv => {
                let r: AB::Expr = row[0].into();
                builder.push_interaction("bus", [r], -1);
            }
        }
    }
}

fn column(vals: impl Fn(usize) -> Vec<F>, w: usize) -> RowMajorMatrix<F> {
    RowMajorMatrix::new((0..ROWS).flat_map(vals).collect(), w)
}

/// (airs, traces) with `lookup_airs` instances on the bus; `balanced = false`: one received value is replaced.
fn batch(lookup_airs: usize, balanced: bool) -> (Vec<BusAir>, Vec<RowMajorMatrix<F>>) {
    let add = column(|r| vec![F::from_usize(r), F::from_usize(r + 1), F::from_usize(2 * r + 1)], 3);
    let off = |r: usize| if !balanced && r == 0 { F::from_usize(1000) } else { F::from_usize(ROWS - 1 - r) };
    match lookup_airs {
        1 => (vec![BusAir::Add, BusAir::SendRecv], vec![add, column(|r| vec![F::from_usize(r), off(r)], 2)]),
        2 => (vec![BusAir::Send, BusAir::Add, BusAir::Recv], vec![column(|r| vec![F::from_usize(r)], 1), add, column(|r| vec![off(r)], 1)]),
        _ => (
            vec![BusAir::Send, BusAir::SendRecv, BusAir::Recv],
            vec![column(|r| vec![F::from_usize(r)], 1), column(|r| vec![F::from_usize(100 + r), F::from_usize(100 + r)], 2), column(|r| vec![off(r)], 1)],
        ),
    }
}

/// (native accepts, circuit satisfied, message)
pub fn run(lookup_airs: usize, balanced: bool) -> Result<(bool, bool, String), String> {
    let config = make_test_config();
    let (airs, traces) = batch(lookup_airs, balanced);
    let pvs: Vec<Vec<F>> = vec![vec![]; airs.len()];
    let instances: Vec<StarkInstance<'_, MyConfig, BusAir>> = airs.iter().zip(traces.iter()).map(|(air, trace)| StarkInstance { air, trace, public_values: vec![] }).collect();
    let prover_data = ProverData::from_instances(&config, &instances);
    let proof = catch_unwind(AssertUnwindSafe(|| prove_batch(&config, &instances, &prover_data))).map_err(|_| "the prover panicked (debug assertions on?)".to_string())?;
    let common = prover_data.common;
    if proof.lookup_terminals.iter().flatten().count() != lookup_airs {
        return Err(format!("{} instances carry a lookup terminal, {lookup_airs} intended", proof.lookup_terminals.iter().flatten().count()));
    }
    let native = verify_batch(&config, &airs, &proof, &pvs, &common);
    let scalars = test_fri_scalars();
    let fri_verifier_params = FriVerifierParams::with_mmcs(scalars.log_blowup, scalars.log_final_poly_len, scalars.commit_pow_bits, scalars.query_pow_bits, Poseidon2Config::BABY_BEAR_D4_W16);
    let circuit_verdict = catch_unwind(AssertUnwindSafe(|| -> Result<(), String> {
        let mut cb = CircuitBuilder::new();
        cb.enable_poseidon2_perm::<BabyBearD4Width16, _>(generate_poseidon2_trace::<Challenge, BabyBearD4Width16>, default_babybear_poseidon2_16());
        cb.enable_recompose::<F>(generate_recompose_trace::<F, Challenge>);
        let counts = vec![0usize; airs.len()];
        let vi = BatchStarkVerifierInputsBuilder::<MyConfig, MerkleCapTargets<F, DIGEST_ELEMS>, InnerFri>::allocate(&mut cb, &proof, &common, &counts);
        let gadget = LogUpGadget::new();
        let ids = verify_batch_circuit::<_, _, _, _, _, _, _, WIDTH, RATE>(&config, &airs, &mut cb, &vi.proof_targets, &vi.air_public_targets, &fri_verifier_params, &vi.common_data, &gadget, Poseidon2Config::BABY_BEAR_D4_W16)
            .map_err(|e| format!("build: {e:?}"))?;
        let circuit = cb.build().map_err(|e| format!("build: {e:?}"))?;
        let mut runner = circuit.runner();
        let (pi, pr) = vi.pack_values(&pvs, &proof, &common);
        runner.set_public_inputs(&pi).map_err(|e| format!("{e:?}"))?;
        runner.set_private_inputs(&pr).map_err(|e| format!("{e:?}"))?;
        set_fri_mmcs_private_data::<F, Challenge, ChallengeMmcs, MyMmcs, MyHash, MyCompress, DIGEST_ELEMS>(&mut runner, &ids, &proof.opening_proof, Poseidon2Config::BABY_BEAR_D4_W16).map_err(|e| format!("{e}"))?;
        runner.run().map(|_| ()).map_err(|e| format!("run: {e:?}"))
    }))
    .unwrap_or_else(|_| Err("panic".into()));
    Ok((native.is_ok(), circuit_verdict.is_ok(), format!("native {:?}; circuit {:?}", native.as_ref().err().map(|e| format!("{e:?}")), circuit_verdict.as_ref().err().map(|e| e.chars().take(120).collect::<String>()))))
}

/// `p3r lookup-bus`: one JSON line per (number of lookup instances, balanced?).
pub fn cmd(_args: &[String]) -> i32 {
    for n in [1usize, 2, 3] {
        for balanced in [true, false] {
            match run(n, balanced) {
                Ok((native, circuit, msg)) => println!("{}", json!({"lookup_instances": n, "balanced": balanced, "native_accepts": native, "circuit_satisfied": circuit, "msg": msg})),
                Err(e) => println!("{}", json!({"lookup_instances": n, "balanced": balanced, "error": e})),
            }
        }
    }
    0
}
