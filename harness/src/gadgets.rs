//! Property C20 — verifier arithmetic gadgets equal their native counterparts.
//!
//! One NDJSON case = one gadget call.  For every case a small `CircuitBuilder<EF>` circuit is
//! built whose inputs are public inputs, the REAL gadget of `/repo/recursion` is called, the
//! circuit is compiled and executed, and every output is compared with the value the native
//! Plonky3 0.6.3 verifier computes for the same inputs.
//!
//! Gadget -> real function -> native counterpart (see `/tmp/ag_gadgets/REPORT.md` for the table):
//!   selectors           RecursivePcs::selectors_at_point_circuit (TwoAdicFriPcs / HidingFriPcs impls)
//!                       vs TwoAdicMultiplicativeCoset::selectors_at_point
//!   vanishing           verifier::quotient::vanishing_poly_at_point_circuit (PRIVATE, hook)
//!                       vs PolynomialSpace::vanishing_poly_at_point
//!   quotient_recompose  verifier::recompose_quotient_from_chunks_circuit
//!                       vs p3_uni_stark::recompose_quotient_from_chunks
//!   periodic            RecursivePcs::evaluate_periodic_columns_at_point_circuit
//!                       (-> verifier::periodic::evaluate_periodic_columns_circuit)
//!                       vs PolynomialSpace::evaluate_periodic_column_at (+ check_periodic_column_lengths)
//!   eval_poly           pcs::fri::verifier::evaluate_polynomial (PRIVATE, hook) vs `Iterator::horner`
//!   exp_const           pcs::fri::verifier::circuit_exp_by_constant (PRIVATE, hook) vs `exp_u64`
//!   final_query_point   pcs::fri::verifier::{precompute_two_adic_powers, compute_final_query_point}
//!                       (PRIVATE, hook) vs p3_fri::verifier::verify_fri's `x`
//!   subgroup_starts     pcs::fri::verifier::{precompute_subgroup_starts, compute_subgroup_points}
//!                       (PRIVATE, hook) vs TwoAdicFriFolding::fold_row's `subgroup_start` / `xs`
//!   eval_points         pcs::fri::verifier::precompute_evaluation_points (PRIVATE, hook)
//!                       vs p3_fri::verifier::open_input's `x`
//!   fold_chain          pcs::fri::verifier::{precompute_subgroup_starts, fold_one_phase} (PRIVATE, hook)
//!                       vs p3_fri::verifier::verify_query's loop with TwoAdicFriFolding::fold_row
//!
//! The private items are reached through `#[cfg(p3r_verif)]` forwarding wrappers
//! (`p3_recursion::pcs::fri::verif_fri_exports`, `p3_recursion::verifier::verif_quotient_exports`)
//! that `/tmp/ag_gadgets/hook.diff` ADDS to the repository.  Every call that needs the hook is
//! guarded by `#[cfg(p3r_verif)]` (always set by `.cargo/config.toml`); compiled without that cfg
//! the module still builds against an unpatched repository and reports those gadgets as `needs_hook`.
#![cfg_attr(not(p3r_verif), allow(unused_imports, dead_code))]
use std::collections::BTreeMap;
use std::io::{BufRead, BufReader};
use std::marker::PhantomData;
use std::panic::{AssertUnwindSafe, catch_unwind};
use std::sync::Mutex;

use p3_circuit::{CircuitBuilder, ExprId};
use p3_commit::{Pcs, PolynomialSpace};
use p3_field::coset::TwoAdicMultiplicativeCoset;
use p3_field::extension::BinomialExtensionField;
use p3_field::{BasedVectorSpace, ExtensionField, Field, HornerIter, PrimeField64, TwoAdicField};
use p3_fri::{FriFoldingStrategy, FriParameters, HidingFriPcs, TwoAdicFriFolding};
use p3_recursion::pcs::fri::{
    FriProofTargets, HidingFriProofTargets, InputProofTargets, MerkleCapTargets, RecExtensionValMmcs, RecValMmcs, Witness,
};
use p3_recursion::traits::{Recursive, RecursivePcs};
use p3_uni_stark::{StarkConfig, StarkGenericConfig};
use p3_util::reverse_bits_len;
use rand::rngs::{SmallRng, StdRng};
use rand::{RngExt, SeedableRng};
use serde_json::{Value, json};

type Coset<F> = TwoAdicMultiplicativeCoset<F>;

// ---------------------------------------------------------------------------------------------
// Outcome of one case
// ---------------------------------------------------------------------------------------------
#[derive(Clone, Debug, PartialEq, Eq)]
pub enum Status {
    /// every output equals the native value (or both sides reject the input)
    Agree,
    /// the circuit runs and some output differs, or one side rejects what the other computes
    Differs,
    /// the gadget (or building / running its circuit) panics where the native function is defined
    Panics,
    /// the gadget returns an error / the circuit does not build where the native function is defined
    BuildError,
    /// the native function panics / divides by zero on this input: nothing to compare
    NativeUndefined,
    /// the input violates a documented precondition of the gadget that every caller establishes
    OutOfContract,
    /// the case does not describe a well-formed input (e.g. domain larger than the two-adicity)
    NotApplicable,
    /// malformed case line
    BadCase,
    /// the gadget is private and the harness was compiled without the hook
    NeedsHook,
}

#[derive(Clone, Debug)]
pub struct Outcome {
    pub status: Status,
    pub shapes: Vec<String>,
    pub compared: usize,
    pub detail: Value,
    /// what the circuit did where the native side is undefined (informational)
    pub circuit_when_native_undefined: Option<String>,
}

impl Outcome {
    /// The input violates a precondition every caller establishes: keep what was observed, but do not count it as a finding.
    fn out_of_contract(self, why: &str) -> Self {
        let observed = match self.status {
            Status::Agree => "gadget agrees with native".to_string(),
            Status::Differs => "gadget differs from native".to_string(),
            Status::Panics => "gadget panics".to_string(),
            Status::BuildError => "gadget returns an error".to_string(),
            Status::NativeUndefined => format!("native undefined; {}", self.circuit_when_native_undefined.clone().unwrap_or_default()),
            ref o => format!("{o:?}"),
        };
        Self { status: Status::OutOfContract, shapes: self.shapes, compared: 0, detail: json!({"why": why, "observed": observed, "detail": self.detail}), circuit_when_native_undefined: None }
    }

    fn simple(status: Status, shapes: Vec<String>, detail: Value) -> Self {
        Self { status, shapes, compared: 0, detail, circuit_when_native_undefined: None }
    }
}

/// What the native side says.
enum Native<EF> {
    Values(Vec<(String, EF)>),
    /// explicit, non-panicking rejection (an `Err` of the native verifier)
    Rejects(String),
    /// panic (division by zero, failed assertion, ...)
    Undefined(String),
}

/// What building the gadget says.
enum Gadget<EF: Field> {
    Built(Built<EF>),
    Rejects(String),
    Panics(String),
}

struct Built<EF: Field> {
    builder: CircuitBuilder<EF>,
    pubs: Vec<EF>,
    outs: Vec<(String, ExprId)>,
}

enum Exec<EF> {
    Values(Vec<EF>),
    BuildError(String),
    BuildPanic(String),
    RunError(String),
    RunPanic(String),
}

fn panic_msg(p: Box<dyn std::any::Any + Send>) -> String {
    if let Some(s) = p.downcast_ref::<&str>() {
        (*s).to_string()
    } else if let Some(s) = p.downcast_ref::<String>() {
        s.clone()
    } else {
        "panic".to_string()
    }
}

fn short(s: String) -> String {
    s.chars().take(240).collect()
}

fn native_of<EF>(f: impl FnOnce() -> Result<Vec<(String, EF)>, String>) -> Native<EF> {
    match catch_unwind(AssertUnwindSafe(f)) {
        Ok(Ok(v)) => Native::Values(v),
        Ok(Err(e)) => Native::Rejects(e),
        Err(p) => Native::Undefined(short(panic_msg(p))),
    }
}

fn gadget_of<EF: Field>(f: impl FnOnce() -> Result<Built<EF>, String>) -> Gadget<EF> {
    match catch_unwind(AssertUnwindSafe(f)) {
        Ok(Ok(b)) => Gadget::Built(b),
        Ok(Err(e)) => Gadget::Rejects(e),
        Err(p) => Gadget::Panics(short(panic_msg(p))),
    }
}

fn execute<EF: Field>(b: Built<EF>) -> Exec<EF> {
    let Built { mut builder, pubs, outs } = b;
    for (i, (_, t)) in outs.iter().enumerate() {
        if let Err(e) = builder.tag(*t, format!("o{i}")) {
            return Exec::BuildError(format!("tag: {e:?}"));
        }
    }
    let compiled = match catch_unwind(AssertUnwindSafe(|| builder.build())) {
        Ok(Ok(c)) => c,
        Ok(Err(e)) => return Exec::BuildError(short(format!("{e:?}"))),
        Err(p) => return Exec::BuildPanic(short(panic_msg(p))),
    };
    let n = outs.len();
    let run = catch_unwind(AssertUnwindSafe(|| -> Result<Vec<EF>, String> {
        let mut r = compiled.runner();
        r.set_public_inputs(&pubs).map_err(|e| format!("set_public_inputs: {e:?}"))?;
        let traces = r.run().map_err(|e| format!("{e:?}"))?;
        (0..n).map(|i| traces.probe(&format!("o{i}")).copied().ok_or_else(|| format!("output {i} has no witness value"))).collect()
    }));
    match run {
        Ok(Ok(v)) => Exec::Values(v),
        Ok(Err(e)) => Exec::RunError(short(e)),
        Err(p) => Exec::RunPanic(short(panic_msg(p))),
    }
}

fn canon<F: PrimeField64, EF: BasedVectorSpace<F>>(x: &EF) -> Vec<u64> {
    x.as_basis_coefficients_slice().iter().map(|c| c.as_canonical_u64()).collect()
}

/// Compare the two sides.
fn judge<F: PrimeField64, EF: ExtensionField<F> + BasedVectorSpace<F>>(
    native: Native<EF>,
    gadget: Gadget<EF>,
    mut shapes: Vec<String>,
    inputs: Value,
) -> Outcome {
    match native {
        Native::Undefined(why) => {
            let circuit = match gadget {
                Gadget::Built(b) => match execute(b) {
                    Exec::Values(_) => "circuit-satisfied".to_string(),
                    Exec::RunError(e) => format!("circuit-run-error: {e}"),
                    Exec::BuildError(e) => format!("circuit-build-error: {e}"),
                    Exec::BuildPanic(e) | Exec::RunPanic(e) => format!("circuit-panic: {e}"),
                },
                Gadget::Rejects(e) => format!("gadget-rejects: {e}"),
                Gadget::Panics(e) => format!("gadget-panics: {e}"),
            };
            Outcome { status: Status::NativeUndefined, shapes, compared: 0, detail: json!({"inputs": inputs, "native": format!("panics: {why}")}), circuit_when_native_undefined: Some(circuit) }
        }
        Native::Rejects(why) => match gadget {
            Gadget::Rejects(g) => Outcome { status: Status::Agree, shapes, compared: 1, detail: json!({"both_reject": [why, g]}), circuit_when_native_undefined: None },
            Gadget::Panics(g) => {
                shapes.push("native-rejects".into());
                Outcome::simple(Status::Panics, shapes, json!({"inputs": inputs, "native": format!("rejects: {why}"), "gadget": format!("panics: {g}")}))
            }
            Gadget::Built(_) => {
                shapes.push("native-rejects-gadget-accepts".into());
                Outcome::simple(Status::Differs, shapes, json!({"inputs": inputs, "native": format!("rejects: {why}"), "gadget": "builds a circuit"}))
            }
        },
        Native::Values(want) => match gadget {
            Gadget::Rejects(g) => Outcome::simple(Status::BuildError, shapes, json!({"inputs": inputs, "gadget": format!("returns an error: {g}"), "native": "defined"})),
            Gadget::Panics(g) => Outcome::simple(Status::Panics, shapes, json!({"inputs": inputs, "gadget": format!("panics while building: {g}"), "native": "defined"})),
            Gadget::Built(b) => {
                let names: Vec<String> = b.outs.iter().map(|(n, _)| n.clone()).collect();
                if names.len() != want.len() || names.iter().zip(want.iter()).any(|(a, (b, _))| a != b) {
                    shapes.push("output-count".into());
                    return Outcome::simple(Status::Differs, shapes, json!({"inputs": inputs, "gadget_outputs": names, "native_outputs": want.iter().map(|(n, _)| n.clone()).collect::<Vec<_>>()}));
                }
                match execute(b) {
                    Exec::Values(got) => {
                        for (i, (name, w)) in want.iter().enumerate() {
                            if got[i] != *w {
                                shapes.push(format!("output-{name}"));
                                return Outcome { status: Status::Differs, shapes, compared: i + 1, detail: json!({"inputs": inputs, "output": name, "native": canon::<F, EF>(w), "circuit": canon::<F, EF>(&got[i])}), circuit_when_native_undefined: None };
                            }
                        }
                        Outcome { status: Status::Agree, shapes, compared: want.len(), detail: Value::Null, circuit_when_native_undefined: None }
                    }
                    Exec::RunError(e) => {
                        shapes.push("circuit-run-error".into());
                        Outcome::simple(Status::Differs, shapes, json!({"inputs": inputs, "native": want.iter().map(|(n, w)| json!({"output": n, "value": canon::<F, EF>(w)})).collect::<Vec<_>>(), "circuit": format!("run fails: {e}")}))
                    }
                    Exec::BuildError(e) => Outcome::simple(Status::BuildError, shapes, json!({"inputs": inputs, "circuit": format!("build error: {e}")})),
                    Exec::BuildPanic(e) => {
                        shapes.push("panic-in-build".into());
                        Outcome::simple(Status::Panics, shapes, json!({"inputs": inputs, "circuit": format!("panic in build: {e}")}))
                    }
                    Exec::RunPanic(e) => {
                        shapes.push("panic-in-runner".into());
                        Outcome::simple(Status::Panics, shapes, json!({"inputs": inputs, "circuit": format!("panic in runner: {e}")}))
                    }
                }
            }
        },
    }
}

// ---------------------------------------------------------------------------------------------
// Case access helpers
// ---------------------------------------------------------------------------------------------
fn get_usize(c: &Value, k: &str) -> Option<usize> {
    c.get(k).and_then(|v| v.as_u64()).map(|v| v as usize)
}
fn get_str<'a>(c: &'a Value, k: &str, default: &'a str) -> &'a str {
    c.get(k).and_then(|v| v.as_str()).unwrap_or(default)
}
fn get_bool(c: &Value, k: &str) -> bool {
    c.get(k).and_then(|v| v.as_bool()).unwrap_or(false)
}
fn get_list(c: &Value, k: &str) -> Option<Vec<usize>> {
    c.get(k).and_then(|v| v.as_array()).map(|a| a.iter().filter_map(|x| x.as_u64()).map(|x| x as usize).collect())
}

fn rand_f<F: PrimeField64>(rng: &mut StdRng) -> F {
    F::from_u64(rng.random::<u64>() % F::ORDER_U64)
}
fn rand_ef<F: PrimeField64, EF: BasedVectorSpace<F>>(rng: &mut StdRng) -> EF {
    let cs: Vec<F> = (0..EF::DIMENSION).map(|_| rand_f(rng)).collect();
    EF::from_basis_coefficients_slice(&cs).unwrap()
}
fn rand_nonzero_f<F: PrimeField64>(rng: &mut StdRng) -> F {
    loop {
        let x: F = rand_f(rng);
        if !x.is_zero() {
            return x;
        }
    }
}

fn size_class(log_n: usize) -> String {
    match log_n {
        0 => "log_n=0".into(),
        1 => "log_n=1".into(),
        _ => "log_n>=2".into(),
    }
}

/// The domain of a case: `shift` in {one, generator, random, quotient}, `log_n`.
fn case_domain<F: TwoAdicField + PrimeField64>(c: &Value, rng: &mut StdRng, shapes: &mut Vec<String>) -> Result<Coset<F>, String> {
    let log_n = get_usize(c, "log_n").ok_or("log_n missing")?;
    let shift_kind = get_str(c, "shift", "one");
    let shift = match shift_kind {
        "one" => F::ONE,
        "generator" => F::GENERATOR,
        // shape of a quotient chunk domain: GENERATOR * h^i
        "quotient" => F::GENERATOR * F::two_adic_generator((log_n + 2).min(F::TWO_ADICITY)).exp_u64(1 + rng.random::<u64>() % 3),
        "random" => rand_nonzero_f(rng),
        o => return Err(format!("unknown shift {o}")),
    };
    shapes.push(size_class(log_n));
    shapes.push(format!("shift-{shift_kind}"));
    Coset::new(shift, log_n).ok_or_else(|| "domain not constructible".to_string())
}

/// The evaluation point of a case relative to a domain.
fn case_point<F: TwoAdicField + PrimeField64, EF: ExtensionField<F> + BasedVectorSpace<F>>(
    c: &Value,
    dom: &Coset<F>,
    rng: &mut StdRng,
    shapes: &mut Vec<String>,
) -> Result<EF, String> {
    let kind = get_str(c, "point", "random");
    let p = match kind {
        "random" => rand_ef::<F, EF>(rng),
        "random_base" => EF::from(rand_f::<F>(rng)),
        "zero" => EF::ZERO,
        "one" => EF::ONE,
        "in_domain" => {
            let n = dom.size() as u64;
            let k = get_usize(c, "k").map(|k| k as u64 % n).unwrap_or_else(|| rng.random::<u64>() % n);
            if k == 0 {
                shapes.push("first-row-point".into());
            }
            if k == n - 1 {
                shapes.push("last-row-point".into());
            }
            EF::from(dom.shift() * dom.subgroup_generator().exp_u64(k))
        }
        o => return Err(format!("unknown point {o}")),
    };
    shapes.push(format!("point-{}", kind.replace('_', "-")));
    Ok(p)
}

// ---------------------------------------------------------------------------------------------
// PCS-level gadgets (need the StarkGenericConfig of the proof being verified)
// ---------------------------------------------------------------------------------------------
pub struct PcsTypes<F, EF, SC, IP, OP, Comm>(PhantomData<(F, EF, SC, IP, OP, Comm)>);

impl<F, EF, SC, IP, OP, Comm> PcsTypes<F, EF, SC, IP, OP, Comm>
where
    F: TwoAdicField + PrimeField64,
    EF: ExtensionField<F> + BasedVectorSpace<F>,
    SC: StarkGenericConfig<Challenge = EF>,
    SC::Pcs: Pcs<EF, SC::Challenger, Domain = Coset<F>> + RecursivePcs<SC, IP, OP, Comm, Coset<F>>,
    IP: Recursive<EF>,
    OP: Recursive<EF>,
    Comm: Recursive<EF>,
{
    fn selectors(config: &SC, c: &Value, rng: &mut StdRng) -> Outcome {
        let mut shapes = vec![];
        let dom = match case_domain::<F>(c, rng, &mut shapes) {
            Ok(d) => d,
            Err(e) => return Outcome::simple(Status::NotApplicable, shapes, json!(e)),
        };
        let point: EF = match case_point::<F, EF>(c, &dom, rng, &mut shapes) {
            Ok(p) => p,
            Err(e) => return Outcome::simple(Status::BadCase, shapes, json!(e)),
        };
        let inputs = json!({"shift": dom.shift().as_canonical_u64(), "log_n": dom.log_size(), "point": canon::<F, EF>(&point)});
        let native = native_of(|| {
            let s = dom.selectors_at_point(point);
            Ok(vec![
                ("is_first_row".to_string(), s.is_first_row),
                ("is_last_row".to_string(), s.is_last_row),
                ("is_transition".to_string(), s.is_transition),
                ("inv_vanishing".to_string(), s.inv_vanishing),
            ])
        });
        let gadget = gadget_of(|| {
            let mut b = CircuitBuilder::<EF>::new();
            let pt = b.public_input();
            let s = <SC::Pcs as RecursivePcs<SC, IP, OP, Comm, Coset<F>>>::selectors_at_point_circuit(config.pcs(), &mut b, &dom, &pt);
            Ok(Built {
                builder: b,
                pubs: vec![point],
                outs: vec![
                    ("is_first_row".to_string(), s.row_selectors.is_first_row),
                    ("is_last_row".to_string(), s.row_selectors.is_last_row),
                    ("is_transition".to_string(), s.row_selectors.is_transition),
                    ("inv_vanishing".to_string(), s.inv_vanishing),
                ],
            })
        });
        judge::<F, EF>(native, gadget, shapes, inputs)
    }

    #[cfg(p3r_verif)]
    fn vanishing(config: &SC, c: &Value, rng: &mut StdRng) -> Outcome {
        let mut shapes = vec![];
        let dom = match case_domain::<F>(c, rng, &mut shapes) {
            Ok(d) => d,
            Err(e) => return Outcome::simple(Status::NotApplicable, shapes, json!(e)),
        };
        let point: EF = match case_point::<F, EF>(c, &dom, rng, &mut shapes) {
            Ok(p) => p,
            Err(e) => return Outcome::simple(Status::BadCase, shapes, json!(e)),
        };
        let inputs = json!({"shift": dom.shift().as_canonical_u64(), "log_n": dom.log_size(), "point": canon::<F, EF>(&point)});
        let native = native_of(|| Ok(vec![("vanishing".to_string(), dom.vanishing_poly_at_point(point))]));
        let gadget = gadget_of(|| {
            let mut b = CircuitBuilder::<EF>::new();
            let pt = b.public_input();
            let z = p3_recursion::verifier::verif_quotient_exports::vanishing_poly_at_point_circuit::<SC, IP, OP, Comm, Coset<F>>(config.pcs(), &dom, pt, &mut b);
            Ok(Built { builder: b, pubs: vec![point], outs: vec![("vanishing".to_string(), z)] })
        });
        judge::<F, EF>(native, gadget, shapes, inputs)
    }
    #[cfg(not(p3r_verif))]
    fn vanishing(_: &SC, _: &Value, _: &mut StdRng) -> Outcome {
        Outcome::simple(Status::NeedsHook, vec![], Value::Null)
    }

    /// `log_n` = degree bits of the (possibly randomised) trace, `chunks` = number of chunk domains
    /// handed to the gadget, `zk` = the ZK doubling of the verifier
    /// (`quotient_degree = 1 << (log_quotient_degree + is_zk)`, every chunk domain has half the trace size).
    fn quotient(config: &SC, c: &Value, rng: &mut StdRng) -> Outcome {
        let mut shapes = vec![];
        let (Some(log_n), Some(chunks)) = (get_usize(c, "log_n"), get_usize(c, "chunks")) else {
            return Outcome::simple(Status::BadCase, shapes, json!("log_n / chunks missing"));
        };
        let zk = get_bool(c, "zk") as usize;
        shapes.push(size_class(log_n));
        shapes.push(match chunks {
            0 => "no-chunk".to_string(),
            1 => "single-chunk".to_string(),
            n => format!("chunks={n}"),
        });
        shapes.push(if zk == 1 { "zk".into() } else { "no-zk".into() });
        let pow2 = chunks.max(1).next_power_of_two();
        if pow2 != chunks.max(1) {
            shapes.push("non-pow2-chunks".into());
        }
        let log_chunks = pow2.trailing_zeros() as usize;
        // as in verify_p3_uni_proof_circuit / p3_uni_stark::verify:
        //   quotient_domain = trace_domain.create_disjoint_domain(1 << (degree_bits + log_quotient_degree)),
        //   log_quotient_degree = log_chunks - is_zk
        if log_chunks < zk || log_n + log_chunks - zk > F::TWO_ADICITY {
            return Outcome::simple(Status::NotApplicable, shapes, json!("no verifier run has this (chunks, zk)"));
        }
        let pcs = config.pcs();
        let domains = catch_unwind(AssertUnwindSafe(|| {
            let trace_domain = <SC::Pcs as Pcs<EF, SC::Challenger>>::natural_domain_for_degree(pcs, 1 << log_n);
            let qd = <SC::Pcs as RecursivePcs<SC, IP, OP, Comm, Coset<F>>>::create_disjoint_domain(pcs, trace_domain, 1 << (log_n + log_chunks - zk));
            let mut ds = <SC::Pcs as RecursivePcs<SC, IP, OP, Comm, Coset<F>>>::split_domains(pcs, &qd, pow2);
            ds.truncate(chunks);
            ds
        }));
        let Ok(domains) = domains else {
            return Outcome::simple(Status::NotApplicable, shapes, json!("domains not constructible"));
        };
        // zeta
        let kind = get_str(c, "point", "random");
        let zeta: EF = match kind {
            "random" => rand_ef::<F, EF>(rng),
            "random_base" => EF::from(rand_f::<F>(rng)),
            "zero" => EF::ZERO,
            "one" => EF::ONE,
            // a point of one of the chunk domains (native: defined, L_i = 1 there)
            "in_chunk_domain" | "in_domain" => {
                if domains.is_empty() {
                    return Outcome::simple(Status::NotApplicable, shapes, json!("no chunk"));
                }
                let i = get_usize(c, "k").unwrap_or_else(|| rng.random::<u64>() as usize) % domains.len();
                let d = &domains[i];
                EF::from(d.shift() * d.subgroup_generator().exp_u64(rng.random::<u64>() % d.size() as u64))
            }
            o => return Outcome::simple(Status::BadCase, shapes, json!(format!("unknown point {o}"))),
        };
        shapes.push(format!("point-{}", if kind == "in_domain" { "in-chunk-domain".to_string() } else { kind.replace('_', "-") }));
        let dim = EF::DIMENSION;
        let vals: Vec<Vec<EF>> = (0..chunks).map(|_| (0..dim).map(|_| rand_ef::<F, EF>(rng)).collect()).collect();
        let inputs = json!({"log_n": log_n, "chunks": chunks, "zk": zk == 1,
            "chunk_domains": domains.iter().map(|d| json!({"shift": d.shift().as_canonical_u64(), "log_size": d.log_size()})).collect::<Vec<_>>(),
            "zeta": canon::<F, EF>(&zeta)});
        let native = native_of(|| Ok(vec![("quotient".to_string(), p3_uni_stark::recompose_quotient_from_chunks::<SC>(&domains, &vals, zeta))]));
        let gadget = gadget_of(|| {
            let mut b = CircuitBuilder::<EF>::new();
            let z = b.public_input();
            let mut pubs = vec![zeta];
            let chunk_targets: Vec<Vec<ExprId>> = vals
                .iter()
                .map(|ch| {
                    ch.iter()
                        .map(|v| {
                            pubs.push(*v);
                            b.public_input()
                        })
                        .collect()
                })
                .collect();
            let q = p3_recursion::verifier::recompose_quotient_from_chunks_circuit::<SC, IP, OP, Comm, Coset<F>>(&mut b, &domains, &chunk_targets, z, pcs);
            Ok(Built { builder: b, pubs, outs: vec![("quotient".to_string(), q)] })
        });
        judge::<F, EF>(native, gadget, shapes, inputs)
    }

    /// `period_log` / `period_logs` (power-of-two periods) or `period` / `periods` (raw lengths, to reach the rejections).
    fn periodic(config: &SC, c: &Value, rng: &mut StdRng) -> Outcome {
        let mut shapes = vec![];
        let dom = match case_domain::<F>(c, rng, &mut shapes) {
            Ok(d) => d,
            Err(e) => return Outcome::simple(Status::NotApplicable, shapes, json!(e)),
        };
        let point: EF = match case_point::<F, EF>(c, &dom, rng, &mut shapes) {
            Ok(p) => p,
            Err(e) => return Outcome::simple(Status::BadCase, shapes, json!(e)),
        };
        let mut periods: Vec<usize> = vec![];
        if let Some(l) = get_usize(c, "period_log") {
            periods.push(1 << l);
        }
        if let Some(ls) = get_list(c, "period_logs") {
            periods.extend(ls.iter().map(|l| 1usize << l));
        }
        if let Some(p) = get_usize(c, "period") {
            periods.push(p);
        }
        if let Some(ps) = get_list(c, "periods") {
            periods.extend(ps);
        }
        let n = dom.size();
        for &p in &periods {
            shapes.push(if p == 0 || !p.is_power_of_two() || p > n {
                "invalid-period".to_string()
            } else if p == n && p == 1 {
                "period=size=1".to_string()
            } else if p == 1 {
                "period=1".to_string()
            } else if p == n {
                "period=size".to_string()
            } else {
                "period-intermediate".to_string()
            });
        }
        if periods.is_empty() {
            shapes.push("no-column".into());
        }
        if periods.len() > 1 {
            shapes.push("several-columns".into());
        }
        shapes.sort();
        shapes.dedup();
        let cols: Vec<Vec<F>> = periods.iter().map(|&p| (0..p).map(|_| rand_f::<F>(rng)).collect()).collect();
        let inputs = json!({"shift": dom.shift().as_canonical_u64(), "log_n": dom.log_size(), "point": canon::<F, EF>(&point),
            "columns": cols.iter().map(|c| c.iter().map(|x| x.as_canonical_u64()).collect::<Vec<_>>()).collect::<Vec<_>>()});
        let native = native_of(|| {
            // both native verifiers call this before evaluating
            p3_uni_stark::check_periodic_column_lengths(&cols, n).map_err(|e| format!("{e:?}"))?;
            Ok(cols.iter().enumerate().map(|(i, col)| (format!("periodic[{i}]"), dom.evaluate_periodic_column_at(col, point))).collect())
        });
        let gadget = gadget_of(|| {
            let mut b = CircuitBuilder::<EF>::new();
            let pt = b.public_input();
            let outs = <SC::Pcs as RecursivePcs<SC, IP, OP, Comm, Coset<F>>>::evaluate_periodic_columns_at_point_circuit(config.pcs(), &mut b, &dom, &cols, pt)
                .map_err(|e| format!("{e:?}"))?;
            Ok(Built { builder: b, pubs: vec![point], outs: outs.into_iter().enumerate().map(|(i, t)| (format!("periodic[{i}]"), t)).collect() })
        });
        judge::<F, EF>(native, gadget, shapes, inputs)
    }

    pub fn run(config: &SC, gadget: &str, c: &Value, rng: &mut StdRng) -> Option<Outcome> {
        Some(match gadget {
            "selectors" => Self::selectors(config, c, rng),
            "vanishing" => Self::vanishing(config, c, rng),
            "quotient_recompose" => Self::quotient(config, c, rng),
            "periodic" => Self::periodic(config, c, rng),
            _ => return None,
        })
    }
}

// ---------------------------------------------------------------------------------------------
// FRI-level gadgets (private functions of recursion/src/pcs/fri/verifier.rs, reached through the hook)
// ---------------------------------------------------------------------------------------------
#[cfg(p3r_verif)]
mod fri_gadgets {
    use p3_recursion::pcs::fri::verif_fri_exports as hook;

    use super::*;

    fn index_bits_inputs<EF: Field>(b: &mut CircuitBuilder<EF>, pubs: &mut Vec<EF>, index: usize, nbits: usize) -> Vec<ExprId> {
        (0..nbits)
            .map(|k| {
                pubs.push(if (index >> k) & 1 == 1 { EF::ONE } else { EF::ZERO });
                b.public_input()
            })
            .collect()
    }

    fn index_class(index: usize, nbits: usize) -> String {
        if index == 0 {
            "index=0".into()
        } else if nbits > 0 && index == (1usize << nbits) - 1 {
            "index=max".into()
        } else {
            "index-general".into()
        }
    }

    pub fn eval_poly<F: TwoAdicField + PrimeField64, EF: ExtensionField<F> + BasedVectorSpace<F>>(c: &Value, rng: &mut StdRng) -> Outcome {
        let Some(len) = get_usize(c, "len") else {
            return Outcome::simple(Status::BadCase, vec![], json!("len missing"));
        };
        let mut shapes = vec![match len {
            0 => "len=0".to_string(),
            1 => "len=1".to_string(),
            2 => "len=2".to_string(),
            _ => "len>=3".to_string(),
        }];
        let kind = get_str(c, "point", "random_base");
        let x: EF = match kind {
            "random" => rand_ef::<F, EF>(rng),
            // the real call site evaluates the final polynomial at a base-field query point
            "random_base" => EF::from(rand_f::<F>(rng)),
            "zero" => EF::ZERO,
            "one" => EF::ONE,
            o => return Outcome::simple(Status::BadCase, shapes, json!(format!("unknown point {o}"))),
        };
        shapes.push(format!("point-{}", kind.replace('_', "-")));
        let coeffs: Vec<EF> = (0..len).map(|_| rand_ef::<F, EF>(rng)).collect();
        let inputs = json!({"coefficients": coeffs.iter().map(canon::<F, EF>).collect::<Vec<_>>(), "point": canon::<F, EF>(&x)});
        let native = native_of(|| Ok(vec![("eval".to_string(), coeffs.iter().copied().horner::<EF, EF>(x))]));
        let gadget = gadget_of(|| {
            let mut b = CircuitBuilder::<EF>::new();
            let mut pubs = vec![];
            let cs: Vec<ExprId> = coeffs
                .iter()
                .map(|v| {
                    pubs.push(*v);
                    b.public_input()
                })
                .collect();
            pubs.push(x);
            let pt = b.public_input();
            let r = hook::evaluate_polynomial::<EF>(&mut b, &cs, pt);
            Ok(Built { builder: b, pubs, outs: vec![("eval".to_string(), r)] })
        });
        let o = judge::<F, EF>(native, gadget, shapes, inputs);
        if len == 0 {
            // `assert!(!coefficients.is_empty())`: verify_fri_circuit checks final_poly.len() == 1 << log_final_poly_len >= 1 before
            return o.out_of_contract("evaluate_polynomial asserts a non-empty coefficient list; verify_fri_circuit guarantees len = 2^log_final_poly_len >= 1");
        }
        o
    }

    pub fn exp_const<F: TwoAdicField + PrimeField64, EF: ExtensionField<F> + BasedVectorSpace<F>>(c: &Value, rng: &mut StdRng) -> Outcome {
        let Some(n) = c.get("exponent").and_then(|v| v.as_u64()) else {
            return Outcome::simple(Status::BadCase, vec![], json!("exponent missing"));
        };
        let mut shapes = vec![if n == 0 {
            "exponent=0".to_string()
        } else if n == 1 {
            "exponent=1".to_string()
        } else if n.is_power_of_two() {
            "exponent=pow2".to_string()
        } else if (n + 1).is_power_of_two() {
            "exponent=all-ones".to_string()
        } else {
            "exponent-general".to_string()
        }];
        let kind = get_str(c, "point", "random");
        let base: EF = match kind {
            "random" => rand_ef::<F, EF>(rng),
            "zero" => EF::ZERO,
            "one" => EF::ONE,
            o => return Outcome::simple(Status::BadCase, shapes, json!(format!("unknown point {o}"))),
        };
        shapes.push(format!("base-{kind}"));
        if n == 0 {
            // `debug_assert!(n > 0)`; in a release build `num_bits - 1` wraps to u32::MAX and the loop never ends.
            // The only caller (compute_single_reduced_opening) returns early for n == 0.
            return Outcome::simple(Status::OutOfContract, shapes, json!("circuit_exp_by_constant requires n > 0 (debug_assert); its only caller returns early when n == 0"));
        }
        let inputs = json!({"exponent": n, "base": canon::<F, EF>(&base)});
        let native = native_of(|| Ok(vec![("power".to_string(), base.exp_u64(n))]));
        let gadget = gadget_of(|| {
            let mut b = CircuitBuilder::<EF>::new();
            let x = b.public_input();
            let r = hook::circuit_exp_by_constant::<EF>(&mut b, x, n as usize);
            Ok(Built { builder: b, pubs: vec![base], outs: vec![("power".to_string(), r)] })
        });
        judge::<F, EF>(native, gadget, shapes, inputs)
    }

    /// `log_max_height`, `log_final` (= log_max_height - bits consumed by all fold phases), `index`.
    pub fn final_query_point<F: TwoAdicField + PrimeField64, EF: ExtensionField<F> + BasedVectorSpace<F>>(c: &Value, _rng: &mut StdRng) -> Outcome {
        let (Some(lmh), Some(lf), Some(index)) = (get_usize(c, "log_max_height"), get_usize(c, "log_final"), get_usize(c, "index")) else {
            return Outcome::simple(Status::BadCase, vec![], json!("log_max_height / log_final / index missing"));
        };
        let mut shapes = vec![];
        if lf > lmh || lmh > F::TWO_ADICITY || lmh >= usize::BITS as usize {
            return Outcome::simple(Status::NotApplicable, shapes, json!("log_final > log_max_height"));
        }
        let index = index & ((1usize << lmh) - 1);
        let consumed = lmh - lf;
        shapes.push(if lmh == 0 { "log_max_height=0".to_string() } else { "log_max_height>0".to_string() });
        shapes.push(if lf == 0 { "log_final=0".to_string() } else { "log_final>0".to_string() });
        if consumed == 0 {
            shapes.push("no-fold".into());
        }
        shapes.push(index_class(index, lmh));
        let inputs = json!({"log_max_height": lmh, "log_final": lf, "index": index});
        // p3_fri::verifier::verify_fri: domain_index = index >> (sum of log_arities);
        //   x = two_adic_generator(log_global_max_height)^reverse_bits_len(domain_index, log_global_max_height)
        let native = native_of(|| {
            let domain_index = index >> consumed;
            Ok(vec![("x".to_string(), EF::from(F::two_adic_generator(lmh).exp_u64(reverse_bits_len(domain_index, lmh) as u64)))])
        });
        let gadget = gadget_of(|| {
            let mut b = CircuitBuilder::<EF>::new();
            let mut pubs = vec![];
            let bits = index_bits_inputs(&mut b, &mut pubs, index, lmh);
            let powers = hook::precompute_two_adic_powers::<F, EF>(&mut b, lmh);
            let x = hook::compute_final_query_point::<F, EF>(&mut b, &bits, lmh, consumed, &powers);
            Ok(Built { builder: b, pubs, outs: vec![("x".to_string(), x)] })
        });
        judge::<F, EF>(native, gadget, shapes, inputs)
    }

    fn schedule(c: &Value, log_height: usize) -> Result<Vec<usize>, String> {
        if let Some(l) = get_list(c, "log_arities") {
            return Ok(l);
        }
        let la = get_usize(c, "log_arity").ok_or("log_arity / log_arities missing")?;
        let phases = get_usize(c, "phases").unwrap_or(1);
        let _ = log_height;
        Ok(vec![la; phases])
    }

    /// `log_height` (= log_max_height = number of index bits), `log_arity` (+ `phases`) or `log_arities`, `index`.
    pub fn subgroup_starts<F: TwoAdicField + PrimeField64, EF: ExtensionField<F> + BasedVectorSpace<F>>(c: &Value, _rng: &mut StdRng) -> Outcome {
        let (Some(lmh), Some(index)) = (get_usize(c, "log_height"), get_usize(c, "index")) else {
            return Outcome::simple(Status::BadCase, vec![], json!("log_height / index missing"));
        };
        let las = match schedule(c, lmh) {
            Ok(l) => l,
            Err(e) => return Outcome::simple(Status::BadCase, vec![], json!(e)),
        };
        let mut shapes = vec![];
        let total: usize = las.iter().sum();
        // verify_fri_circuit rejects: no phase (betas.is_empty()), log_max_height < total + log_blowup
        if las.is_empty() || total > lmh || lmh > F::TWO_ADICITY || las.iter().any(|&a| a == 0) {
            return Outcome::simple(Status::NotApplicable, shapes, json!("schedule does not fit the height (rejected earlier by verify_fri_circuit / native InvalidLogArity)"));
        }
        let index = index & ((1usize << lmh) - 1);
        shapes.push(if las.len() == 1 { "single-phase".to_string() } else { "multi-phase".to_string() });
        if lmh - las[0] == 0 {
            shapes.push("first-folded-height=0".into());
        }
        if total == lmh {
            shapes.push("last-folded-height=0".into());
        }
        let max_a = *las.iter().max().unwrap();
        shapes.push(format!("max-log-arity={}", max_a.min(4)));
        shapes.push(index_class(index, lmh));
        let mut cum = vec![0usize];
        for &a in &las {
            cum.push(cum.last().unwrap() + a);
        }
        let inputs = json!({"log_max_height": lmh, "log_arities": las, "index": index});
        // native (verify_query + TwoAdicFriFolding::fold_row): at phase i, start_index = index >> cum[i+1],
        //   log_folded_height = lmh - cum[i+1],
        //   subgroup_start = two_adic_generator(log_folded_height + log_arity)^reverse_bits_len(start_index, log_folded_height)
        //   xs = bit-reversed (omega^k * subgroup_start), omega = two_adic_generator(log_arity)
        let native = native_of(|| {
            let mut out = vec![];
            for (i, &a) in las.iter().enumerate() {
                let lfh = lmh - cum[i + 1];
                let start = index >> cum[i + 1];
                let ss = F::two_adic_generator(lfh + a).exp_u64(reverse_bits_len(start, lfh) as u64);
                out.push((format!("subgroup_start[{i}]"), EF::from(ss)));
                let mut xs: Vec<F> = F::two_adic_generator(a).shifted_powers(ss).take(1 << a).collect();
                p3_util::reverse_slice_index_bits(&mut xs);
                for (j, x) in xs.iter().enumerate() {
                    out.push((format!("xs[{i}][{j}]"), EF::from(*x)));
                }
            }
            Ok(out)
        });
        let gadget = gadget_of(|| {
            let mut b = CircuitBuilder::<EF>::new();
            let mut pubs = vec![];
            let bits = index_bits_inputs(&mut b, &mut pubs, index, lmh);
            let starts = hook::precompute_subgroup_starts::<F, EF>(&mut b, &bits, lmh, &las, &cum);
            if starts.len() != las.len() {
                return Err(format!("precompute_subgroup_starts returned {} values for {} phases", starts.len(), las.len()));
            }
            let mut outs = vec![];
            for (i, &a) in las.iter().enumerate() {
                outs.push((format!("subgroup_start[{i}]"), starts[i]));
                let (xs, _) = hook::compute_subgroup_points::<F, EF>(&mut b, a, starts[i]);
                for (j, x) in xs.iter().enumerate() {
                    outs.push((format!("xs[{i}][{j}]"), *x));
                }
            }
            Ok(Built { builder: b, pubs, outs })
        });
        judge::<F, EF>(native, gadget, shapes, inputs)
    }

    /// `log_global_max_height`, `heights` (log heights incl. blowup, strictly descending), `index`.
    pub fn eval_points<F: TwoAdicField + PrimeField64, EF: ExtensionField<F> + BasedVectorSpace<F>>(c: &Value, _rng: &mut StdRng) -> Outcome {
        let (Some(lg), Some(heights), Some(index)) = (get_usize(c, "log_global_max_height"), get_list(c, "heights"), get_usize(c, "index")) else {
            return Outcome::simple(Status::BadCase, vec![], json!("log_global_max_height / heights / index missing"));
        };
        let mut shapes = vec![];
        if heights.is_empty() || heights.windows(2).any(|w| w[0] <= w[1]) || heights[0] > lg || lg > F::TWO_ADICITY {
            return Outcome::simple(Status::NotApplicable, shapes, json!("heights must be non-empty, strictly descending, <= log_global_max_height (debug_assert + open_input's own checks)"));
        }
        let index = index & ((1usize << lg) - 1);
        shapes.push(if heights.len() == 1 { "single-height".to_string() } else { "several-heights".to_string() });
        if heights[0] < lg {
            shapes.push("tallest-below-global".into());
        }
        if *heights.last().unwrap() == 0 {
            shapes.push("height=0".into());
        }
        shapes.push(index_class(index, lg));
        let inputs = json!({"log_global_max_height": lg, "heights": heights, "index": index});
        // p3_fri::verifier::open_input: bits_reduced = lg - log_height;
        //   x = GENERATOR * two_adic_generator(log_height)^reverse_bits_len(index >> bits_reduced, log_height)
        let native = native_of(|| {
            let mut hs = heights.clone();
            hs.sort();
            Ok(hs
                .iter()
                .map(|&h| {
                    let rev = reverse_bits_len(index >> (lg - h), h);
                    (format!("x[h={h}]"), EF::from(F::GENERATOR * F::two_adic_generator(h).exp_u64(rev as u64)))
                })
                .collect())
        });
        let gadget = gadget_of(|| {
            let mut b = CircuitBuilder::<EF>::new();
            let mut pubs = vec![];
            let bits = index_bits_inputs(&mut b, &mut pubs, index, lg);
            let m = hook::precompute_evaluation_points::<F, EF>(&mut b, &heights, &bits, lg);
            Ok(Built { builder: b, pubs, outs: m.into_iter().map(|(h, t)| (format!("x[h={h}]"), t)).collect() })
        });
        let o = judge::<F, EF>(native, gadget, shapes, inputs);
        if heights.len() > 1 && *heights.last().unwrap() == 0 {
            // log_height = log2(domain size) + log_blowup: 0 only with log_blowup = 0 (rate 1, no FRI soundness at all)
            return o.out_of_contract("a committed matrix of LDE height 1 next to taller ones needs log_blowup = 0; the capture loop of precompute_evaluation_points never reaches bits_done = 0, so the map has no entry for height 0 (open_input would then panic on eval_points[0])");
        }
        o
    }

    /// The arithmetic fold chain of one query: `log_height`, `log_arities` (or `log_arity` + `phases`), `index`, `roll_in`.
    pub fn fold_chain<F: TwoAdicField + PrimeField64, EF: ExtensionField<F> + BasedVectorSpace<F>>(c: &Value, rng: &mut StdRng) -> Outcome {
        let (Some(lmh), Some(index)) = (get_usize(c, "log_height"), get_usize(c, "index")) else {
            return Outcome::simple(Status::BadCase, vec![], json!("log_height / index missing"));
        };
        let las = match schedule(c, lmh) {
            Ok(l) => l,
            Err(e) => return Outcome::simple(Status::BadCase, vec![], json!(e)),
        };
        let roll = get_bool(c, "roll_in");
        let precomputed_beta = c.get("precomputed_beta_pow").and_then(|v| v.as_bool()).unwrap_or(true);
        let mut shapes = vec![];
        let total: usize = las.iter().sum();
        if las.is_empty() || total > lmh || lmh > F::TWO_ADICITY || las.iter().any(|&a| a == 0) {
            return Outcome::simple(Status::NotApplicable, shapes, json!("schedule does not fit the height"));
        }
        let index = index & ((1usize << lmh) - 1);
        shapes.push(if las.len() == 1 { "single-phase".to_string() } else { "multi-phase".to_string() });
        let mut arities: Vec<usize> = las.iter().map(|a| (*a).min(4)).collect();
        arities.sort();
        arities.dedup();
        shapes.push(format!("log-arities={}", arities.iter().map(|a| a.to_string()).collect::<Vec<_>>().join("-")));
        if total == lmh {
            shapes.push("last-folded-height=0".into());
        }
        shapes.push(if roll { "roll-in".into() } else { "no-roll-in".into() });
        if !precomputed_beta {
            shapes.push("beta-pow-in-phase".into());
        }
        let mut cum = vec![0usize];
        for &a in &las {
            cum.push(cum.last().unwrap() + a);
        }
        let initial: EF = rand_ef::<F, EF>(rng);
        let betas: Vec<EF> = las.iter().map(|_| rand_ef::<F, EF>(rng)).collect();
        let siblings: Vec<Vec<EF>> = las.iter().map(|&a| (0..(1usize << a) - 1).map(|_| rand_ef::<F, EF>(rng)).collect()).collect();
        let rolls: Vec<Option<EF>> = las.iter().map(|_| if roll && rng.random::<u64>() % 3 != 0 { Some(rand_ef::<F, EF>(rng)) } else { None }).collect();
        let inputs = json!({"log_max_height": lmh, "log_arities": las, "index": index,
            "initial": canon::<F, EF>(&initial), "betas": betas.iter().map(canon::<F, EF>).collect::<Vec<_>>(),
            "siblings": siblings.iter().map(|s| s.iter().map(canon::<F, EF>).collect::<Vec<_>>()).collect::<Vec<_>>(),
            "roll_ins": rolls.iter().map(|r| r.as_ref().map(canon::<F, EF>)).collect::<Vec<_>>()});
        // native: the loop of p3_fri::verifier::verify_query without the MMCS check
        let native = native_of(|| {
            let folding = TwoAdicFriFolding::<(), ()>(PhantomData);
            let mut start_index = index;
            let mut folded = initial;
            let mut log_current = lmh;
            let mut out = vec![];
            for (i, &a) in las.iter().enumerate() {
                let arity = 1usize << a;
                let index_in_group = start_index % arity;
                let mut evals = EF::zero_vec(arity);
                evals[index_in_group] = folded;
                let mut s = 0;
                for (j, e) in evals.iter_mut().enumerate() {
                    if j != index_in_group {
                        *e = siblings[i][s];
                        s += 1;
                    }
                }
                let log_folded = log_current - a;
                start_index >>= a;
                folded = FriFoldingStrategy::<F, EF>::fold_row(&folding, start_index, log_folded, a, betas[i], evals.into_iter());
                log_current = log_folded;
                if let Some(ro) = rolls[i] {
                    folded += betas[i].exp_power_of_2(a) * ro;
                }
                out.push((format!("folded[{i}]"), folded));
            }
            Ok(out)
        });
        let gadget = gadget_of(|| {
            let mut b = CircuitBuilder::<EF>::new();
            let mut pubs = vec![];
            let bits = index_bits_inputs(&mut b, &mut pubs, index, lmh);
            let mut inp = |b: &mut CircuitBuilder<EF>, v: EF| {
                pubs.push(v);
                b.public_input()
            };
            let mut folded = inp(&mut b, initial);
            let beta_t: Vec<ExprId> = betas.iter().map(|v| inp(&mut b, *v)).collect();
            let sib_t: Vec<Vec<ExprId>> = siblings.iter().map(|s| s.iter().map(|v| inp(&mut b, *v)).collect()).collect();
            let roll_t: Vec<Option<ExprId>> = rolls.iter().map(|r| r.map(|v| inp(&mut b, v))).collect();
            let starts = hook::precompute_subgroup_starts::<F, EF>(&mut b, &bits, lmh, &las, &cum);
            let mut outs = vec![];
            let mut consumed = 0usize;
            for (i, &a) in las.iter().enumerate() {
                let bp = if precomputed_beta { Some(b.exp_power_of_2(beta_t[i], a)) } else { None };
                folded = hook::fold_one_phase::<F, EF>(&mut b, folded, &sib_t[i], beta_t[i], &bits, consumed, a, roll_t[i], bp, None, starts[i]);
                consumed += a;
                outs.push((format!("folded[{i}]"), folded));
            }
            Ok(Built { builder: b, pubs, outs })
        });
        judge::<F, EF>(native, gadget, shapes, inputs)
    }

    pub fn run<F: TwoAdicField + PrimeField64, EF: ExtensionField<F> + BasedVectorSpace<F>>(gadget: &str, c: &Value, rng: &mut StdRng) -> Option<Outcome> {
        Some(match gadget {
            "eval_poly" => eval_poly::<F, EF>(c, rng),
            "exp_const" => exp_const::<F, EF>(c, rng),
            "final_query_point" => final_query_point::<F, EF>(c, rng),
            "subgroup_starts" => subgroup_starts::<F, EF>(c, rng),
            "eval_points" => eval_points::<F, EF>(c, rng),
            "fold_chain" => fold_chain::<F, EF>(c, rng),
            _ => return None,
        })
    }
}

#[cfg(not(p3r_verif))]
mod fri_gadgets {
    use super::*;
    pub fn run<F: TwoAdicField + PrimeField64, EF: ExtensionField<F> + BasedVectorSpace<F>>(gadget: &str, _c: &Value, _rng: &mut StdRng) -> Option<Outcome> {
        match gadget {
            "eval_poly" | "exp_const" | "final_query_point" | "subgroup_starts" | "eval_points" | "fold_chain" => Some(Outcome::simple(Status::NeedsHook, vec![], Value::Null)),
            _ => None,
        }
    }
}

// ---------------------------------------------------------------------------------------------
// Concrete configurations
// ---------------------------------------------------------------------------------------------
pub const FIELDS: &[&str] = &["bb_d4", "kb_d4", "gl_d2", "kb_d4_hiding", "kb_d5"];

mod bb {
    pub use p3_test_utils::baby_bear_params::*;
}
mod kb {
    pub use p3_test_utils::koala_bear_params::*;
}
mod gl {
    pub use p3_test_utils::goldilocks_params::*;
}
mod kq {
    pub use p3_test_utils::koala_bear_quintic_params::*;
}

type BbRecVal = RecValMmcs<bb::F, { bb::DIGEST_ELEMS }, bb::MyHash, bb::MyCompress>;
type BbIp = InputProofTargets<bb::F, bb::Challenge, BbRecVal>;
type BbOp = FriProofTargets<bb::F, bb::Challenge, RecExtensionValMmcs<bb::F, bb::Challenge, { bb::DIGEST_ELEMS }, BbRecVal>, BbIp, Witness<bb::F>>;
type BbComm = MerkleCapTargets<bb::F, { bb::DIGEST_ELEMS }>;
type BbTypes = PcsTypes<bb::F, bb::Challenge, bb::MyConfig, BbIp, BbOp, BbComm>;

type KbRecVal = RecValMmcs<kb::F, { kb::DIGEST_ELEMS }, kb::MyHash, kb::MyCompress>;
type KbIp = InputProofTargets<kb::F, kb::Challenge, KbRecVal>;
type KbRecExt = RecExtensionValMmcs<kb::F, kb::Challenge, { kb::DIGEST_ELEMS }, KbRecVal>;
type KbOp = FriProofTargets<kb::F, kb::Challenge, KbRecExt, KbIp, Witness<kb::F>>;
type KbComm = MerkleCapTargets<kb::F, { kb::DIGEST_ELEMS }>;
type KbTypes = PcsTypes<kb::F, kb::Challenge, kb::MyConfig, KbIp, KbOp, KbComm>;

type KbZkPcs = HidingFriPcs<kb::F, kb::Dft, kb::MyMmcs, kb::ChallengeMmcs, SmallRng>;
type KbZkConfig = StarkConfig<KbZkPcs, kb::Challenge, kb::Challenger>;
type KbZkOp = HidingFriProofTargets<kb::F, kb::Challenge, KbRecExt, KbIp, Witness<kb::F>>;
type KbZkTypes = PcsTypes<kb::F, kb::Challenge, KbZkConfig, KbIp, KbZkOp, KbComm>;

type KqRecVal = RecValMmcs<kq::F, { kq::DIGEST_ELEMS }, kq::MyHash, kq::MyCompress>;
type KqIp = InputProofTargets<kq::F, kq::Challenge, KqRecVal>;
type KqOp = FriProofTargets<kq::F, kq::Challenge, RecExtensionValMmcs<kq::F, kq::Challenge, { kq::DIGEST_ELEMS }, KqRecVal>, KqIp, Witness<kq::F>>;
type KqComm = MerkleCapTargets<kq::F, { kq::DIGEST_ELEMS }>;
type KqTypes = PcsTypes<kq::F, kq::Challenge, kq::MyConfig, KqIp, KqOp, KqComm>;

type GlRecVal = RecValMmcs<gl::F, { gl::DIGEST_ELEMS }, gl::MyHash, gl::MyCompress>;
type GlIp = InputProofTargets<gl::F, gl::Challenge, GlRecVal>;
type GlOp = FriProofTargets<gl::F, gl::Challenge, RecExtensionValMmcs<gl::F, gl::Challenge, { gl::DIGEST_ELEMS }, GlRecVal>, GlIp, Witness<gl::F>>;
type GlComm = MerkleCapTargets<gl::F, { gl::DIGEST_ELEMS }>;
type GlTypes = PcsTypes<gl::F, gl::Challenge, gl::MyConfig, GlIp, GlOp, GlComm>;

/// The configurations, built once per worker thread.
pub struct Ctx {
    bb: bb::MyConfig,
    kb: kb::MyConfig,
    kb_zk: KbZkConfig,
    gl: gl::MyConfig,
    kq: kq::MyConfig,
}

impl Default for Ctx {
    fn default() -> Self {
        Self::new()
    }
}

impl Ctx {
    pub fn new() -> Self {
        let kb_zk = {
            let perm = kb::default_koalabear_poseidon2_16();
            let hash = kb::MyHash::new(perm.clone());
            let compress = kb::MyCompress::new(perm.clone());
            let val_mmcs = kb::MyMmcs::new(hash, compress, 0);
            let challenge_mmcs = kb::ChallengeMmcs::new(val_mmcs.clone());
            let fri_params = FriParameters::new_testing(challenge_mmcs, 0);
            let pcs = KbZkPcs::new(kb::Dft::default(), val_mmcs, fri_params, 4, SmallRng::seed_from_u64(1));
            KbZkConfig::new(pcs, kb::Challenger::new(perm))
        };
        let gl = {
            let mut r = SmallRng::seed_from_u64(1);
            let perm = gl::Perm::new_from_rng_128(&mut r);
            let hash = gl::MyHash::new(perm.clone());
            let compress = gl::MyCompress::new(perm.clone());
            let val_mmcs = gl::MyMmcs::new(hash, compress, 0);
            let challenge_mmcs = gl::ChallengeMmcs::new(val_mmcs.clone());
            let fri_params = FriParameters::new_testing(challenge_mmcs, 0);
            let pcs = gl::MyPcs::new(gl::Dft::default(), val_mmcs, fri_params);
            gl::MyConfig::new(pcs, gl::Challenger::new(perm))
        };
        Self { bb: bb::make_test_config(), kb: kb::make_test_config(), kb_zk, gl, kq: kq::make_test_config() }
    }

    /// Replay one case.
    pub fn run_case(&self, c: &Value, seed: u64) -> Outcome {
        let mut rng = StdRng::seed_from_u64(seed);
        let gadget = get_str(c, "gadget", "");
        let field = get_str(c, "field", "bb_d4");
        let r = match field {
            "bb_d4" => BbTypes::run(&self.bb, gadget, c, &mut rng).or_else(|| fri_gadgets::run::<bb::F, bb::Challenge>(gadget, c, &mut rng)),
            "kb_d4" => KbTypes::run(&self.kb, gadget, c, &mut rng).or_else(|| fri_gadgets::run::<kb::F, kb::Challenge>(gadget, c, &mut rng)),
            "kb_d4_hiding" => KbZkTypes::run(&self.kb_zk, gadget, c, &mut rng).or_else(|| fri_gadgets::run::<kb::F, kb::Challenge>(gadget, c, &mut rng)),
            "kb_d5" => KqTypes::run(&self.kq, gadget, c, &mut rng).or_else(|| fri_gadgets::run::<kq::F, kq::Challenge>(gadget, c, &mut rng)),
            "gl_d2" => GlTypes::run(&self.gl, gadget, c, &mut rng).or_else(|| fri_gadgets::run::<gl::F, BinomialExtensionField<gl::F, 2>>(gadget, c, &mut rng)),
            o => return Outcome::simple(Status::BadCase, vec![], json!(format!("unknown field {o}"))),
        };
        r.unwrap_or_else(|| Outcome::simple(Status::BadCase, vec![], json!(format!("unknown gadget {gadget}"))))
    }
}

// ---------------------------------------------------------------------------------------------
// Sub-commands
// ---------------------------------------------------------------------------------------------
fn arg(args: &[String], name: &str) -> Option<String> {
    args.iter().position(|a| a == name).and_then(|i| args.get(i + 1).cloned())
}

/// `p3r gadgets --in cases.ndjson --seed N --out result.json [--threads T]`
pub fn cmd(args: &[String]) -> i32 {
    let input = arg(args, "--in").expect("--in");
    let seed: u64 = arg(args, "--seed").and_then(|s| s.parse().ok()).unwrap_or(1);
    let out = arg(args, "--out").expect("--out");
    let threads: usize = arg(args, "--threads").and_then(|s| s.parse().ok()).unwrap_or(16);
    let f = std::fs::File::open(&input).expect("open input");
    let lines: Vec<String> = BufReader::new(f).lines().map(|l| l.unwrap()).filter(|l| !l.trim().is_empty()).collect();
    let nlines = lines.len();
    let chunk = nlines.div_ceil(threads.max(1)).max(1);
    let stats = Mutex::new(BTreeMap::<String, u64>::new());
    let groups = Mutex::new(BTreeMap::<(String, String), (u64, Value)>::new());
    let undefined = Mutex::new(BTreeMap::<String, (u64, Value)>::new());
    let contract = Mutex::new(BTreeMap::<String, (u64, Value)>::new());
    let samples = Mutex::new(Vec::<Value>::new());
    let errors = Mutex::new(Vec::<String>::new());
    std::thread::scope(|sc| {
        for (ti, part) in lines.chunks(chunk).enumerate() {
            let (stats, groups, undefined, contract, samples, errors) = (&stats, &groups, &undefined, &contract, &samples, &errors);
            sc.spawn(move || {
                let ctx = Ctx::new();
                let mut t = BTreeMap::<String, u64>::new();
                for (li, line) in part.iter().enumerate() {
                    let gidx = (ti * chunk + li) as u64;
                    let case: Value = match serde_json::from_str(line) {
                        Ok(v) => v,
                        Err(e) => {
                            *t.entry("bad_lines".into()).or_default() += 1;
                            errors.lock().unwrap().push(format!("line {gidx}: {e}"));
                            continue;
                        }
                    };
                    let gadget = get_str(&case, "gadget", "?").to_string();
                    let field = get_str(&case, "field", "bb_d4").to_string();
                    *t.entry("cases".into()).or_default() += 1;
                    *t.entry(format!("cases:{gadget}")).or_default() += 1;
                    let o = match catch_unwind(AssertUnwindSafe(|| ctx.run_case(&case, seed.wrapping_mul(1_000_003).wrapping_add(gidx)))) {
                        Ok(o) => o,
                        Err(p) => {
                            *t.entry("driver_panics".into()).or_default() += 1;
                            errors.lock().unwrap().push(format!("line {gidx}: driver panic: {}", panic_msg(p)));
                            continue;
                        }
                    };
                    *t.entry("values_compared".into()).or_default() += o.compared as u64;
                    let shape = o.shapes.join("+");
                    let (key, kind) = match o.status {
                        Status::Agree => ("agree", None),
                        Status::Differs => ("differs", Some("gadget-differs-from-native")),
                        Status::Panics => ("panics", Some("gadget-panics")),
                        Status::BuildError => ("build_error", Some("gadget-build-error")),
                        Status::NativeUndefined => ("native_undefined", None),
                        Status::OutOfContract => ("out_of_contract", None),
                        Status::NotApplicable => ("not_applicable", None),
                        Status::BadCase => ("bad_case", None),
                        Status::NeedsHook => ("needs_hook", None),
                    };
                    *t.entry(key.to_string()).or_default() += 1;
                    *t.entry(format!("{key}:{gadget}")).or_default() += 1;
                    if let Some(kind) = kind {
                        let sig = format!("{kind}@{gadget}+{field}+{shape}");
                        let mut g = groups.lock().unwrap();
                        let e = g.entry((kind.to_string(), sig)).or_insert((0, json!({"case": case, "detail": o.detail})));
                        e.0 += 1;
                    }
                    if o.status == Status::NativeUndefined {
                        let what = o.circuit_when_native_undefined.clone().unwrap_or_default();
                        let what_class = what.split(':').next().unwrap_or("").to_string();
                        *t.entry(format!("native_undefined_and_{what_class}")).or_default() += 1;
                        let mut u = undefined.lock().unwrap();
                        let shape_no_shift = o.shapes.iter().filter(|s| !s.starts_with("shift-")).cloned().collect::<Vec<_>>().join("+");
                        let e = u.entry(format!("{gadget}+{shape_no_shift}=>{what_class}")).or_insert((0, json!({"case": case, "detail": o.detail, "circuit": what})));
                        e.0 += 1;
                    }
                    if o.status == Status::OutOfContract || o.status == Status::BadCase {
                        let mut u = contract.lock().unwrap();
                        let e = u.entry(format!("{key}:{gadget}+{shape}")).or_insert((0, json!({"case": case, "why": o.detail})));
                        e.0 += 1;
                    }
                    if gidx % (nlines as u64 / 8).max(1) == 0 {
                        samples.lock().unwrap().push(json!({"case": case, "status": key, "shapes": o.shapes, "compared": o.compared}));
                    }
                }
                let mut s = stats.lock().unwrap();
                for (k, v) in t {
                    *s.entry(k).or_default() += v;
                }
            });
        }
    });
    let findings: Vec<Value> = groups
        .lock()
        .unwrap()
        .iter()
        .map(|((k, s), (n, d))| json!({"property": "C20", "kind": k, "signature": s, "count": n, "example": d}))
        .collect();
    let und: Vec<Value> = undefined.lock().unwrap().iter().map(|(k, (n, d))| json!({"class": k, "count": n, "example": d})).collect();
    let con: Vec<Value> = contract.lock().unwrap().iter().map(|(k, (n, d))| json!({"class": k, "count": n, "example": d})).collect();
    let result = json!({
        "stats": *stats.lock().unwrap(),
        "findings": findings,
        "native_undefined": und,
        "out_of_contract": con,
        "samples": *samples.lock().unwrap(),
        "errors": *errors.lock().unwrap(),
        "hook": cfg!(p3r_verif),
    });
    std::fs::write(&out, serde_json::to_string_pretty(&result).unwrap()).unwrap();
    0
}

/// A family of cases covering every gadget and every size-dependent branch.
pub fn generate() -> Vec<Value> {
    let mut v: Vec<Value> = vec![];
    let fields = ["bb_d4", "kb_d4", "gl_d2", "kb_d5"];
    let all_fields = ["bb_d4", "kb_d4", "gl_d2", "kb_d4_hiding", "kb_d5"];
    // selectors / vanishing: log_n 0..5, every shift kind, every point kind
    for field in all_fields {
        for log_n in 0..=5usize {
            for shift in ["one", "generator", "quotient", "random"] {
                for point in ["random", "random_base", "zero", "one", "in_domain"] {
                    v.push(json!({"spec": "Gadgets", "gadget": "selectors", "field": field, "log_n": log_n, "shift": shift, "point": point}));
                    if field != "kb_d4_hiding" || log_n < 3 {
                        v.push(json!({"spec": "Gadgets", "gadget": "vanishing", "field": field, "log_n": log_n, "shift": shift, "point": point}));
                    }
                }
                if shift == "one" || shift == "generator" {
                    // first and last row of the domain explicitly
                    for k in [0usize, (1usize << log_n) - 1] {
                        v.push(json!({"spec": "Gadgets", "gadget": "selectors", "field": field, "log_n": log_n, "shift": shift, "point": "in_domain", "k": k}));
                    }
                }
            }
        }
    }
    // large domains
    for field in fields {
        for log_n in [10usize, 20, 24] {
            v.push(json!({"spec": "Gadgets", "gadget": "selectors", "field": field, "log_n": log_n, "shift": "one", "point": "random"}));
            v.push(json!({"spec": "Gadgets", "gadget": "vanishing", "field": field, "log_n": log_n, "shift": "generator", "point": "random"}));
        }
    }
    for (field, adicity) in [("bb_d4", 27usize), ("kb_d4", 24), ("gl_d2", 32), ("kb_d5", 24)] {
        // the largest domain of the field, and one beyond it (not constructible)
        for log_n in [adicity - 1, adicity, adicity + 1] {
            v.push(json!({"spec": "Gadgets", "gadget": "selectors", "field": field, "log_n": log_n, "shift": "generator", "point": "random"}));
            v.push(json!({"spec": "Gadgets", "gadget": "vanishing", "field": field, "log_n": log_n, "shift": "one", "point": "random"}));
        }
        for (log_n, period_log) in [(12usize, 0usize), (12, 3), (16, 5), (20, 1), (adicity, 2)] {
            v.push(json!({"spec": "Gadgets", "gadget": "periodic", "field": field, "log_n": log_n, "period_log": period_log, "shift": "one", "point": "random"}));
        }
        for (log_n, chunks, zk) in [(10usize, 2usize, false), (16, 4, true), (20, 8, false), (adicity - 2, 4, false), (adicity - 1, 4, true), (adicity, 2, false)] {
            v.push(json!({"spec": "Gadgets", "gadget": "quotient_recompose", "field": field, "log_n": log_n, "chunks": chunks, "zk": zk, "point": "random"}));
        }
    }
    // quotient recomposition: log_n 0..5, chunks 0..4 and 8, zk on/off, every point kind
    for field in all_fields {
        for log_n in 0..=5usize {
            for chunks in [0usize, 1, 2, 3, 4, 8] {
                for zk in [false, true] {
                    for point in ["random", "random_base", "zero", "one"] {
                        if (point == "zero" || point == "one" || point == "random_base") && log_n > 2 {
                            continue;
                        }
                        v.push(json!({"spec": "Gadgets", "gadget": "quotient_recompose", "field": field, "log_n": log_n, "chunks": chunks, "zk": zk, "point": point}));
                    }
                }
            }
        }
    }
    // periodic columns: every period for log_n 0..5, shifts, points; several columns; invalid lengths
    for field in all_fields {
        for log_n in 0..=5usize {
            for period_log in 0..=log_n {
                for shift in ["one", "generator"] {
                    for point in ["random", "random_base", "in_domain", "one"] {
                        if field == "kb_d4_hiding" && point != "random" {
                            continue;
                        }
                        v.push(json!({"spec": "Gadgets", "gadget": "periodic", "field": field, "log_n": log_n, "period_log": period_log, "shift": shift, "point": point}));
                    }
                }
            }
            v.push(json!({"spec": "Gadgets", "gadget": "periodic", "field": field, "log_n": log_n, "period_logs": (0..=log_n).collect::<Vec<_>>(), "shift": "one", "point": "random"}));
            v.push(json!({"spec": "Gadgets", "gadget": "periodic", "field": field, "log_n": log_n, "period_logs": [], "shift": "one", "point": "random"}));
            v.push(json!({"spec": "Gadgets", "gadget": "periodic", "field": field, "log_n": log_n, "period_log": 0, "shift": "one", "point": "zero"}));
            v.push(json!({"spec": "Gadgets", "gadget": "periodic", "field": field, "log_n": log_n, "period": 3, "shift": "one", "point": "random"}));
            v.push(json!({"spec": "Gadgets", "gadget": "periodic", "field": field, "log_n": log_n, "period": 2usize << log_n, "shift": "one", "point": "random"}));
            v.push(json!({"spec": "Gadgets", "gadget": "periodic", "field": field, "log_n": log_n, "period": 0, "shift": "one", "point": "random"}));
        }
    }
    for field in fields {
        // polynomial evaluation: lengths 1..8, 16, 32; point kinds
        for len in (1..=8usize).chain([16, 32]) {
            for point in ["random_base", "random", "zero", "one"] {
                v.push(json!({"spec": "Gadgets", "gadget": "eval_poly", "field": field, "len": len, "point": point}));
            }
        }
        v.push(json!({"spec": "Gadgets", "gadget": "eval_poly", "field": field, "len": 0}));
        // exponentiation by a constant: 0..20 and a few large
        for e in (0..=20u64).chain([31, 32, 33, 63, 64, 65, 127, 255, 256, 1000, 65535, 65536, 1 << 20, (1 << 31) - 1, 1 << 31, (1u64 << 32) - 1, 1u64 << 32, (1u64 << 40) + 12345]) {
            v.push(json!({"spec": "Gadgets", "gadget": "exp_const", "field": field, "exponent": e}));
        }
        for e in [1u64, 2, 3, 7] {
            for point in ["zero", "one"] {
                v.push(json!({"spec": "Gadgets", "gadget": "exp_const", "field": field, "exponent": e, "point": point}));
            }
        }
    }
    // index-dependent points: every index for small heights
    for field in fields {
        let max_h = if field == "bb_d4" { 5 } else { 4 };
        for lmh in 0..=max_h {
            for lf in 0..=lmh {
                for index in 0..(1usize << lmh) {
                    v.push(json!({"spec": "Gadgets", "gadget": "final_query_point", "field": field, "log_max_height": lmh, "log_final": lf, "index": index}));
                }
            }
        }
        v.push(json!({"spec": "Gadgets", "gadget": "final_query_point", "field": field, "log_max_height": 20, "log_final": 3, "index": 0xABCDE}));
        // fold schedules: every composition of at most 3 phases with arities up to 8 (16 for one schedule)
        let mut schedules: Vec<Vec<usize>> = vec![];
        for a in 1..=4usize {
            schedules.push(vec![a]);
            for b in 1..=3usize {
                schedules.push(vec![a, b]);
                for c in 1..=2usize {
                    if a <= 3 {
                        schedules.push(vec![a, b, c]);
                    }
                }
            }
        }
        for s in &schedules {
            let total: usize = s.iter().sum();
            for extra in [0usize, 1, 2] {
                let lmh = total + extra;
                if lmh > 6 {
                    continue;
                }
                let step = if lmh >= 6 && field != "bb_d4" { 5 } else { 1 };
                for index in (0..(1usize << lmh)).step_by(step) {
                    v.push(json!({"spec": "Gadgets", "gadget": "subgroup_starts", "field": field, "log_height": lmh, "log_arities": s, "index": index}));
                    if index % 3 == 0 || lmh <= 3 {
                        v.push(json!({"spec": "Gadgets", "gadget": "fold_chain", "field": field, "log_height": lmh, "log_arities": s, "index": index, "roll_in": index % 2 == 0}));
                    }
                }
            }
        }
        for index in 0..16usize {
            v.push(json!({"spec": "Gadgets", "gadget": "subgroup_starts", "field": field, "log_height": 4, "log_arity": 2, "index": index}));
            v.push(json!({"spec": "Gadgets", "gadget": "fold_chain", "field": field, "log_height": 4, "log_arity": 1, "phases": 3, "index": index, "roll_in": true, "precomputed_beta_pow": false}));
            v.push(json!({"spec": "Gadgets", "gadget": "fold_chain", "field": field, "log_height": 4, "log_arities": [2, 1], "index": index, "roll_in": true, "precomputed_beta_pow": false}));
        }
        v.push(json!({"spec": "Gadgets", "gadget": "subgroup_starts", "field": field, "log_height": 18, "log_arities": [3, 3, 2, 1, 4], "index": 0x2F0F3}));
        v.push(json!({"spec": "Gadgets", "gadget": "fold_chain", "field": field, "log_height": 18, "log_arities": [3, 3, 2, 1, 4], "index": 0x2F0F3, "roll_in": true}));
        // evaluation points of open_input: every subset of heights for a small global height
        for lg in 0..=4usize {
            for mask in 1u32..(1 << (lg + 1)) {
                let heights: Vec<usize> = (0..=lg).rev().filter(|h| mask & (1 << h) != 0).collect();
                let step = if lg == 4 { 3 } else { 1 };
                for index in (0..(1usize << lg)).step_by(step) {
                    v.push(json!({"spec": "Gadgets", "gadget": "eval_points", "field": field, "log_global_max_height": lg, "heights": heights, "index": index}));
                }
            }
        }
        v.push(json!({"spec": "Gadgets", "gadget": "eval_points", "field": field, "log_global_max_height": 21, "heights": [21, 17, 9, 2], "index": 0x1A2B3C}));
    }
    // zeta inside a quotient chunk domain (native: defined)
    for field in fields {
        for (log_n, chunks) in [(2usize, 2usize), (3, 4), (1, 1), (3, 1)] {
            v.push(json!({"spec": "Gadgets", "gadget": "quotient_recompose", "field": field, "log_n": log_n, "chunks": chunks, "zk": false, "point": "in_chunk_domain"}));
        }
    }
    v
}

/// `p3r gadgets-gen --out cases.ndjson`
pub fn cmd_gen(args: &[String]) -> i32 {
    let out = arg(args, "--out").expect("--out");
    let cases = generate();
    let mut s = String::new();
    for c in &cases {
        s.push_str(&c.to_string());
        s.push('\n');
    }
    std::fs::write(&out, s).unwrap();
    eprintln!("{} cases", cases.len());
    0
}
