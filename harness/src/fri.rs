//! C07 — replay of `Fri` cases into the real native FRI verifier (`TwoAdicFriPcs::verify`, p3-fri 0.6.3)
//! and the real in-circuit FRI verifier (`RecursivePcs for TwoAdicFriPcs`: `get_challenges_circuit` +
//! `verify_circuit` -> `verify_fri_circuit`, with the in-circuit duplex challenger and recursive MMCS).
//!
//! One case = FRI parameters + matrix shapes + opening-point mode + one fault.  The driver proves honestly,
//! applies the fault to the *statement* (commitments, claimed evaluations, proof) that is then handed to BOTH
//! verifiers, and compares accept/reject with satisfiable/unsatisfiable.
use std::panic::{AssertUnwindSafe, catch_unwind};

use serde::{Deserialize, Serialize};
use serde_json::{Value, json};

#[derive(Clone, Debug, Serialize, Deserialize)]
pub struct MatSpec {
    pub log_h: usize,
    pub w: usize,
}

fn shared() -> String {
    "shared".into()
}

#[derive(Clone, Debug, Serialize, Deserialize)]
pub struct BatchSpec {
    pub mats: Vec<MatSpec>,
    /// "shared" (one point, one target), "distinct" (matrix i opened at point i mod 2),
    /// "two" (every matrix opened at both points), "aliased" (one point value, one target per matrix — what tests/fri.rs does)
    #[serde(default = "shared")]
    pub points: String,
}

#[derive(Clone, Debug, Serialize, Deserialize)]
pub struct FriCase {
    #[serde(default)]
    pub spec: String,
    pub cfg: String,
    pub log_blowup: usize,
    pub num_queries: usize,
    pub log_final_poly_len: usize,
    pub max_log_arity: usize,
    /// Merkle cap height of the MMCS (input and commit-phase trees); trees with fewer layers get a shorter cap
    #[serde(default)]
    pub cap_height: usize,
    #[serde(default)]
    pub pow_bits: usize,
    #[serde(default)]
    pub query_pow_bits: usize,
    pub batches: Vec<BatchSpec>,
    #[serde(default)]
    pub fault: Value,
}

impl FriCase {
    pub fn fault_kind(&self) -> String {
        self.fault.get("kind").and_then(|k| k.as_str()).unwrap_or("none").to_string()
    }
    fn fi(&self, name: &str) -> usize {
        self.fault.get(name).and_then(|v| v.as_u64()).unwrap_or(0) as usize
    }
    fn fs(&self, name: &str) -> String {
        self.fault.get(name).and_then(|v| v.as_str()).unwrap_or("").to_string()
    }
}

/// Verdict of one side. `ok` is the property-level observable.
#[derive(Clone, Debug, Default, Serialize)]
pub struct Verdict {
    pub ok: bool,
    pub panicked: bool,
    /// circuit only: the verifier circuit could not be constructed (Err from verify_circuit / build)
    pub build_error: bool,
    pub msg: String,
}

#[derive(Clone, Debug, Default, Serialize)]
pub struct FriOutcome {
    /// the real prover / PCS refused the parameter set (message) — not a finding
    pub unsupported: Option<String>,
    /// the fault addresses a part of the proof that does not exist for this shape
    pub fault_inapplicable: Option<String>,
    pub native_honest: Verdict,
    pub native: Verdict,
    pub circuit: Verdict,
    pub log_arities: Vec<usize>,
    /// number of cap entries of every input commitment / every commit-phase commitment of the honest proof
    pub roots_input: Vec<usize>,
    pub roots_commit: Vec<usize>,
    pub fault_site: Value,
}

fn panic_msg(p: Box<dyn std::any::Any + Send>) -> String {
    if let Some(s) = p.downcast_ref::<&str>() {
        s.to_string()
    } else if let Some(s) = p.downcast_ref::<String>() {
        s.clone()
    } else {
        "panic (non-string payload)".into()
    }
}

fn short(s: String) -> String {
    s.chars().take(300).collect()
}

/// Shape tags of a case (for finding signatures).
pub fn shapes(case: &FriCase, log_arities: &[usize]) -> Vec<String> {
    let mut v = vec![format!("blowup{}", case.log_blowup)];
    let uniform = log_arities.windows(2).all(|w| w[0] == w[1]);
    v.push(if log_arities.is_empty() { "arity-none" } else if uniform { "arity-uniform" } else { "arity-mixed" }.into());
    v.push(format!("log-arity-max{}", log_arities.iter().max().copied().unwrap_or(0)));
    v.push(format!("final-len{}", 1usize << case.log_final_poly_len));
    if case.pow_bits > 0 || case.query_pow_bits > 0 {
        v.push("pow".into());
    }
    let mut modes: Vec<&str> = case.batches.iter().map(|b| b.points.as_str()).collect();
    modes.sort_unstable();
    modes.dedup();
    v.push(format!("points-{}", modes.join("-")));
    let hs: Vec<usize> = case.batches.iter().flat_map(|b| b.mats.iter().map(|m| m.log_h)).collect();
    v.push(if hs.iter().all(|h| *h == hs[0]) { "heights-equal".into() } else { "heights-mixed".into() });
    if hs.iter().any(|h| *h == 0) {
        v.push("has-height-equal-blowup".into());
    }
    if case.batches.len() > 1 {
        v.push("multi-batch".into());
        let mx: Vec<usize> = case.batches.iter().map(|b| b.mats.iter().map(|m| m.log_h).max().unwrap_or(0)).collect();
        if mx.iter().any(|h| *h != mx[0]) {
            v.push("batch-max-heights-differ".into());
        }
    }
    v.push(format!("fault-{}", case.fault_kind().replace('_', "-")));
    v
}

macro_rules! fri_cfg {
    ($modname:ident, $params:ident, $permfn:path, $p2air:ident, $newcc:ident, $p2cfg:ident) => {
        pub mod $modname {
            use super::*;
            use p3_challenger::{CanObserve, FieldChallenger};
            use p3_circuit::CircuitBuilder;
            use p3_circuit::ops::{Poseidon2Config, generate_poseidon2_trace, generate_recompose_trace};
            use p3_commit::Pcs;
            use p3_field::coset::TwoAdicMultiplicativeCoset;
            use p3_field::{Field, PrimeCharacteristicRing};
            use p3_fri::FriParameters;
            use p3_matrix::dense::RowMajorMatrix;
            use p3_poseidon2_circuit_air::$p2air;
            use p3_recursion::pcs::fri::{FriProofTargets, InputProofTargets, MerkleCapTargets, RecExtensionValMmcs, RecValMmcs, Witness as RecWitness};
            use p3_recursion::pcs::set_fri_mmcs_private_data;
            use p3_recursion::traits::{RecursiveChallenger, RecursivePcs};
            use p3_recursion::types::{OpenedValuesTargets, OpenedValuesTargetsWithLookups};
            use p3_recursion::verifier::ObservableCommitment;
            use p3_recursion::{CircuitChallenger, FriVerifierParams, Recursive, Target};
            use p3_symmetric::MerkleCap;
            use p3_test_utils::$params::*;
            use rand::SeedableRng;
            use rand::rngs::StdRng;

            type RecVal = RecValMmcs<F, DIGEST_ELEMS, MyHash, MyCompress>;
            type RecExt = RecExtensionValMmcs<F, Challenge, DIGEST_ELEMS, RecVal>;
            type InProof = InputProofTargets<F, Challenge, RecVal>;
            type FriTargets = FriProofTargets<F, Challenge, RecExt, InProof, RecWitness<F>>;
            type Dom = TwoAdicMultiplicativeCoset<F>;
            type Com = <MyPcs as Pcs<Challenge, Challenger>>::Commitment;
            type Proof = <MyPcs as Pcs<Challenge, Challenger>>::Proof;
            type CapT = MerkleCapTargets<F, DIGEST_ELEMS>;

            fn perm() -> Perm {
                $permfn()
            }

            /// Everything the verifiers are given.
            #[derive(Clone)]
            struct Statement {
                sizes: Vec<F>,
                commits: Vec<Com>,
                /// batch -> matrix -> points
                points: Vec<Vec<Vec<Challenge>>>,
                /// batch -> matrix -> point -> column
                opened: Vec<Vec<Vec<Vec<Challenge>>>>,
                proof: Proof,
            }

            fn domain(log_h: usize) -> Dom {
                TwoAdicMultiplicativeCoset::new(F::GENERATOR, log_h).expect("two-adic size")
            }

            fn make_pcs(case: &FriCase) -> MyPcs {
                let p = perm();
                let val_mmcs = MyMmcs::new(MyHash::new(p.clone()), MyCompress::new(p), case.cap_height);
                let fri = FriParameters {
                    log_blowup: case.log_blowup,
                    log_final_poly_len: case.log_final_poly_len,
                    max_log_arity: case.max_log_arity,
                    num_queries: case.num_queries,
                    commit_proof_of_work_bits: case.pow_bits,
                    query_proof_of_work_bits: case.query_pow_bits,
                    mmcs: ChallengeMmcs::new(val_mmcs.clone()),
                };
                MyPcs::new(Dft::default(), val_mmcs, fri)
            }

            /// Honest proving, exactly as tests/fri.rs `produce_inputs_multi` (plus a second opening point).
            fn prove(case: &FriCase, pcs: &MyPcs, seed: u64) -> Statement {
                let mut rng = StdRng::seed_from_u64(seed);
                let sizes: Vec<F> = case.batches.iter().flat_map(|b| b.mats.iter().map(|m| F::from_usize(m.log_h))).collect();
                let mut ch = Challenger::new(perm());
                ch.observe_slice(&sizes);
                let mut data = Vec::new();
                let mut commits = Vec::new();
                for b in &case.batches {
                    let evals: Vec<(Dom, RowMajorMatrix<F>)> =
                        b.mats.iter().map(|m| (domain(m.log_h), RowMajorMatrix::<F>::rand(&mut rng, 1 << m.log_h, m.w))).collect();
                    let (c, d) = <MyPcs as Pcs<Challenge, Challenger>>::commit(pcs, evals);
                    ch.observe(c.clone());
                    commits.push(c);
                    data.push(d);
                }
                let zeta: Challenge = ch.sample_algebra_element();
                let zeta2: Challenge = ch.sample_algebra_element();
                let points: Vec<Vec<Vec<Challenge>>> = case
                    .batches
                    .iter()
                    .map(|b| {
                        (0..b.mats.len())
                            .map(|i| match b.points.as_str() {
                                "distinct" => vec![if i % 2 == 0 { zeta } else { zeta2 }],
                                "two" => vec![zeta, zeta2],
                                _ => vec![zeta],
                            })
                            .collect()
                    })
                    .collect();
                let open_data: Vec<_> = data.iter().zip(points.iter()).map(|(d, p)| (d, p.clone())).collect();
                if case.fault_kind() == "skip_height" {
                    // a prover that withholds the reduced opening of one input height from the fold chain (see `open_withholding`)
                    let (opened, _) = <MyPcs as Pcs<Challenge, Challenger>>::open(pcs, open_data.clone(), &mut ch.clone());
                    let proof = open_withholding(case, &open_data, &opened, &mut ch);
                    return Statement { sizes, commits, points, opened, proof };
                }
                let (opened, proof) = <MyPcs as Pcs<Challenge, Challenger>>::open(pcs, open_data, &mut ch);
                Statement { sizes, commits, points, opened, proof }
            }

            /// The input height a dishonest prover leaves out of the fold chain: the tallest height class strictly between the
            /// final height and the global maximum (None: every shape of this case has no such class).
            fn withheld_height(case: &FriCase) -> Option<usize> {
                let hs: Vec<usize> = case.batches.iter().flat_map(|b| b.mats.iter().map(|m| m.log_h + case.log_blowup)).collect();
                let top = *hs.iter().max()?;
                let fin = case.log_blowup + case.log_final_poly_len;
                hs.iter().copied().filter(|&h| h < top && h > fin).max()
            }

            /// The body of `TwoAdicFriPcs::open` (p3-fri 0.6.3) written out on the public `prove_fri`, with the reduced-opening
            /// vector of `withheld_height` NOT handed to the commit phase: the fold schedule is then chosen as if that height did
            /// not exist (with max_log_arity >= 2 it steps over it).  The claimed evaluations stay the honest ones.
            fn open_withholding(
                case: &FriCase,
                open_data: &[(&<MyPcs as Pcs<Challenge, Challenger>>::ProverData, Vec<Vec<Challenge>>)],
                opened: &[Vec<Vec<Vec<Challenge>>>],
                ch: &mut Challenger,
            ) -> Proof {
                use p3_challenger::FieldChallenger;
                use p3_commit::Mmcs;
                use p3_field::TwoAdicField;
                use p3_matrix::Matrix;
                let p = perm();
                let val_mmcs = MyMmcs::new(MyHash::new(p.clone()), MyCompress::new(p), case.cap_height);
                let fri = FriParameters {
                    log_blowup: case.log_blowup,
                    log_final_poly_len: case.log_final_poly_len,
                    max_log_arity: case.max_log_arity,
                    num_queries: case.num_queries,
                    commit_proof_of_work_bits: case.pow_bits,
                    query_proof_of_work_bits: case.query_pow_bits,
                    mmcs: ChallengeMmcs::new(val_mmcs.clone()),
                };
                for round in opened {
                    for mat in round {
                        for point in mat {
                            ch.observe_algebra_slice(point);
                        }
                    }
                }
                let alpha: Challenge = ch.sample_algebra_element();
                // log_height -> (alpha power, reduced opening vector in bit-reversed order)
                let mut reduced: std::collections::BTreeMap<usize, (Challenge, Vec<Challenge>)> = std::collections::BTreeMap::new();
                for ((data, points), claimed_round) in open_data.iter().zip(opened) {
                    let mats = val_mmcs.get_matrices(*data);
                    for ((mat, points_for_mat), claimed_mat) in mats.iter().zip(points).zip(claimed_round) {
                        let height = mat.height();
                        let width = mat.width();
                        let log_height = p3_util::log2_strict_usize(height);
                        let (alpha_pow, ro) = reduced.entry(log_height).or_insert_with(|| (Challenge::ONE, vec![Challenge::ZERO; height]));
                        let w = F::two_adic_generator(log_height);
                        for (z, ys) in points_for_mat.iter().zip(claimed_mat) {
                            for (i, ro_i) in ro.iter_mut().enumerate() {
                                let x = F::GENERATOR * w.exp_u64(p3_util::reverse_bits_len(i, log_height) as u64);
                                let inv = (*z - x).inverse();
                                let row = &mat.values[i * width..(i + 1) * width];
                                let mut ap = *alpha_pow;
                                let mut acc = Challenge::ZERO;
                                for (y, p_at_x) in ys.iter().zip(row) {
                                    acc += ap * (*y - *p_at_x);
                                    ap *= alpha;
                                }
                                *ro_i += acc * inv;
                            }
                            *alpha_pow *= alpha.exp_u64(width as u64);
                        }
                    }
                }
                let log_global_max_height = *reduced.keys().next_back().expect("at least one matrix");
                let withheld = withheld_height(case);
                let fri_inputs: Vec<Vec<Challenge>> = reduced.into_iter().rev().filter(|(h, _)| Some(*h) != withheld).map(|(_, (_, ro))| ro).collect();
                let folding: p3_fri::TwoAdicFriFoldingForMmcs<F, MyMmcs> = p3_fri::TwoAdicFriFolding(core::marker::PhantomData);
                p3_fri::prover::prove_fri::<_, F, Challenge, MyMmcs, ChallengeMmcs, Challenger>(&folding, &fri, fri_inputs, ch, log_global_max_height, open_data, &val_mmcs)
            }

            fn native_verify(case: &FriCase, pcs: &MyPcs, st: &Statement) -> Verdict {
                let r = catch_unwind(AssertUnwindSafe(|| {
                    let mut ch = Challenger::new(perm());
                    ch.observe_slice(&st.sizes);
                    for c in &st.commits {
                        ch.observe(c.clone());
                    }
                    let _z: Challenge = ch.sample_algebra_element();
                    let _z2: Challenge = ch.sample_algebra_element();
                    let cwp = st
                        .commits
                        .iter()
                        .enumerate()
                        .map(|(b, c)| {
                            let mats = case.batches[b]
                                .mats
                                .iter()
                                .enumerate()
                                .map(|(m, ms)| (domain(ms.log_h), st.points[b][m].iter().copied().zip(st.opened[b][m].iter().cloned()).collect::<Vec<_>>()))
                                .collect::<Vec<_>>();
                            (c.clone(), mats)
                        })
                        .collect::<Vec<_>>();
                    <MyPcs as Pcs<Challenge, Challenger>>::verify(pcs, cwp, &st.proof, &mut ch).map_err(|e| format!("{e:?}"))
                }));
                match r {
                    Ok(Ok(())) => Verdict { ok: true, ..Default::default() },
                    Ok(Err(e)) => Verdict { ok: false, msg: short(e), ..Default::default() },
                    Err(p) => Verdict { ok: false, panicked: true, msg: short(panic_msg(p)), ..Default::default() },
                }
            }

            fn bump_cap(c: &Com, word: usize) -> Com {
                let mut roots: Vec<[F; DIGEST_ELEMS]> = c.roots().to_vec();
                let n = roots.len() * DIGEST_ELEMS;
                let w = word % n;
                roots[w / DIGEST_ELEMS][w % DIGEST_ELEMS] += F::ONE;
                MerkleCap::new(roots)
            }

            /// Apply the fault in place. Returns the site description or why it does not apply.
            fn apply_fault(case: &FriCase, st: &mut Statement) -> Result<Value, String> {
                let kind = case.fault_kind();
                let nq = st.proof.query_proofs.len();
                // the altered element gets +1 on basis coefficient `coef` (default 0)
                let coef = case.fi("coef") % D;
                let unit = <Challenge as p3_field::BasedVectorSpace<F>>::from_basis_coefficients_fn(|j| if j == coef { F::ONE } else { F::ZERO });
                let need = |n: usize, what: &str| if n == 0 { Err(format!("{what} is empty for this proof shape")) } else { Ok(n) };
                match kind.as_str() {
                    "none" => Ok(json!({"kind": "none"})),
                    // applied while proving (the prover withheld one height class from the fold chain)
                    "skip_height" => match withheld_height(case) {
                        Some(h) => Ok(json!({"kind": kind, "withheld_log_height": h})),
                        None => Err("no input height strictly between the final height and the maximum".into()),
                    },
                    "opened_value" => {
                        let b = case.fi("batch") % need(st.opened.len(), "opened values")?;
                        let m = case.fi("mat") % need(st.opened[b].len(), "batch")?;
                        let p = case.fi("point") % need(st.opened[b][m].len(), "points")?;
                        let c = case.fi("col") % need(st.opened[b][m][p].len(), "columns")?;
                        st.opened[b][m][p][c] += unit;
                        Ok(json!({"kind": kind, "batch": b, "mat": m, "point": p, "col": c, "coef": coef}))
                    }
                    "commit_phase_commit" => {
                        let r = case.fi("round") % need(st.proof.commit_phase_commits.len(), "commit_phase_commits")?;
                        st.proof.commit_phase_commits[r] = bump_cap(&st.proof.commit_phase_commits[r], case.fi("word"));
                        Ok(json!({"kind": kind, "round": r, "word": case.fi("word") % DIGEST_ELEMS}))
                    }
                    "final_poly" => {
                        let c = case.fi("coeff") % need(st.proof.final_poly.len(), "final_poly")?;
                        st.proof.final_poly[c] += unit;
                        Ok(json!({"kind": kind, "coeff": c, "coef": coef}))
                    }
                    "query_opened_row" => {
                        let q = case.fi("query") % need(nq, "query_proofs")?;
                        let ip = &mut st.proof.query_proofs[q].input_proof;
                        let b = case.fi("batch") % need(ip.len(), "input_proof")?;
                        let m = case.fi("mat") % need(ip[b].opened_values.len(), "opened rows")?;
                        let c = case.fi("col") % need(ip[b].opened_values[m].len(), "row")?;
                        ip[b].opened_values[m][c] += F::ONE;
                        Ok(json!({"kind": kind, "query": q, "batch": b, "mat": m, "col": c}))
                    }
                    "query_sibling" => {
                        let q = case.fi("query") % need(nq, "query_proofs")?;
                        let co = &mut st.proof.query_proofs[q].commit_phase_openings;
                        let s = case.fi("step") % need(co.len(), "commit_phase_openings")?;
                        let i = case.fi("idx") % need(co[s].sibling_values.len(), "sibling_values")?;
                        co[s].sibling_values[i] += unit;
                        Ok(json!({"kind": kind, "query": q, "step": s, "idx": i, "coef": coef, "log_arity": co[s].log_arity}))
                    }
                    "query_merkle" => {
                        let q = case.fi("query") % need(nq, "query_proofs")?;
                        let qp = &mut st.proof.query_proofs[q];
                        let which = case.fs("which");
                        let (path, site): (&mut Vec<[F; DIGEST_ELEMS]>, Value) = if which == "commit" {
                            let s = case.fi("step") % need(qp.commit_phase_openings.len(), "commit_phase_openings")?;
                            (&mut qp.commit_phase_openings[s].opening_proof, json!({"which": "commit", "step": s}))
                        } else {
                            let b = case.fi("batch") % need(qp.input_proof.len(), "input_proof")?;
                            (&mut qp.input_proof[b].opening_proof, json!({"which": "input", "batch": b}))
                        };
                        let l = case.fi("level") % need(path.len(), "merkle path")?;
                        let w = case.fi("word") % DIGEST_ELEMS;
                        path[l][w] += F::ONE;
                        Ok(json!({"kind": kind, "query": q, "site": site, "level": l, "word": w, "path_len": path.len()}))
                    }
                    "pow_witness" => {
                        if case.fs("which") == "commit" {
                            let r = case.fi("round") % need(st.proof.commit_pow_witnesses.len(), "commit_pow_witnesses")?;
                            st.proof.commit_pow_witnesses[r] += F::ONE;
                            Ok(json!({"kind": kind, "which": "commit", "round": r, "bits": case.pow_bits}))
                        } else {
                            st.proof.query_pow_witness += F::ONE;
                            Ok(json!({"kind": kind, "which": "query", "bits": case.query_pow_bits}))
                        }
                    }
                    "log_arity" => {
                        // shape-changing: the schedule is part of the proof (query, step); `all: true` alters every query alike
                        let q = case.fi("query") % need(nq, "query_proofs")?;
                        let s = case.fi("step") % need(st.proof.query_proofs[q].commit_phase_openings.len(), "commit_phase_openings")?;
                        let all = case.fault.get("all").and_then(|v| v.as_bool()).unwrap_or(false);
                        for (qi, qp) in st.proof.query_proofs.iter_mut().enumerate() {
                            if all || qi == q {
                                qp.commit_phase_openings[s].log_arity += 1;
                            }
                        }
                        Ok(json!({"kind": kind, "query": q, "step": s, "all": all}))
                    }
                    "input_commitment" => {
                        let b = case.fi("batch") % need(st.commits.len(), "commitments")?;
                        st.commits[b] = bump_cap(&st.commits[b], case.fi("word"));
                        Ok(json!({"kind": kind, "batch": b, "word": case.fi("word") % DIGEST_ELEMS}))
                    }
                    other => Err(format!("unknown fault kind {other}")),
                }
            }

            /// Build the in-circuit verifier for the shape of `st` and run it on the values of `st`.
            fn circuit_verify(case: &FriCase, pcs: &MyPcs, st: &Statement) -> Verdict {
                // Err((true, msg)) = the verifier circuit could not be constructed; Err((false, msg)) = unsatisfied
                let r = catch_unwind(AssertUnwindSafe(|| -> Result<(), (bool, String)> {
                    let mut b = CircuitBuilder::<Challenge>::new();
                    b.enable_poseidon2_perm::<$p2air, _>(generate_poseidon2_trace::<Challenge, $p2air>, perm());
                    b.enable_recompose::<F>(generate_recompose_trace::<F, Challenge>);
                    let mut pubs: Vec<Challenge> = Vec::new();
                    // 1. matrix sizes (observed first, as in tests/fri.rs)
                    let size_t: Vec<Target> = st.sizes.iter().map(|s| { pubs.push(Challenge::from(*s)); b.public_input() }).collect();
                    // 2. input commitments
                    let commit_t: Vec<CapT> = st.commits.iter().map(|c| {
                        pubs.extend(<CapT as Recursive<Challenge>>::get_values(c));
                        <CapT as Recursive<Challenge>>::new(&mut b, c)
                    }).collect();
                    // 3. opening points: the GIVEN points are inputs (one target per distinct point unless "aliased")
                    let zeta = st.points[0][0][0];
                    let zeta2 = st.points.iter().flatten().flatten().copied().find(|z| *z != zeta);
                    pubs.push(zeta);
                    let zeta_t = b.public_input();
                    let zeta2_t = zeta2.map(|z| { pubs.push(z); b.public_input() });
                    // 4. claimed evaluations + structure
                    let mut coms_t: Vec<(CapT, Vec<(Dom, Vec<(Target, Vec<Target>)>)>)> = Vec::new();
                    for (bi, bs) in case.batches.iter().enumerate() {
                        let mut mats_t = Vec::new();
                        for (mi, ms) in bs.mats.iter().enumerate() {
                            let mut pv = Vec::new();
                            for (pi, z) in st.points[bi][mi].iter().enumerate() {
                                let z_t = if bs.points == "aliased" { pubs.push(*z); b.public_input() } else if *z == zeta { zeta_t } else { zeta2_t.expect("second point") };
                                let fz = &st.opened[bi][mi][pi];
                                pubs.extend(fz.iter().copied());
                                let fz_t: Vec<Target> = (0..fz.len()).map(|_| b.public_input()).collect();
                                pv.push((z_t, fz_t));
                            }
                            mats_t.push((domain(ms.log_h), pv));
                        }
                        coms_t.push((commit_t[bi].clone(), mats_t));
                    }
                    // 5. the opening proof
                    let fri_t = <FriTargets as Recursive<Challenge>>::new(&mut b, &st.proof);
                    pubs.extend(<FriTargets as Recursive<Challenge>>::get_values(&st.proof));
                    let privs = <FriTargets as Recursive<Challenge>>::get_private_values(&st.proof);

                    // transcript, mirroring `native_verify`
                    let mut cc = CircuitChallenger::<WIDTH, RATE, Poseidon2Config>::$newcc();
                    RecursiveChallenger::<F, Challenge>::observe_slice(&mut cc, &mut b, &size_t);
                    for c in &commit_t {
                        RecursiveChallenger::<F, Challenge>::observe_slice(&mut cc, &mut b, &c.to_observation_targets());
                    }
                    let _z = RecursiveChallenger::<F, Challenge>::sample_ext(&mut cc, &mut b);
                    let _z2 = RecursiveChallenger::<F, Challenge>::sample_ext(&mut cc, &mut b);
                    for (_, mats) in &coms_t {
                        for (_, pv) in mats {
                            for (_, fz) in pv {
                                RecursiveChallenger::<F, Challenge>::observe_ext_slice(&mut cc, &mut b, fz);
                            }
                        }
                    }
                    let params = FriVerifierParams::with_mmcs(case.log_blowup, case.log_final_poly_len, case.pow_bits, case.query_pow_bits, Poseidon2Config::$p2cfg);
                    let ov = OpenedValuesTargetsWithLookups::<MyConfig> {
                        opened_values_no_lookups: OpenedValuesTargets {
                            trace_local_targets: vec![], trace_next_targets: vec![], preprocessed_local_targets: None, preprocessed_next_targets: None,
                            quotient_chunks_targets: vec![], random_targets: None, _phantom: core::marker::PhantomData,
                        },
                        permutation_local_targets: vec![], permutation_next_targets: vec![],
                    };
                    let chals = match <MyPcs as RecursivePcs<MyConfig, InProof, FriTargets, CapT, Dom>>::get_challenges_circuit::<WIDTH, RATE, Poseidon2Config>(&mut b, &mut cc, &fri_t, &ov, &params) {
                        Ok(c) => c,
                        Err(e) => return Err((true, format!("get_challenges_circuit: {e:?}"))),
                    };
                    let op_ids = match <MyPcs as RecursivePcs<MyConfig, InProof, FriTargets, CapT, Dom>>::verify_circuit::<WIDTH, RATE, Poseidon2Config>(pcs, &mut b, &chals, &mut cc, &coms_t, &fri_t, &params) {
                        Ok(o) => o,
                        Err(e) => return Err((true, format!("verify_circuit: {e:?}"))),
                    };
                    let circuit = match b.build() {
                        Ok(c) => c,
                        Err(e) => return Err((true, format!("CircuitBuilder::build: {e:?}"))),
                    };
                    let mut r = circuit.runner();
                    if let Err(e) = r.set_public_inputs(&pubs) { return Err((true, format!("set_public_inputs: {e:?}"))); }
                    if let Err(e) = r.set_private_inputs(&privs) { return Err((true, format!("set_private_inputs: {e:?}"))); }
                    // The production helper walks the proof's Merkle paths and the circuit's MMCS rows in lock-step. When it reports a
                    // count mismatch it has already set every sibling the proof contains; the run below then decides satisfiability.
                    let helper = set_fri_mmcs_private_data::<F, Challenge, ChallengeMmcs, MyMmcs, MyHash, MyCompress, DIGEST_ELEMS>(&mut r, &op_ids, &st.proof, Poseidon2Config::$p2cfg);
                    if let Err(e) = helper {
                        return r.run().map(|_| ()).map_err(|re| (false, format!("set_fri_mmcs_private_data: {e}; run: {re:?}")));
                    }
                    r.run().map(|_| ()).map_err(|e| (false, format!("{e:?}")))
                }));
                match r {
                    Ok(Ok(())) => Verdict { ok: true, ..Default::default() },
                    Ok(Err((be, e))) => Verdict { ok: false, build_error: be, msg: short(e), ..Default::default() },
                    Err(p) => Verdict { ok: false, panicked: true, msg: short(panic_msg(p)), ..Default::default() },
                }
            }

            pub fn run_case(case: &FriCase, seed: u64) -> FriOutcome {
                let mut out = FriOutcome::default();
                if case.batches.is_empty() || case.batches.iter().any(|b| b.mats.is_empty() || b.mats.iter().any(|m| m.w == 0)) {
                    out.unsupported = Some("driver: empty batch / zero-width matrix".into());
                    return out;
                }
                // a prover-side fault (skip_height) is applied while proving: the honest reference is proven without it
                let prover_side = case.fault_kind() == "skip_height";
                let honest_case = if prover_side { FriCase { fault: json!({"kind": "none"}), ..case.clone() } } else { case.clone() };
                let proved = catch_unwind(AssertUnwindSafe(|| {
                    let pcs = make_pcs(case);
                    let st = prove(&honest_case, &pcs, seed);
                    (pcs, st)
                }));
                let (pcs, honest) = match proved {
                    Ok(x) => x,
                    Err(p) => {
                        out.unsupported = Some(format!("prover refuses: {}", short(panic_msg(p))));
                        return out;
                    }
                };
                out.log_arities = honest.proof.query_proofs.first().map(|q| q.commit_phase_openings.iter().map(|o| o.log_arity as usize).collect()).unwrap_or_default();
                out.roots_input = honest.commits.iter().map(|c| c.num_roots()).collect();
                out.roots_commit = honest.proof.commit_phase_commits.iter().map(|c| c.num_roots()).collect();
                out.native_honest = native_verify(case, &pcs, &honest);
                let mut st = if prover_side {
                    match catch_unwind(AssertUnwindSafe(|| prove(case, &pcs, seed))) {
                        Ok(st) => st,
                        Err(p) => {
                            out.fault_inapplicable = Some(format!("dishonest prover refuses: {}", short(panic_msg(p))));
                            return out;
                        }
                    }
                } else {
                    honest.clone()
                };
                if prover_side {
                    // report the schedule the dishonest prover followed
                    out.log_arities = st.proof.query_proofs.first().map(|q| q.commit_phase_openings.iter().map(|o| o.log_arity as usize).collect()).unwrap_or_default();
                }
                match apply_fault(case, &mut st) {
                    Ok(site) => out.fault_site = site,
                    Err(why) => {
                        out.fault_inapplicable = Some(why);
                        return out;
                    }
                }
                out.native = native_verify(case, &pcs, &st);
                // self-test of the comparison only: P3R_FRI_SELFTEST=circuit-gets-honest hands the circuit the unaltered statement
                let selftest = std::env::var("P3R_FRI_SELFTEST").map(|v| v == "circuit-gets-honest").unwrap_or(false);
                out.circuit = circuit_verify(case, &pcs, if selftest { &honest } else { &st });
                out
            }
        }
    };
}

fri_cfg!(bb, baby_bear_params, p3_baby_bear::default_babybear_poseidon2_16, BabyBearD4Width16, new_babybear, BABY_BEAR_D4_W16);
fri_cfg!(kb, koala_bear_params, p3_koala_bear::default_koalabear_poseidon2_16, KoalaBearD4Width16, new_koalabear, KOALA_BEAR_D4_W16);

pub fn run_case(case: &FriCase, seed: u64) -> FriOutcome {
    match case.cfg.as_str() {
        "bb_d4_p2" => bb::run_case(case, seed),
        "kb_d4_p2" => kb::run_case(case, seed),
        other => FriOutcome { unsupported: Some(format!("driver: unknown cfg {other}")), ..Default::default() },
    }
}
