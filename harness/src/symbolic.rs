//! C13 — translated AIR constraints evaluate like the native constraint folder.
//!
//! Two kinds of cases (NDJSON, `"spec":"Symbolic"`):
//!  * `"kind":"dag"`: a small expression DAG with sharing.  It is rebuilt as a `SymbolicExpression` /
//!    `SymbolicExpressionExt` with exactly the sharing of the case (one `Arc` per node), compiled by the REAL
//!    `SymbolicCompiler` (`compile_base` with CF = F and CF = EF, `compile_ext`), the circuit is run on seeded
//!    random values and the value of the root is compared with a direct evaluation of the node list.
//!    When the DAG has no extension *variables* it is additionally wrapped into an AIR (`DagAir`) and sent through
//!    the AIR path below (real `eval_folded_circuit` vs native folder).
//!  * `"kind":"air"`: a real AIR of the workspace; `RecursiveAir::eval_folded_circuit` (real) vs
//!    `VerifierConstraintFolderWithLookups` + `LogUpGadget::eval_air_and_lookups` (what `p3_batch_stark::verify`
//!    does), and for lookup-free AIRs also the plain `VerifierConstraintFolder` of `p3_uni_stark::verify`.
use std::panic::{AssertUnwindSafe, catch_unwind};
use std::sync::Arc;

use hashbrown::HashMap;
use p3_air::symbolic::{AirLayout, SymbolicExpr};
use p3_air::{
    Air, AirBuilder, BaseAir, BaseEntry, BaseLeaf, ExtEntry, ExtLeaf, PermutationAirBuilder, RowWindow,
    SymbolicExpression, SymbolicExpressionExt, SymbolicVariable, SymbolicVariableExt, WindowAccess,
};
use p3_baby_bear::BabyBear;
use p3_batch_stark::symbolic::{get_constraint_layout, get_log_num_quotient_chunks, get_symbolic_constraints};
use p3_circuit::symbolic::{ColumnsTargets, RowSelectorsTargets, SymbolicCompiler};
use p3_circuit::{CircuitBuilder, ExprId};
use p3_circuit_prover::air::{AluAir, ConstAir, PublicAir, RecomposeAir};
use p3_circuit_prover::config::BabyBearConfig;
use p3_field::extension::BinomialExtensionField;
use p3_field::{BasedVectorSpace, Field, PrimeCharacteristicRing, PrimeField64};
use p3_lookup::folder::VerifierConstraintFolderWithLookups;
use p3_lookup::{Count, InteractionBuilder, InteractionSymbolicBuilder, LogUpGadget, Lookup, LookupProtocol, Lookups};
use p3_matrix::dense::RowMajorMatrixView;
use p3_matrix::stack::VerticalPair;
use p3_recursion::traits::{LookupMetadata, RecursiveAir};
use p3_recursion::types::RecursiveLagrangeSelectors;
use p3_uni_stark::VerifierConstraintFolder;
use rand::rngs::StdRng;
use rand::{RngExt, SeedableRng};
use serde_json::{Value, json};

use crate::pipeline::Finding;

// The repository's own `MulAir` lives in an integration-test helper file; it is compiled in by path, not copied.
#[allow(dead_code, unused_imports)]
#[path = "/repo/recursion/tests/common/mod.rs"]
mod repo_test_common;

pub type F = BabyBear;
pub type EF = BinomialExtensionField<F, 4>;
type SC = BabyBearConfig;
type SymB<CF> = SymbolicExpression<CF>;
type SymE = SymbolicExpressionExt<F, EF>;

fn fu(x: F) -> u64 {
    x.as_canonical_u64()
}
fn efu(x: EF) -> Vec<u64> {
    x.as_basis_coefficients_slice().iter().map(|c| fu(*c)).collect()
}
fn ef_from(c: &[u64]) -> EF {
    EF::from_basis_coefficients_fn(|i| F::from_u64(*c.get(i).unwrap_or(&0)))
}
fn rand_f(rng: &mut StdRng) -> F {
    F::from_u64(rng.random_range(0..F::ORDER_U64))
}
fn rand_ef(rng: &mut StdRng) -> EF {
    EF::from_basis_coefficients_fn(|_| rand_f(rng))
}
pub fn seeded(seed: u64, idx: u64) -> StdRng {
    StdRng::seed_from_u64(seed.wrapping_mul(0x9E37_79B9_7F4A_7C15).wrapping_add(idx).wrapping_add(0xC13))
}
fn panic_msg(e: Box<dyn std::any::Any + Send>) -> String {
    e.downcast_ref::<String>().cloned().or_else(|| e.downcast_ref::<&str>().map(|s| s.to_string())).unwrap_or_else(|| "panic".into())
}

// ---------------------------------------------------------------------------------------------
// Values of every variable category at one opening point
// ---------------------------------------------------------------------------------------------
#[derive(Clone, Copy, Default, Debug)]
pub struct Widths {
    pub main: usize,
    pub prep: usize,
    pub public: usize,
    pub periodic: usize,
    pub perm: usize,
    pub challenges: usize,
    pub perm_values: usize,
}

#[derive(Clone, Debug)]
pub struct Vals {
    pub sels: [EF; 3],
    pub alpha: EF,
    /// base-field public values (what the native verifier is given); `pubs` is their lift unless `ext_publics`
    pub pubs_base: Vec<F>,
    pub pubs: Vec<EF>,
    pub prep: [Vec<EF>; 2],
    pub main: [Vec<EF>; 2],
    pub periodic: Vec<EF>,
    pub perm: [Vec<EF>; 2],
    pub challenges: Vec<EF>,
    pub perm_values: Vec<EF>,
}

impl Vals {
    pub fn random(w: &Widths, rng: &mut StdRng, ext_publics: bool) -> Self {
        let mut v = |n: usize| (0..n).map(|_| rand_ef(rng)).collect::<Vec<_>>();
        let (sels, alpha) = (v(3), v(1)[0]);
        let (p0, p1, m0, m1, per, q0, q1, ch, pv) = (v(w.prep), v(w.prep), v(w.main), v(w.main), v(w.periodic), v(w.perm), v(w.perm), v(w.challenges), v(w.perm_values));
        let pubs_base: Vec<F> = (0..w.public).map(|_| rand_f(rng)).collect();
        let pubs = if ext_publics { (0..w.public).map(|_| rand_ef(rng)).collect() } else { pubs_base.iter().map(|x| EF::from(*x)).collect() };
        Vals { sels: [sels[0], sels[1], sels[2]], alpha, pubs_base, pubs, prep: [p0, p1], main: [m0, m1], periodic: per, perm: [q0, q1], challenges: ch, perm_values: pv }
    }
    fn to_json(&self) -> Value {
        let l = |v: &Vec<EF>| v.iter().map(|x| efu(*x)).collect::<Vec<_>>();
        json!({"selectors": self.sels.iter().map(|x| efu(*x)).collect::<Vec<_>>(), "alpha": efu(self.alpha), "public": l(&self.pubs),
            "preprocessed": [l(&self.prep[0]), l(&self.prep[1])], "main": [l(&self.main[0]), l(&self.main[1])], "periodic": l(&self.periodic),
            "permutation": [l(&self.perm[0]), l(&self.perm[1])], "challenges": l(&self.challenges), "permutation_values": l(&self.perm_values)})
    }
}

/// Circuit inputs for every variable category, in a fixed order (the way the repository's tests and the
/// recursive verifiers hand opened values to `ColumnsTargets`: one target per value).
struct Inputs {
    sels: [ExprId; 3],
    alpha: ExprId,
    pubs: Vec<ExprId>,
    prep: [Vec<ExprId>; 2],
    main: [Vec<ExprId>; 2],
    periodic: Vec<ExprId>,
    perm: [Vec<ExprId>; 2],
    challenges: Vec<ExprId>,
    perm_values: Vec<ExprId>,
}

impl Inputs {
    fn alloc(cb: &mut CircuitBuilder<EF>, w: &Widths) -> Self {
        let mut v = |n: usize| (0..n).map(|_| cb.public_input()).collect::<Vec<_>>();
        let s = v(3);
        Inputs { sels: [s[0], s[1], s[2]], alpha: v(1)[0], pubs: v(w.public), prep: [v(w.prep), v(w.prep)], main: [v(w.main), v(w.main)],
            periodic: v(w.periodic), perm: [v(w.perm), v(w.perm)], challenges: v(w.challenges), perm_values: v(w.perm_values) }
    }
    fn flat(v: &Vals) -> Vec<EF> {
        let mut o = v.sels.to_vec();
        o.push(v.alpha);
        for part in [&v.pubs, &v.prep[0], &v.prep[1], &v.main[0], &v.main[1], &v.periodic, &v.perm[0], &v.perm[1], &v.challenges, &v.perm_values] {
            o.extend_from_slice(part);
        }
        o
    }
    fn selectors(&self) -> RowSelectorsTargets {
        RowSelectorsTargets { is_first_row: self.sels[0], is_last_row: self.sels[1], is_transition: self.sels[2] }
    }
    fn columns(&self) -> ColumnsTargets<'_> {
        ColumnsTargets { challenges: &self.challenges, public_values: &self.pubs, permutation_local_values: &self.perm[0], permutation_next_values: &self.perm[1],
            permutation_values: &self.perm_values, local_prep_values: &self.prep[0], next_prep_values: &self.prep[1], periodic_values: &self.periodic,
            local_values: &self.main[0], next_values: &self.main[1] }
    }
}

/// Build + run the circuit, read the values of `outs`.
fn run_circuit(cb: CircuitBuilder<EF>, vals: &Vals, outs: &[ExprId]) -> Result<Vec<EF>, (String, String)> {
    let r = catch_unwind(AssertUnwindSafe(|| -> Result<Vec<EF>, (String, String)> {
        let circuit = cb.build().map_err(|e| ("circuit-build-error".to_string(), format!("{e:?}")))?;
        let mut runner = circuit.runner();
        runner.set_public_inputs(&Inputs::flat(vals)).map_err(|e| ("circuit-run-error".to_string(), format!("set_public_inputs: {e:?}")))?;
        let traces = runner.run().map_err(|e| ("circuit-run-error".to_string(), format!("{e:?}")))?;
        outs.iter().map(|e| {
            let w = circuit.expr_to_widx.get(e).ok_or_else(|| ("driver-no-witness-for-root".to_string(), format!("{e:?}")))?;
            traces.witness_trace.get_value(*w).copied().ok_or_else(|| ("driver-no-witness-for-root".to_string(), format!("{w:?}")))
        }).collect()
    }));
    r.unwrap_or_else(|e| Err(("circuit-run-panic".into(), panic_msg(e))))
}

// ---------------------------------------------------------------------------------------------
// DAG cases
// ---------------------------------------------------------------------------------------------
/// `--selftest`: the reference evaluator computes `sub` the wrong way round; the run must then report mismatches.
pub static SELFTEST: std::sync::atomic::AtomicBool = std::sync::atomic::AtomicBool::new(false);

#[derive(Clone, Debug)]
pub enum Node {
    Var { entry: String, offset: usize, index: usize },
    Const(Vec<u64>),
    Sel(&'static str),
    Bin(char, usize, usize),
    Neg(usize),
    Lift(usize),
}

#[derive(Clone, Debug)]
pub struct Dag {
    pub ext: bool,
    pub nodes: Vec<Node>,
    pub roots: Vec<usize>,
}

const BASE_ENTRIES: [&str; 4] = ["main", "preprocessed", "public", "periodic"];
const EXT_ENTRIES: [&str; 3] = ["permutation", "challenge", "permutation_value"];

pub fn parse_dag(v: &Value) -> Result<Dag, String> {
    let ext = v["ext"].as_bool().unwrap_or(false);
    let arr = v["nodes"].as_array().ok_or("nodes missing")?;
    let mut nodes = Vec::with_capacity(arr.len());
    for (i, n) in arr.iter().enumerate() {
        let idx = |key: &str| -> Result<usize, String> {
            let x = n[key].as_u64().ok_or(format!("node {i}: field {key} missing"))? as usize;
            if x >= i { Err(format!("node {i}: {key}={x} is not an earlier node")) } else { Ok(x) }
        };
        let k = n["k"].as_str().ok_or(format!("node {i}: k missing"))?;
        nodes.push(match k {
            "var" => {
                let entry = match n["entry"].as_str().ok_or(format!("node {i}: entry missing"))? {
                    "prep" => "preprocessed",
                    "perm" => "permutation",
                    "perm_value" | "permutation-value" | "permutationvalue" => "permutation_value",
                    "challenges" => "challenge",
                    e => e,
                }.to_string();
                if !BASE_ENTRIES.contains(&entry.as_str()) && !EXT_ENTRIES.contains(&entry.as_str()) {
                    return Err(format!("node {i}: unknown entry {entry}"));
                }
                if !ext && EXT_ENTRIES.contains(&entry.as_str()) {
                    return Err(format!("node {i}: extension variable {entry} in a base DAG"));
                }
                Node::Var { entry, offset: n["offset"].as_u64().unwrap_or(0) as usize, index: n["index"].as_u64().unwrap_or(0) as usize }
            }
            "const" | "econst" => match &n["v"] {
                Value::Array(a) => Node::Const(a.iter().map(|x| x.as_u64().unwrap_or(0) % F::ORDER_U64).collect()),
                x => Node::Const(vec![x.as_i64().map(|s| s.rem_euclid(F::ORDER_U64 as i64) as u64).or(x.as_u64().map(|u| u % F::ORDER_U64)).ok_or(format!("node {i}: v missing"))?]),
            },
            "is_first_row" => Node::Sel("is_first_row"),
            "is_last_row" => Node::Sel("is_last_row"),
            "is_transition" => Node::Sel("is_transition"),
            "add" => Node::Bin('+', idx("l")?, idx("r")?),
            "sub" => Node::Bin('-', idx("l")?, idx("r")?),
            "mul" => Node::Bin('*', idx("l")?, idx("r")?),
            "neg" => Node::Neg(idx("x")?),
            "lift" if ext => Node::Lift(idx("x")?),
            other => return Err(format!("node {i}: unknown kind {other}")),
        });
    }
    let roots: Vec<usize> = match (&v["roots"], &v["root"]) {
        (Value::Array(a), _) => a.iter().filter_map(|x| x.as_u64().map(|x| x as usize)).collect(),
        (_, r) => vec![r.as_u64().map(|x| x as usize).unwrap_or(nodes.len().saturating_sub(1))],
    };
    if nodes.is_empty() || roots.is_empty() || roots.iter().any(|r| *r >= nodes.len()) {
        return Err("empty DAG or root out of range".into());
    }
    Ok(Dag { ext, nodes, roots })
}

impl Dag {
    fn is_ext_const(c: &[u64]) -> bool {
        c.len() > 1 && c[1..].iter().any(|x| *x != 0)
    }
    fn widths(&self) -> Widths {
        let mut w = Widths::default();
        for n in &self.nodes {
            if let Node::Var { entry, index, .. } = n {
                let slot = match entry.as_str() {
                    "main" => &mut w.main,
                    "preprocessed" => &mut w.prep,
                    "public" => &mut w.public,
                    "periodic" => &mut w.periodic,
                    "permutation" => &mut w.perm,
                    "challenge" => &mut w.challenges,
                    _ => &mut w.perm_values,
                };
                *slot = (*slot).max(index + 1);
            }
        }
        w
    }
    /// nodes reachable from the roots, number of references to each, depth of each
    fn structure(&self) -> (Vec<bool>, Vec<usize>, Vec<usize>) {
        let n = self.nodes.len();
        let (mut reach, mut refs, mut depth) = (vec![false; n], vec![0usize; n], vec![0usize; n]);
        for r in &self.roots {
            reach[*r] = true;
            refs[*r] += 1;
        }
        for i in (0..n).rev() {
            if !reach[i] {
                continue;
            }
            let ch: Vec<usize> = match &self.nodes[i] {
                Node::Bin(_, l, r) => vec![*l, *r],
                Node::Neg(x) | Node::Lift(x) => vec![*x],
                _ => vec![],
            };
            for c in ch {
                reach[c] = true;
                refs[c] += 1;
            }
        }
        for i in 0..n {
            depth[i] = match &self.nodes[i] {
                Node::Bin(_, l, r) => 1 + depth[*l].max(depth[*r]),
                Node::Neg(x) | Node::Lift(x) => 1 + depth[*x],
                _ => 0,
            };
        }
        (reach, refs, depth)
    }
    pub fn shapes(&self) -> Vec<String> {
        let (reach, refs, depth) = self.structure();
        let mut s = vec![if self.ext { "ext" } else { "base" }.to_string()];
        let shared_inner = (0..self.nodes.len()).any(|i| reach[i] && refs[i] > 1 && matches!(self.nodes[i], Node::Bin(..) | Node::Neg(_) | Node::Lift(_)));
        let shared_leaf = (0..self.nodes.len()).any(|i| reach[i] && refs[i] > 1);
        s.push(if shared_inner { "shared" } else if shared_leaf { "shared-leaf" } else { "tree" }.into());
        let d = self.roots.iter().map(|r| depth[*r]).max().unwrap_or(0);
        s.push(match d { 0 => "depth-0", 1..=2 => "depth-1-2", 3..=5 => "depth-3-5", 6..=64 => "depth-6-64", _ => "depth-65plus" }.into());
        if self.roots.len() > 1 {
            s.push("multi-root".into());
        }
        let mut kinds: Vec<String> = Vec::new();
        for (i, n) in self.nodes.iter().enumerate() {
            if !reach[i] {
                continue;
            }
            let k = match n {
                Node::Var { entry, offset, .. } => match entry.as_str() {
                    "main" | "preprocessed" | "permutation" => format!("leaf-{entry}-{}", if *offset == 0 { "local" } else { "next" }),
                    e => format!("leaf-{}", e.replace('_', "-")),
                },
                Node::Const(c) => if Self::is_ext_const(c) { "leaf-ext-const".into() } else { "leaf-const".into() },
                Node::Sel(s) => format!("leaf-{}", s.replace('_', "-")),
                Node::Lift(_) => "explicit-lift".into(),
                Node::Neg(_) => "op-neg".into(),
                Node::Bin(c, ..) => format!("op-{}", match c { '+' => "add", '-' => "sub", _ => "mul" }),
            };
            if !kinds.contains(&k) {
                kinds.push(k);
            }
        }
        kinds.sort();
        s.extend(kinds);
        s
    }
    pub fn to_json(&self) -> Value {
        let nodes: Vec<Value> = self.nodes.iter().map(|n| match n {
            Node::Var { entry, offset, index } => json!({"k": "var", "entry": entry, "offset": offset, "index": index}),
            Node::Const(c) => if c.len() == 1 { json!({"k": "const", "v": c[0]}) } else { json!({"k": "const", "v": c}) },
            Node::Sel(s) => json!({"k": s}),
            Node::Bin(c, l, r) => json!({"k": match c { '+' => "add", '-' => "sub", _ => "mul" }, "l": l, "r": r}),
            Node::Neg(x) => json!({"k": "neg", "x": x}),
            Node::Lift(x) => json!({"k": "lift", "x": x}),
        }).collect();
        json!({"spec": "Symbolic", "kind": "dag", "ext": self.ext, "nodes": nodes, "roots": self.roots})
    }
    /// Direct evaluation of the node list (the reference semantics of the case).
    pub fn eval(&self, v: &Vals) -> Result<Vec<EF>, String> {
        let mut out: Vec<EF> = Vec::with_capacity(self.nodes.len());
        for n in &self.nodes {
            out.push(match n {
                Node::Var { entry, offset, index } => {
                    if *offset > 1 {
                        return Err(format!("offset {offset} (more than two rows)"));
                    }
                    *match entry.as_str() {
                        "main" => &v.main[*offset],
                        "preprocessed" => &v.prep[*offset],
                        "public" => &v.pubs,
                        "periodic" => &v.periodic,
                        "permutation" => &v.perm[*offset],
                        "challenge" => &v.challenges,
                        _ => &v.perm_values,
                    }.get(*index).ok_or("index out of range")?
                }
                Node::Const(c) => ef_from(c),
                Node::Sel("is_first_row") => v.sels[0],
                Node::Sel("is_last_row") => v.sels[1],
                Node::Sel(_) => v.sels[2],
                Node::Bin('+', l, r) => out[*l] + out[*r],
                Node::Bin('-', l, r) => if SELFTEST.load(std::sync::atomic::Ordering::Relaxed) { out[*r] - out[*l] } else { out[*l] - out[*r] },
                Node::Bin(_, l, r) => out[*l] * out[*r],
                Node::Neg(x) => -out[*x],
                Node::Lift(x) => out[*x],
            });
        }
        Ok(out)
    }
}

fn base_entry(entry: &str, offset: usize) -> BaseEntry {
    match entry {
        "main" => BaseEntry::Main { offset },
        "preprocessed" => BaseEntry::Preprocessed { offset },
        "public" => BaseEntry::Public,
        _ => BaseEntry::Periodic,
    }
}

fn mk<A: p3_air::symbolic::SymLeaf>(op: char, x: &Arc<SymbolicExpr<A>>, y: Option<&Arc<SymbolicExpr<A>>>) -> SymbolicExpr<A> {
    let (dx, dy) = (x.degree_multiple(), y.map(|y| y.degree_multiple()).unwrap_or(0));
    match (op, y) {
        ('+', Some(y)) => SymbolicExpr::Add { x: x.clone(), y: y.clone(), degree_multiple: dx.max(dy) },
        ('-', Some(y)) => SymbolicExpr::Sub { x: x.clone(), y: y.clone(), degree_multiple: dx.max(dy) },
        ('*', Some(y)) => SymbolicExpr::Mul { x: x.clone(), y: y.clone(), degree_multiple: dx + dy },
        _ => SymbolicExpr::Neg { x: x.clone(), degree_multiple: dx },
    }
}

fn base_leaf<CF: Field>(n: &Node, konst: &dyn Fn(&[u64]) -> CF) -> Option<SymB<CF>> {
    Some(SymbolicExpr::Leaf(match n {
        Node::Var { entry, offset, index } if BASE_ENTRIES.contains(&entry.as_str()) => BaseLeaf::Variable(SymbolicVariable::new(base_entry(entry, *offset), *index)),
        Node::Const(c) => BaseLeaf::Constant(konst(c)),
        Node::Sel("is_first_row") => BaseLeaf::IsFirstRow,
        Node::Sel("is_last_row") => BaseLeaf::IsLastRow,
        Node::Sel(_) => BaseLeaf::IsTransition,
        _ => return None,
    }))
}

/// One `Arc` per node: a node referenced twice is ONE shared allocation.
fn build_base<CF: Field>(dag: &Dag, konst: &dyn Fn(&[u64]) -> CF) -> Vec<Arc<SymB<CF>>> {
    let mut out: Vec<Arc<SymB<CF>>> = Vec::with_capacity(dag.nodes.len());
    for n in &dag.nodes {
        let e = match n {
            Node::Bin(op, l, r) => mk(*op, &out[*l], Some(&out[*r])),
            Node::Neg(x) => mk('n', &out[*x], None),
            Node::Lift(_) => unreachable!("lift in base DAG"),
            leaf => base_leaf(leaf, konst).expect("base leaf"),
        };
        out.push(Arc::new(e));
    }
    out
}

#[derive(Clone)]
enum BE {
    B(Arc<SymB<F>>),
    E(Arc<SymE>),
}

/// Extension DAG.  `eager`: every base leaf is lifted at once (all inner nodes are extension nodes);
/// otherwise base sub-DAGs stay base expressions and are lifted (once per node, memoised) where they meet an
/// extension operand.  Explicit `lift` nodes always make a fresh `ExtLeaf::Base` copy.
fn build_ext(dag: &Dag, eager: bool) -> (Vec<BE>, Vec<Arc<SymE>>) {
    let mut out: Vec<BE> = Vec::with_capacity(dag.nodes.len());
    let mut lifted: Vec<Option<Arc<SymE>>> = vec![None; dag.nodes.len()];
    fn lift(i: usize, out: &[BE], lifted: &mut [Option<Arc<SymE>>]) -> Arc<SymE> {
        match &out[i] {
            BE::E(e) => e.clone(),
            BE::B(b) => lifted[i].get_or_insert_with(|| Arc::new(SymbolicExpr::Leaf(ExtLeaf::Base((**b).clone())))).clone(),
        }
    }
    let f_const = |c: &[u64]| F::from_u64(c[0]);
    for (i, n) in dag.nodes.iter().enumerate() {
        let be = match n {
            Node::Var { entry, offset, index } if EXT_ENTRIES.contains(&entry.as_str()) => {
                let e = match entry.as_str() {
                    "permutation" => ExtEntry::Permutation { offset: *offset },
                    "challenge" => ExtEntry::Challenge,
                    _ => ExtEntry::PermutationValue,
                };
                BE::E(Arc::new(SymbolicExpr::Leaf(ExtLeaf::ExtVariable(SymbolicVariableExt::new(e, *index)))))
            }
            Node::Const(c) if Dag::is_ext_const(c) => BE::E(Arc::new(SymbolicExpr::Leaf(ExtLeaf::ExtConstant(ef_from(c))))),
            Node::Lift(x) => match &out[*x] {
                BE::B(b) => BE::E(Arc::new(SymbolicExpr::Leaf(ExtLeaf::Base((**b).clone())))),
                BE::E(e) => BE::E(e.clone()),
            },
            Node::Bin(op, l, r) => match (&out[*l], &out[*r]) {
                (BE::B(x), BE::B(y)) => BE::B(Arc::new(mk(*op, x, Some(y)))),
                _ => {
                    let (x, y) = (lift(*l, &out, &mut lifted), lift(*r, &out, &mut lifted));
                    BE::E(Arc::new(mk(*op, &x, Some(&y))))
                }
            },
            Node::Neg(x) => match &out[*x] {
                BE::B(b) => BE::B(Arc::new(mk('n', b, None))),
                BE::E(e) => BE::E(Arc::new(mk('n', e, None))),
            },
            leaf => {
                let b = Arc::new(base_leaf::<F>(leaf, &f_const).expect("base leaf"));
                if eager { BE::E(Arc::new(SymbolicExpr::Leaf(ExtLeaf::Base((*b).clone())))) } else { BE::B(b) }
            }
        };
        out.push(be);
        let _ = i;
    }
    let roots = dag.roots.iter().map(|r| lift(*r, &out, &mut lifted)).collect();
    (out, roots)
}

/// Second opinion used only to validate the driver's own DAG construction: walk the `Arc` structure.
fn walk_base<CF: Field>(e: &SymB<CF>, v: &Vals, lift: &dyn Fn(CF) -> EF, memo: &mut HashMap<*const SymB<CF>, EF>) -> EF {
    if let Some(x) = memo.get(&(e as *const _)) {
        return *x;
    }
    let r = match e {
        SymbolicExpr::Leaf(BaseLeaf::Constant(c)) => lift(*c),
        SymbolicExpr::Leaf(BaseLeaf::IsFirstRow) => v.sels[0],
        SymbolicExpr::Leaf(BaseLeaf::IsLastRow) => v.sels[1],
        SymbolicExpr::Leaf(BaseLeaf::IsTransition) => v.sels[2],
        SymbolicExpr::Leaf(BaseLeaf::Variable(s)) => match s.entry {
            BaseEntry::Main { offset } => v.main[offset][s.index],
            BaseEntry::Preprocessed { offset } => v.prep[offset][s.index],
            BaseEntry::Public => v.pubs[s.index],
            BaseEntry::Periodic => v.periodic[s.index],
        },
        SymbolicExpr::Add { x, y, .. } => walk_base(x, v, lift, memo) + walk_base(y, v, lift, memo),
        SymbolicExpr::Sub { x, y, .. } => walk_base(x, v, lift, memo) - walk_base(y, v, lift, memo),
        SymbolicExpr::Mul { x, y, .. } => walk_base(x, v, lift, memo) * walk_base(y, v, lift, memo),
        SymbolicExpr::Neg { x, .. } => -walk_base(x, v, lift, memo),
    };
    memo.insert(e as *const _, r);
    r
}
fn walk_ext(e: &SymE, v: &Vals, bm: &mut HashMap<*const SymB<F>, EF>, memo: &mut HashMap<*const SymE, EF>) -> EF {
    if let Some(x) = memo.get(&(e as *const _)) {
        return *x;
    }
    let r = match e {
        SymbolicExpr::Leaf(ExtLeaf::Base(b)) => walk_base(b, v, &|c| EF::from(c), bm),
        SymbolicExpr::Leaf(ExtLeaf::ExtConstant(c)) => *c,
        SymbolicExpr::Leaf(ExtLeaf::ExtVariable(s)) => match s.entry {
            ExtEntry::Permutation { offset } => v.perm[offset][s.index],
            ExtEntry::Challenge => v.challenges[s.index],
            ExtEntry::PermutationValue => v.perm_values[s.index],
        },
        SymbolicExpr::Add { x, y, .. } => walk_ext(x, v, bm, memo) + walk_ext(y, v, bm, memo),
        SymbolicExpr::Sub { x, y, .. } => walk_ext(x, v, bm, memo) - walk_ext(y, v, bm, memo),
        SymbolicExpr::Mul { x, y, .. } => walk_ext(x, v, bm, memo) * walk_ext(y, v, bm, memo),
        SymbolicExpr::Neg { x, .. } => -walk_ext(x, v, bm, memo),
    };
    memo.insert(e as *const _, r);
    r
}

#[derive(Default, Clone, Debug)]
pub struct Counts(pub std::collections::BTreeMap<String, u64>);
impl Counts {
    pub fn inc(&mut self, k: &str) {
        *self.0.entry(k.to_string()).or_default() += 1;
    }
    pub fn merge(&mut self, o: &Counts) {
        for (k, v) in &o.0 {
            *self.0.entry(k.clone()).or_default() += v;
        }
    }
}

fn finding(kind: &str, shapes: &[String], detail: Value) -> Finding {
    Finding { property: "C13".into(), kind: kind.into(), signature: format!("{kind}@{}", shapes.join("+")), detail }
}

/// One compile-and-compare of a DAG through one compiler path.  `path`: "base-cf-f" | "base-cf-ef" | "ext-late" | "ext-eager".
fn dag_path(dag: &Dag, path: &str, vals: &Vals, want: &[EF], st: &mut Counts, shapes: &[String], out: &mut Vec<Finding>) {
    let mut sh = shapes.to_vec();
    sh.push(format!("path-{path}"));
    let w = dag.widths();
    let mut cb = CircuitBuilder::<EF>::new();
    let inp = Inputs::alloc(&mut cb, &w);
    let small = dag.nodes.len() <= 64;
    // build the symbolic DAG + compile with the real compiler (roots one after the other, caches shared like eval_folded_circuit)
    let reachable = dag.structure().0.iter().filter(|r| **r).count();
    let mut cache_len: Option<usize> = None;
    let compiled = catch_unwind(AssertUnwindSafe(|| -> (Vec<ExprId>, Option<Vec<EF>>) {
        let cols = inp.columns();
        let comp = SymbolicCompiler::new(inp.selectors(), &cols);
        match path {
            "base-cf-f" => {
                let nodes = build_base::<F>(dag, &|c| F::from_u64(c[0]));
                let mut cache = HashMap::new();
                let ids = dag.roots.iter().map(|r| comp.compile_base::<F, EF>(&nodes[*r], &mut cb, &mut cache)).collect();
                cache_len = Some(cache.len());
                let mut memo = HashMap::new();
                (ids, small.then(|| dag.roots.iter().map(|r| walk_base(&nodes[*r], vals, &|c| EF::from(c), &mut memo)).collect()))
            }
            "base-cf-ef" => {
                let nodes = build_base::<EF>(dag, &|c| ef_from(c));
                let mut cache = HashMap::new();
                let ids = dag.roots.iter().map(|r| comp.compile_base::<EF, EF>(&nodes[*r], &mut cb, &mut cache)).collect();
                cache_len = Some(cache.len());
                let mut memo = HashMap::new();
                (ids, small.then(|| dag.roots.iter().map(|r| walk_base(&nodes[*r], vals, &|c| c, &mut memo)).collect()))
            }
            _ => {
                let (_nodes, roots) = build_ext(dag, path == "ext-eager");
                let (mut bc, mut ec) = (HashMap::new(), HashMap::new());
                let ids = roots.iter().map(|r| comp.compile_ext::<F, EF>(r, &mut cb, &mut bc, &mut ec)).collect();
                let (mut bm, mut em) = (HashMap::new(), HashMap::new());
                (ids, small.then(|| roots.iter().map(|r| walk_ext(r, vals, &mut bm, &mut em)).collect()))
            }
        }
    }));
    st.inc(&format!("dag_paths:{path}"));
    // driver self-check (not a verdict): the compiler saw one pointer per reachable node of the case
    if let Some(n) = cache_len {
        st.inc(if n == reachable { "driver_check:one_cache_entry_per_reachable_node" } else { "driver_check:cache_entries_differ_from_reachable_nodes" });
    }
    let (ids, walked) = match compiled {
        Ok(x) => x,
        Err(e) => {
            st.inc("compile_panics");
            out.push(finding("compile-panic", &sh, json!({"case": dag.to_json(), "path": path, "panic": panic_msg(e)})));
            return;
        }
    };
    if let Some(wv) = walked.as_ref().filter(|_| !SELFTEST.load(std::sync::atomic::Ordering::Relaxed)) {
        if wv.as_slice() != want {
            st.inc("driver_errors");
            out.push(finding("driver-dag-construction-differs-from-case", &sh, json!({"case": dag.to_json(), "path": path})));
            return;
        }
    }
    match run_circuit(cb, vals, &ids) {
        Err((kind, msg)) => {
            st.inc(&kind.replace('-', "_"));
            out.push(finding(&kind, &sh, json!({"case": dag.to_json(), "path": path, "error": msg, "values": vals.to_json()})));
        }
        Ok(got) => {
            st.inc("dag_values_compared");
            if got.as_slice() != want {
                st.inc("dag_mismatches");
                out.push(finding("compiled-value-differs", &sh, json!({"case": dag.to_json(), "path": path, "values": vals.to_json(),
                    "circuit_roots": got.iter().map(|x| efu(*x)).collect::<Vec<_>>(), "direct_roots": want.iter().map(|x| efu(*x)).collect::<Vec<_>>()})));
            }
        }
    }
}

pub fn check_dag(dag: &Dag, rng: &mut StdRng, st: &mut Counts, out: &mut Vec<Finding>) {
    let shapes = dag.shapes();
    st.inc("dag_cases");
    st.inc(if dag.ext { "dag_cases_ext" } else { "dag_cases_base" });
    for s in &shapes {
        st.inc(&format!("shape:{s}"));
    }
    let w = dag.widths();
    let has_ext_var = dag.nodes.iter().any(|n| matches!(n, Node::Var { entry, .. } if EXT_ENTRIES.contains(&entry.as_str())));
    let has_ext_const = dag.nodes.iter().any(|n| matches!(n, Node::Const(c) if Dag::is_ext_const(c)));
    if dag.nodes.iter().any(|n| matches!(n, Node::Var { offset, .. } if *offset > 1)) {
        // more than two rows: the native folder cannot even express it (`resolve` panics); the compiler must refuse too
        let mut w = dag.widths();
        (w.main, w.prep, w.perm) = (w.main.max(1), w.prep.max(1), w.perm.max(1));
        let mut cb = CircuitBuilder::<EF>::new();
        let inp = Inputs::alloc(&mut cb, &w);
        let refused = catch_unwind(AssertUnwindSafe(|| {
            let cols = inp.columns();
            let comp = SymbolicCompiler::new(inp.selectors(), &cols);
            if dag.ext {
                let (_n, roots) = build_ext(dag, false);
                let (mut bc, mut ec) = (HashMap::new(), HashMap::new());
                roots.iter().for_each(|r| { comp.compile_ext::<F, EF>(r, &mut cb, &mut bc, &mut ec); });
            } else {
                let nodes = build_base::<EF>(dag, &|c| ef_from(c));
                let mut cache = HashMap::new();
                dag.roots.iter().for_each(|r| { comp.compile_base::<EF, EF>(&nodes[*r], &mut cb, &mut cache); });
            }
        })).is_err();
        let reachable_bad = { let reach = dag.structure().0; dag.nodes.iter().enumerate().any(|(i, n)| reach[i] && matches!(n, Node::Var { offset, .. } if *offset > 1)) };
        st.inc(if refused { "dag_cases_offset_gt1:compiler_refuses" } else if reachable_bad { "dag_cases_offset_gt1:compiler_accepts" } else { "dag_cases_offset_gt1:unreachable_node" });
        if !refused && reachable_bad {
            out.push(finding("compiles-expression-spanning-more-than-two-rows", &shapes, json!({"case": dag.to_json()})));
        }
        return;
    }
    let vals = Vals::random(&w, rng, true);
    let all = match dag.eval(&vals) {
        Ok(a) => a,
        Err(e) => {
            st.inc("driver_errors");
            out.push(finding("driver-case-not-evaluable", &shapes, json!({"case": dag.to_json(), "error": e})));
            return;
        }
    };
    let want: Vec<EF> = dag.roots.iter().map(|r| all[*r]).collect();
    if dag.ext {
        dag_path(dag, "ext-late", &vals, &want, st, &shapes, out);
        dag_path(dag, "ext-eager", &vals, &want, st, &shapes, out);
    } else {
        if !has_ext_const {
            dag_path(dag, "base-cf-f", &vals, &want, st, &shapes, out);
        }
        dag_path(dag, "base-cf-ef", &vals, &want, st, &shapes, out);
    }
    // the same DAG as an AIR: real eval_folded_circuit vs native folder (needs base-field publics, no extension variables)
    if !has_ext_var && (dag.ext || !has_ext_const) && dag.nodes.len() <= 256 {
        let air = DagAir { dag: dag.clone(), w };
        let mut sh = shapes.clone();
        sh.push("path-dag-as-air".into());
        st.inc("dag_as_air_cases");
        let plain = |f: &mut VerifierConstraintFolder<'_, SC>| air.eval_plain(f);
        let plain: Option<&dyn Fn(&mut VerifierConstraintFolder<'_, SC>)> = if dag.ext { None } else { Some(&plain) };
        air_compare("dag-as-air", &air, false, plain, rng, st, &sh, &dag.to_json(), out);
    }
}

// ---------------------------------------------------------------------------------------------
// A DAG as an AIR: every root is one constraint (assert_zero / assert_zero_ext)
// ---------------------------------------------------------------------------------------------
#[derive(Clone)]
pub struct DagAir {
    dag: Dag,
    w: Widths,
}

impl<T> BaseAir<T> for DagAir {
    fn width(&self) -> usize {
        self.w.main
    }
    fn preprocessed_width(&self) -> usize {
        self.w.prep
    }
    fn num_public_values(&self) -> usize {
        self.w.public
    }
    fn num_periodic_columns(&self) -> usize {
        self.w.periodic
    }
}

enum V<B, E> {
    B(B),
    E(E),
}

impl DagAir {
    fn base_node<AB: AirBuilder>(n: &Node, b: &AB, vals: &[Option<AB::Expr>]) -> AB::Expr
    where
        AB::Expr: Clone,
    {
        let g = |i: &usize| vals[*i].clone().expect("base operand");
        match n {
            Node::Var { entry, offset, index } => match (entry.as_str(), offset) {
                ("main", 0) => b.main().current(*index).unwrap().into(),
                ("main", _) => b.main().next(*index).unwrap().into(),
                ("preprocessed", 0) => b.preprocessed().current(*index).unwrap().into(),
                ("preprocessed", _) => b.preprocessed().next(*index).unwrap().into(),
                ("public", _) => b.public_values()[*index].into(),
                _ => b.periodic_values()[*index].into(),
            },
            Node::Const(c) => AB::Expr::from_u64(c[0]),
            Node::Sel("is_first_row") => b.is_first_row(),
            Node::Sel("is_last_row") => b.is_last_row(),
            Node::Sel(_) => b.is_transition(),
            Node::Bin('+', l, r) => g(l) + g(r),
            Node::Bin('-', l, r) => g(l) - g(r),
            Node::Bin(_, l, r) => g(l) * g(r),
            Node::Neg(x) => -g(x),
            Node::Lift(x) => g(x),
        }
    }
    /// Base DAGs only: evaluation against a builder without extension support (the uni-stark verifier folder).
    fn eval_plain<AB: AirBuilder>(&self, b: &mut AB)
    where
        AB::Expr: Clone,
    {
        if self.dag.ext {
            return;
        }
        let mut vals: Vec<Option<AB::Expr>> = Vec::new();
        for n in &self.dag.nodes {
            let v = Self::base_node(n, b, &vals);
            vals.push(Some(v));
        }
        for r in &self.dag.roots {
            b.assert_zero(vals[*r].clone().unwrap());
        }
    }
}

impl<AB: PermutationAirBuilder> Air<AB> for DagAir
where
    AB::Expr: Clone,
    AB::ExprEF: Clone,
{
    fn eval(&self, b: &mut AB) {
        if !self.dag.ext {
            return self.eval_plain(b);
        }
        let mut vals: Vec<V<AB::Expr, AB::ExprEF>> = Vec::new();
        for n in &self.dag.nodes {
            let up = |i: &usize| -> AB::ExprEF {
                match &vals[*i] {
                    V::B(x) => AB::ExprEF::from(x.clone()),
                    V::E(x) => x.clone(),
                }
            };
            let is_b = |i: &usize| matches!(vals[*i], V::B(_));
            let v = match n {
                Node::Const(c) if Dag::is_ext_const(c) => {
                    V::E(AB::ExprEF::from(<AB::EF as BasedVectorSpace<AB::F>>::from_basis_coefficients_fn(|i| AB::F::from_u64(*c.get(i).unwrap_or(&0)))))
                }
                Node::Lift(x) => V::E(up(x)),
                Node::Bin(op, l, r) if !(is_b(l) && is_b(r)) => V::E(match op {
                    '+' => up(l) + up(r),
                    '-' => up(l) - up(r),
                    _ => up(l) * up(r),
                }),
                Node::Neg(x) if !is_b(x) => V::E(-up(x)),
                other => {
                    let bs: Vec<Option<AB::Expr>> = vals.iter().map(|v| match v { V::B(x) => Some(x.clone()), V::E(_) => None }).collect();
                    V::B(Self::base_node(other, b, &bs))
                }
            };
            vals.push(v);
        }
        for r in &self.dag.roots {
            match &vals[*r] {
                V::B(x) => b.assert_zero(x.clone()),
                V::E(x) => b.assert_zero_ext(x.clone()),
            }
        }
    }
}

// ---------------------------------------------------------------------------------------------
// AIR cases: real eval_folded_circuit vs native folder
// ---------------------------------------------------------------------------------------------
fn native_with_lookups<A>(air: &A, lookups: &[Lookup<F>], v: &Vals) -> EF
where
    A: for<'a> Air<VerifierConstraintFolderWithLookups<'a, SC>>,
{
    // the set-up of p3_batch_stark::verifier::VerifierData::verify_constraints_with_lookups
    let main = VerticalPair::new(RowMajorMatrixView::new_row(&v.main[0]), RowMajorMatrixView::new_row(&v.main[1]));
    let preprocessed = VerticalPair::new(RowMajorMatrixView::new_row(&v.prep[0]), RowMajorMatrixView::new_row(&v.prep[1]));
    let preprocessed_window = RowWindow::from_two_rows(preprocessed.top.values, preprocessed.bottom.values);
    let inner = VerifierConstraintFolder::<SC> { main, preprocessed, preprocessed_window, periodic_values: &v.periodic, public_values: &v.pubs_base,
        is_first_row: v.sels[0], is_last_row: v.sels[1], is_transition: v.sels[2], alpha: v.alpha, accumulator: EF::ZERO };
    let mut folder = VerifierConstraintFolderWithLookups { inner,
        permutation: VerticalPair::new(RowMajorMatrixView::new_row(&v.perm[0]), RowMajorMatrixView::new_row(&v.perm[1])),
        permutation_challenges: &v.challenges, permutation_values: &v.perm_values };
    LogUpGadget::new().eval_air_and_lookups(air, &mut folder, lookups);
    folder.inner.accumulator
}

fn native_plain(eval: &dyn Fn(&mut VerifierConstraintFolder<'_, SC>), v: &Vals) -> EF {
    // the set-up of p3_uni_stark::verifier::verify_constraints
    let main = VerticalPair::new(RowMajorMatrixView::new_row(&v.main[0]), RowMajorMatrixView::new_row(&v.main[1]));
    let preprocessed = if v.prep[0].is_empty() {
        VerticalPair::new(RowMajorMatrixView::new(&[], 0), RowMajorMatrixView::new(&[], 0))
    } else {
        VerticalPair::new(RowMajorMatrixView::new_row(&v.prep[0]), RowMajorMatrixView::new_row(&v.prep[1]))
    };
    let preprocessed_window = RowWindow::from_two_rows(preprocessed.top.values, preprocessed.bottom.values);
    let mut folder = VerifierConstraintFolder::<SC> { main, preprocessed, preprocessed_window, periodic_values: &v.periodic, public_values: &v.pubs_base,
        is_first_row: v.sels[0], is_last_row: v.sels[1], is_transition: v.sels[2], alpha: v.alpha, accumulator: EF::ZERO };
    eval(&mut folder);
    folder.accumulator
}

/// `packed`: use the same-bus packed lookup contexts the native `ProverData::from_airs_and_degrees` computes
/// (`Lookups::pack_same_bus`), otherwise the unpacked contexts of `Lookups::from_air`.
#[allow(clippy::too_many_arguments)]
pub fn air_compare<A>(name: &str, air: &A, packed: bool, plain: Option<&dyn Fn(&mut VerifierConstraintFolder<'_, SC>)>, rng: &mut StdRng,
    st: &mut Counts, shapes: &[String], case: &Value, out: &mut Vec<Finding>)
where
    A: Air<InteractionSymbolicBuilder<F, EF>> + for<'a> Air<VerifierConstraintFolderWithLookups<'a, SC>>,
{
    let gadget = LogUpGadget::new();
    let prepared = catch_unwind(AssertUnwindSafe(|| {
        let unpacked = Lookups::<F>::from_air::<EF, A>(air);
        let lookups = if packed {
            let log_chunks = get_log_num_quotient_chunks::<F, EF, A, LogUpGadget>(air, AirLayout::from_air::<F>(air), &unpacked, 0, &gadget);
            unpacked.pack_same_bus(&gadget, (1usize << log_chunks) + 1)
        } else {
            unpacked
        };
        let n = lookups.len();
        let w = Widths { main: BaseAir::<F>::width(air), prep: BaseAir::<F>::preprocessed_width(air), public: BaseAir::<F>::num_public_values(air),
            periodic: BaseAir::<F>::num_periodic_columns(air), perm: if n == 0 { 0 } else { n + 1 }, challenges: n * gadget.num_challenges(), perm_values: usize::from(n > 0) };
        let layout = AirLayout { preprocessed_width: w.prep, main_width: w.main, num_public_values: w.public, num_periodic_columns: w.periodic, ..Default::default() };
        let cl = get_constraint_layout::<F, EF, A, LogUpGadget>(air, layout, &lookups, &gadget);
        (lookups, w, cl)
    }));
    let (lookups, w, cl) = match prepared {
        Ok(x) => x,
        Err(e) => {
            st.inc("air_setup_panics");
            out.push(finding("air-setup-panic", shapes, json!({"case": case, "air": name, "panic": panic_msg(e)})));
            return;
        }
    };
    let mut sh = shapes.to_vec();
    sh.push(if lookups.is_empty() { "no-lookups".into() } else { format!("lookups-{}", if packed { "packed" } else { "unpacked" }) });
    // native folds in emission order; eval_folded_circuit folds all base constraints, then all extension constraints
    let ext_first = cl.ext_indices.first().is_some_and(|e| cl.base_indices.last().is_some_and(|b| e < b));
    sh.push(if ext_first { "ext-constraint-emitted-before-base-constraint" } else { "base-constraints-emitted-first" }.into());
    if name != "dag-as-air" {
        let key = format!("air:{name}{}:{}", shapes.iter().filter(|s| s.starts_with("table-")).map(|s| format!(":{s}")).collect::<String>(), if packed { "packed" } else { "unpacked" });
        for (k, n) in [("lookups", lookups.len()), ("base_constraints", cl.base_indices.len()), ("ext_constraints", cl.ext_indices.len()), ("main_width", w.main), ("prep_width", w.prep)] {
            st.0.insert(format!("{key}:{k}"), n as u64);
        }
    }
    if !lookups.is_empty() {
        st.inc("air_runs_with_lookups");
    }
    if !cl.ext_indices.is_empty() {
        st.inc("air_runs_with_ext_constraints");
    }
    let vals = Vals::random(&w, rng, false);
    let native = catch_unwind(AssertUnwindSafe(|| native_with_lookups(air, &lookups, &vals)));
    let native_uni = plain.filter(|_| lookups.is_empty()).map(|p| catch_unwind(AssertUnwindSafe(|| native_plain(p, &vals))));
    let mut cb = CircuitBuilder::<EF>::new();
    let inp = Inputs::alloc(&mut cb, &w);
    let folded = catch_unwind(AssertUnwindSafe(|| {
        let inv_vanishing = cb.define_const(EF::ONE);
        let sels = RecursiveLagrangeSelectors { row_selectors: inp.selectors(), inv_vanishing };
        RecursiveAir::<F, EF, LogUpGadget>::eval_folded_circuit(air, &mut cb, &sels, &inp.alpha, &LookupMetadata { contexts: &lookups }, inp.columns(), &gadget)
    }));
    st.inc("air_runs");
    let detail = |extra: Value| json!({"case": case, "air": name, "widths": format!("{w:?}"), "num_lookups": lookups.len(), "values": vals.to_json(), "detail": extra});
    let (native, folded) = match (native, folded) {
        (Ok(n), Ok(f)) => (n, f),
        (Err(n), Err(f)) => {
            st.inc("air_both_panic");
            let _ = (n, f);
            return;
        }
        (Err(e), Ok(_)) => {
            st.inc("air_native_panics");
            out.push(finding("native-folder-panic-circuit-builds", &sh, detail(json!({"panic": panic_msg(e)}))));
            return;
        }
        (Ok(_), Err(e)) => {
            st.inc("compile_panics");
            out.push(finding("compile-panic", &sh, detail(json!({"panic": panic_msg(e)}))));
            return;
        }
    };
    if let Some(Ok(u)) = native_uni {
        st.inc("air_native_uni_vs_batch_compared");
        if u != native {
            out.push(finding("native-uni-folder-differs-from-native-batch-folder", &sh, detail(json!({"uni": efu(u), "batch": efu(native)}))));
        }
    }
    match run_circuit(cb, &vals, &[folded]) {
        Err((kind, msg)) => {
            st.inc(&kind.replace('-', "_"));
            out.push(finding(&kind, &sh, detail(json!({"error": msg}))));
        }
        Ok(got) => {
            st.inc("air_values_compared");
            if ext_first {
                st.inc(if got[0] != native { "air_runs_ext_emitted_before_base:mismatch" } else { "air_runs_ext_emitted_before_base:agree" });
            }
            if got[0] != native {
                st.inc("air_mismatches");
                // diagnosis: re-fold the symbolic constraints (driver's own evaluator) in emission order and base-first
                let diag = catch_unwind(AssertUnwindSafe(|| {
                    let layout = AirLayout { preprocessed_width: w.prep, main_width: w.main, num_public_values: w.public, num_periodic_columns: w.periodic, ..Default::default() };
                    let (bc, ec) = get_symbolic_constraints::<F, EF, A, LogUpGadget>(air, layout, &lookups, &gadget);
                    let (mut bm, mut em) = (HashMap::new(), HashMap::new());
                    let bv: Vec<EF> = bc.iter().map(|c| walk_base(c, &vals, &|c| EF::from(c), &mut bm)).collect();
                    let ev: Vec<EF> = ec.iter().map(|c| walk_ext(c, &vals, &mut bm, &mut em)).collect();
                    let base_first = bv.iter().chain(ev.iter()).fold(EF::ZERO, |a, c| a * vals.alpha + *c);
                    let mut order: Vec<(usize, EF)> = cl.base_indices.iter().copied().zip(bv.iter().copied()).chain(cl.ext_indices.iter().copied().zip(ev.iter().copied())).collect();
                    order.sort_by_key(|x| x.0);
                    let emission = order.iter().fold(EF::ZERO, |a, c| a * vals.alpha + c.1);
                    json!({"circuit_equals_base_first_refold": base_first == got[0], "native_equals_emission_order_refold": emission == native,
                        "emission_order": order.iter().map(|(i, _)| if cl.base_indices.contains(i) { "base" } else { "ext" }).collect::<Vec<_>>()})
                })).unwrap_or(Value::Null);
                let sh: Vec<String> = if name == "dag-as-air" { sh.iter().filter(|s| !s.starts_with("leaf-") && !s.starts_with("op-") && !s.starts_with("depth-") && *s != "explicit-lift").cloned().collect() } else { sh.clone() };
                out.push(finding("folded-value-differs", &sh, detail(json!({"circuit": efu(got[0]), "native": efu(native), "diagnosis": diag}))));
            }
        }
    }
}

// --- harness-local AIRs for leaf kinds / orders no workspace AIR has ---------------------------
/// The repository's unit-test `PeriodicTestAir` is private to a `#[cfg(test)]` module; same idea, two columns.
pub struct PeriodicAir;
impl<T> BaseAir<T> for PeriodicAir {
    fn width(&self) -> usize {
        2
    }
    fn num_periodic_columns(&self) -> usize {
        2
    }
}
impl<AB: AirBuilder> Air<AB> for PeriodicAir {
    fn eval(&self, b: &mut AB) {
        let (p0, p1) = (b.periodic_values()[0], b.periodic_values()[1]);
        let m = b.main();
        let (l, n) = (m.current_slice().to_vec(), m.next_slice().to_vec());
        b.assert_eq(l[0], p0);
        b.when_transition().assert_eq(n[1], l[1] * p1.into() + p0.into());
    }
}

/// Emits constraints in the order given by `order` ('b' base via `assert_zero`, 'e' extension via `assert_zero_ext`,
/// 'l' a lifted base expression via `assert_zero_ext`).
pub struct OrderAir(pub &'static str);
impl<T> BaseAir<T> for OrderAir {
    fn width(&self) -> usize {
        4
    }
}
impl<AB: PermutationAirBuilder> Air<AB> for OrderAir {
    fn eval(&self, b: &mut AB) {
        let m = b.main();
        let (l, n) = (m.current_slice().to_vec(), m.next_slice().to_vec());
        for (i, c) in self.0.chars().enumerate() {
            let (x, y): (AB::Expr, AB::Expr) = (l[i % 4].into(), n[(i + 1) % 4].into());
            if c == 'b' {
                b.assert_zero(x * y - l[(i + 2) % 4].into());
            } else if c == 'l' {
                // an extension constraint that is a LIFTED base expression (no extension-only leaf), a different one per position
                let z: AB::Expr = l[(i + 2) % 4].into();
                let w: AB::Expr = n[(i + 3) % 4].into();
                b.assert_zero_ext(AB::ExprEF::from(x * y - z + w * AB::Expr::from(AB::F::from_u64(i as u64 + 1))));
            } else {
                let e: AB::ExprEF = AB::ExprEF::from(x) * AB::ExprEF::from(<AB::EF as BasedVectorSpace<AB::F>>::from_basis_coefficients_fn(|j| AB::F::from_u64(j as u64 + 2)));
                b.assert_zero_ext(e - AB::ExprEF::from(y));
            }
        }
    }
}

/// One local lookup (query/table in the same AIR) and two global interactions on one bus.
pub struct LookupAir;
impl<T> BaseAir<T> for LookupAir {
    fn width(&self) -> usize {
        5
    }
    fn preprocessed_width(&self) -> usize {
        2
    }
    fn num_public_values(&self) -> usize {
        1
    }
}
impl<AB: AirBuilder + InteractionBuilder> Air<AB> for LookupAir {
    fn eval(&self, b: &mut AB) {
        let m = b.main();
        let l = m.current_slice().to_vec();
        let p = b.preprocessed().current_slice().to_vec();
        let pv = b.public_values()[0];
        b.assert_bool(l[4]);
        b.when_first_row().assert_eq(l[0], pv);
        let one = AB::Expr::ONE;
        b.push_local_interaction([
            (vec![l[0].into(), l[1].into()], Count::bounded(one.clone(), 1)),
            (vec![p[0].into(), l[2].into()], Count::provided(-Into::<AB::Expr>::into(l[3]))),
        ]);
        b.push_interaction("bus-a", [l[0].into(), l[1] * l[2]], Count::bounded(l[4].into(), 1));
        b.push_interaction("bus-a", [p[1].into(), Into::<AB::Expr>::into(l[2])], Count::provided(-Into::<AB::Expr>::into(l[3])));
    }
}

pub const AIR_NAMES: &[&str] = &[
    "fibonacci", "mul_deg2", "mul_deg3", "const_d1", "const_d4", "public_d1_l1", "public_d1_l4", "public_d4_l2", "alu_d1_l1", "alu_d1_l2_k3", "alu_d1_l4",
    "alu_d4_l1", "alu_d4_l2_k3", "recompose_d4", "recompose_d4_coeff_lookups", "circuit_tables_d1", "circuit_tables_d4", "poseidon2_bb_d4_w16", "poseidon2_bb_d1_w16",
    "harness_periodic", "harness_lookups", "harness_order_bbee", "harness_order_ebeb", "harness_order_eb", "harness_order_ll", "harness_order_lbl", "harness_order_lell",
];

fn small_circuit_airs<const D: usize>(st: &mut Counts, mut f: impl FnMut(&str, &p3_circuit_prover::common::CircuitTableAir<SC, D>))
where
    EF: p3_circuit_prover::field_params::ExtractBinomialW<F>,
{
    use p3_circuit_prover::batch_stark_prover::TablePacking;
    let r = catch_unwind(AssertUnwindSafe(|| {
        if D == 1 {
            let mut cb = CircuitBuilder::<F>::new();
            let (a, b) = (cb.public_input(), cb.public_input());
            let c = cb.define_const(F::from_u64(7));
            let m = cb.mul(a, b);
            let s = cb.add(m, c);
            let d = cb.sub(s, a);
            let e = cb.mul_add(d, b, c);
            let k = cb.define_const(F::from_u64(3));
            let q = cb.mul(e, k);
            cb.connect(q, q);
            let circuit = cb.build().unwrap();
            let (airs, _, _) = p3_circuit_prover::common::get_airs_and_degrees_with_prep::<SC, F, D>(&circuit, &TablePacking::new(2, 2), &[], &[], p3_circuit_prover::ConstraintProfile::Standard).unwrap();
            airs
        } else {
            let mut cb = CircuitBuilder::<EF>::new();
            let (a, b) = (cb.public_input(), cb.public_input());
            let c = cb.define_const(ef_from(&[1, 2, 3, 4]));
            let m = cb.mul(a, b);
            let s = cb.add(m, c);
            let d = cb.sub(s, a);
            let e = cb.mul_add(d, b, c);
            cb.connect(e, e);
            let circuit = cb.build().unwrap();
            let (airs, _, _) = p3_circuit_prover::common::get_airs_and_degrees_with_prep::<SC, EF, D>(&circuit, &TablePacking::new(1, 2), &[], &[], p3_circuit_prover::ConstraintProfile::Standard).unwrap();
            airs
        }
    }));
    match r {
        Ok(airs) => {
            for (air, _) in &airs {
                let n = match air {
                    p3_circuit_prover::common::CircuitTableAir::Const(_) => "const",
                    p3_circuit_prover::common::CircuitTableAir::Public(_) => "public",
                    p3_circuit_prover::common::CircuitTableAir::Alu(_) => "alu",
                    p3_circuit_prover::common::CircuitTableAir::Dynamic(_) => "dynamic",
                };
                f(n, air);
            }
        }
        Err(_) => st.inc("driver_errors_small_circuit"),
    }
}

pub fn check_air(name: &str, rng: &mut StdRng, st: &mut Counts, out: &mut Vec<Finding>) -> bool {
    use repo_test_common::MulAir;
    let case = json!({"spec": "Symbolic", "kind": "air", "air": name});
    let sh = vec![format!("air-{}", name.replace('_', "-"))];
    st.inc("air_cases");
    macro_rules! both {
        ($air:expr) => {{
            let air = $air;
            for packed in [false, true] {
                air_compare(name, &air, packed, None, rng, st, &sh, &case, out);
            }
        }};
    }
    macro_rules! uni {
        ($air:expr) => {{
            let air = $air;
            air_compare(name, &air, false, Some(&|f: &mut VerifierConstraintFolder<'_, SC>| air.eval(f)), rng, st, &sh, &case, out);
        }};
    }
    let w = F::from_u64(11); // BabyBear quartic extension: x^4 - 11
    match name {
        "fibonacci" => uni!(p3_circuit::test_utils::FibonacciAir {}),
        "mul_deg2" => uni!(MulAir { degree: 2, rows: 8 }),
        "mul_deg3" => uni!(MulAir { degree: 3, rows: 8 }),
        "const_d1" => both!(ConstAir::<F, 1>::new(8)),
        "const_d4" => both!(ConstAir::<F, 4>::new(8)),
        "public_d1_l1" => both!(PublicAir::<F, 1>::new(8, 1)),
        "public_d1_l4" => both!(PublicAir::<F, 1>::new(8, 4)),
        "public_d4_l2" => both!(PublicAir::<F, 4>::new(8, 2)),
        "alu_d1_l1" => both!(AluAir::<F, 1>::new(8, 1)),
        "alu_d1_l2_k3" => both!(AluAir::<F, 1>::new(8, 2).with_horner_pack_k(3)),
        "alu_d1_l4" => both!(AluAir::<F, 1>::new(8, 4)),
        "alu_d4_l1" => both!(AluAir::<F, 4>::new_binomial(8, 1, w)),
        "alu_d4_l2_k3" => both!(AluAir::<F, 4>::new_binomial(8, 2, w).with_horner_pack_k(3)),
        "recompose_d4" => both!(RecomposeAir::<F, 4>::new_with_preprocessed(2, vec![], 1, false)),
        "recompose_d4_coeff_lookups" => both!(RecomposeAir::<F, 4>::new_with_preprocessed(2, vec![], 1, true)),
        "circuit_tables_d1" => {
            let mut airs: Vec<(String, p3_circuit_prover::common::CircuitTableAir<SC, 1>)> = vec![];
            small_circuit_airs::<1>(st, |n, a| airs.push((n.to_string(), a.clone())));
            for (n, a) in airs {
                let mut s2 = sh.clone();
                s2.push(format!("table-{n}"));
                for packed in [false, true] {
                    match &a {
                        p3_circuit_prover::common::CircuitTableAir::Const(x) => air_compare(name, x, packed, None, rng, st, &s2, &case, out),
                        p3_circuit_prover::common::CircuitTableAir::Public(x) => air_compare(name, x, packed, None, rng, st, &s2, &case, out),
                        p3_circuit_prover::common::CircuitTableAir::Alu(x) => air_compare(name, x, packed, None, rng, st, &s2, &case, out),
                        _ => {}
                    }
                }
            }
        }
        "circuit_tables_d4" => {
            let mut airs: Vec<(String, p3_circuit_prover::common::CircuitTableAir<SC, 4>)> = vec![];
            small_circuit_airs::<4>(st, |n, a| airs.push((n.to_string(), a.clone())));
            for (n, a) in airs {
                let mut s2 = sh.clone();
                s2.push(format!("table-{n}"));
                for packed in [false, true] {
                    match &a {
                        p3_circuit_prover::common::CircuitTableAir::Const(x) => air_compare(name, x, packed, None, rng, st, &s2, &case, out),
                        p3_circuit_prover::common::CircuitTableAir::Public(x) => air_compare(name, x, packed, None, rng, st, &s2, &case, out),
                        p3_circuit_prover::common::CircuitTableAir::Alu(x) => air_compare(name, x, packed, None, rng, st, &s2, &case, out),
                        _ => {}
                    }
                }
            }
        }
        "poseidon2_bb_d4_w16" => both!(p3_poseidon2_circuit_air::BabyBearD4Width16::default_air()),
        "poseidon2_bb_d1_w16" => both!(p3_poseidon2_circuit_air::BabyBearD1Width16::default_air()),
        "harness_periodic" => uni!(PeriodicAir),
        "harness_lookups" => both!(LookupAir),
        "harness_order_bbee" => both!(OrderAir("bbee")),
        "harness_order_ebeb" => both!(OrderAir("ebeb")),
        "harness_order_eb" => both!(OrderAir("eb")),
        "harness_order_ll" => both!(OrderAir("ll")),
        "harness_order_lbl" => both!(OrderAir("lbl")),
        "harness_order_lell" => both!(OrderAir("lell")),
        _ => {
            st.inc("air_cases_unknown");
            return false;
        }
    }
    true
}

/// One NDJSON line.
pub fn check_line(line: &str, seed: u64, idx: u64, st: &mut Counts, out: &mut Vec<Finding>) -> Result<(), String> {
    let v: Value = serde_json::from_str(line).map_err(|e| format!("bad line {idx}: {e}"))?;
    let mut rng = seeded(seed, idx);
    match v["kind"].as_str() {
        Some("dag") => {
            let dag = parse_dag(&v).map_err(|e| format!("line {idx}: {e}"))?;
            check_dag(&dag, &mut rng, st, out);
            Ok(())
        }
        Some("air") => {
            let name = v["air"].as_str().ok_or(format!("line {idx}: air missing"))?;
            if check_air(name, &mut rng, st, out) { Ok(()) } else { Err(format!("line {idx}: unknown air {name} (known: {AIR_NAMES:?})")) }
        }
        other => Err(format!("line {idx}: unknown kind {other:?}")),
    }
}

// ---------------------------------------------------------------------------------------------
// symbolic-gen: cases to exercise the driver (the model's cases come from TLC)
// ---------------------------------------------------------------------------------------------
pub fn gen_cases(seed: u64, random_dags: usize) -> Vec<Value> {
    let mut rng = StdRng::seed_from_u64(seed ^ 0x5EED_C13);
    let mut out: Vec<Value> = Vec::new();
    let base_leaves = |ext: bool| -> Vec<Node> {
        let mut l = vec![];
        for e in ["main", "preprocessed"] {
            for o in 0..2 {
                for i in 0..2 {
                    l.push(Node::Var { entry: e.into(), offset: o, index: i });
                }
            }
        }
        for e in ["public", "periodic"] {
            for i in 0..2 {
                l.push(Node::Var { entry: e.into(), offset: 0, index: i });
            }
        }
        for s in ["is_first_row", "is_last_row", "is_transition"] {
            l.push(Node::Sel(s));
        }
        for c in [0u64, 1, 2, 3, F::ORDER_U64 - 1, 1234567] {
            l.push(Node::Const(vec![c]));
        }
        if ext {
            for o in 0..2 {
                for i in 0..2 {
                    l.push(Node::Var { entry: "permutation".into(), offset: o, index: i });
                }
            }
            for e in ["challenge", "permutation_value"] {
                for i in 0..2 {
                    l.push(Node::Var { entry: e.into(), offset: 0, index: i });
                }
            }
            l.push(Node::Const(vec![5, 6, 7, 8]));
            l.push(Node::Const(vec![0, 1, 0, 0]));
        }
        l
    };
    let mut push = |ext: bool, nodes: Vec<Node>, roots: Vec<usize>| out.push(Dag { ext, nodes, roots }.to_json());
    for ext in [false, true] {
        let leaves = base_leaves(ext);
        // every leaf alone, negated, and combined with itself (same Arc on both sides)
        for l in &leaves {
            push(ext, vec![l.clone()], vec![0]);
            push(ext, vec![l.clone(), Node::Neg(0)], vec![1]);
            for op in ['+', '-', '*'] {
                push(ext, vec![l.clone(), Node::Bin(op, 0, 0)], vec![1]);
            }
        }
        // every op over pairs of leaf kinds
        for (i, a) in leaves.iter().enumerate() {
            let b = &leaves[(i * 7 + 3) % leaves.len()];
            for op in ['+', '-', '*'] {
                push(ext, vec![a.clone(), b.clone(), Node::Bin(op, 0, 1)], vec![2]);
                push(ext, vec![a.clone(), b.clone(), Node::Bin(op, 1, 0), Node::Neg(2)], vec![3]);
            }
        }
        // sharing patterns
        let (a, b) = (leaves[0].clone(), leaves[9].clone());
        push(ext, vec![a.clone(), b.clone(), Node::Bin('+', 0, 1), Node::Bin('*', 2, 2)], vec![3]);
        push(ext, vec![a.clone(), b.clone(), Node::Bin('+', 0, 1), Node::Bin('*', 2, 2), Node::Bin('-', 3, 2), Node::Neg(4), Node::Bin('*', 5, 3)], vec![6]);
        push(ext, vec![a.clone(), Node::Neg(0), Node::Neg(1), Node::Bin('+', 2, 1), Node::Bin('*', 3, 0)], vec![4]);
        // the same leaf twice as two distinct nodes (no sharing) vs once (shared)
        push(ext, vec![a.clone(), a.clone(), Node::Bin('*', 0, 1)], vec![2]);
        // several roots compiled with one cache; a root that is a sub-expression of an earlier / later root
        push(ext, vec![a.clone(), b.clone(), Node::Bin('+', 0, 1), Node::Bin('*', 2, 2), Node::Bin('-', 3, 0)], vec![4, 2, 3, 0, 4]);
        push(ext, vec![a.clone(), b.clone(), Node::Bin('*', 0, 1), Node::Neg(2)], vec![2, 3]);
        if ext {
            let (p, c) = (Node::Var { entry: "permutation".into(), offset: 1, index: 0 }, Node::Var { entry: "challenge".into(), offset: 0, index: 1 });
            // a base sub-DAG shared by two extension nodes; explicit double lift of one base node
            push(true, vec![a.clone(), b.clone(), Node::Bin('*', 0, 1), p.clone(), c.clone(), Node::Bin('+', 2, 3), Node::Bin('*', 2, 4), Node::Bin('-', 5, 6)], vec![7]);
            push(true, vec![a.clone(), b.clone(), Node::Bin('*', 0, 1), Node::Lift(2), Node::Lift(2), Node::Bin('*', 3, 4), Node::Bin('+', 5, 2)], vec![6]);
            push(true, vec![a.clone(), Node::Lift(0), p.clone(), Node::Bin('*', 1, 2), Node::Bin('+', 3, 0), Node::Neg(4)], vec![5, 0, 3]);
        }
        // deep chains (explicit work stack): x_{k+1} = x_k * x_k + leaf, and a long neg chain
        for depth in [40usize, 1500] {
            let mut nodes = vec![a.clone(), b.clone()];
            let mut cur = 0;
            for _ in 0..depth / 2 {
                nodes.push(Node::Bin('*', cur, cur));
                nodes.push(Node::Bin('+', nodes.len() - 1, 1));
                cur = nodes.len() - 1;
            }
            push(ext, nodes, vec![cur]);
            let mut nodes = vec![if ext { Node::Var { entry: "challenge".into(), offset: 0, index: 0 } } else { a.clone() }];
            for i in 0..depth {
                nodes.push(Node::Neg(i));
            }
            push(ext, nodes, vec![depth]);
        }
    }
    // random DAGs, 1..7 nodes: trees (every node used once) and DAGs with sharing
    fn tree(budget: usize, leaves: &[Node], rng: &mut StdRng, nodes: &mut Vec<Node>) -> usize {
        let n = if budget <= 1 {
            leaves[rng.random_range(0..leaves.len())].clone()
        } else if budget == 2 || rng.random_range(0..5) == 0 {
            Node::Neg(tree(budget - 1, leaves, rng, nodes))
        } else {
            let lb = rng.random_range(1..budget - 1);
            let l = tree(lb, leaves, rng, nodes);
            let r = tree(budget - 1 - lb, leaves, rng, nodes);
            Node::Bin(['+', '-', '*'][rng.random_range(0..3)], l, r)
        };
        nodes.push(n);
        nodes.len() - 1
    }
    for k in 0..random_dags {
        let ext = k % 2 == 1;
        let leaves = base_leaves(ext);
        let n = 1 + (k / 2) % 7;
        let mut nodes: Vec<Node> = Vec::new();
        if (k / 14) % 3 == 0 {
            tree(n, &leaves, &mut rng, &mut nodes);
        } else {
            let nleaves = 1 + rng.random_range(0..n.div_ceil(2));
            for i in 0..n {
                nodes.push(if i < nleaves {
                    leaves[rng.random_range(0..leaves.len())].clone()
                } else {
                    match rng.random_range(0..8) {
                        0 => Node::Neg(rng.random_range(0..i)),
                        1 if ext => Node::Lift(rng.random_range(0..i)),
                        // prefer the most recent node so that the DAG gets deep and the root reaches most nodes
                        _ => Node::Bin(['+', '-', '*'][rng.random_range(0..3)], if rng.random_range(0..2) == 0 { i - 1 } else { rng.random_range(0..i) }, rng.random_range(0..i)),
                    }
                });
            }
        }
        let n = nodes.len();
        let roots = if k % 11 == 10 && n > 1 { vec![n - 1, rng.random_range(0..n), n - 1] } else { vec![n - 1] };
        out.push(Dag { ext, nodes, roots }.to_json());
    }
    for a in AIR_NAMES {
        out.push(json!({"spec": "Symbolic", "kind": "air", "air": a}));
    }
    out
}
